"""Writes /verif/seeded/INDEX.md from the meta.json of every seeded change."""
import glob
import json
import os

V = os.path.dirname(os.path.dirname(os.path.abspath(__file__)))
rows = []
notes = json.load(open(os.path.join(V, 'seeded', 'notes.json'))) if os.path.exists(os.path.join(V, 'seeded', 'notes.json')) else {}
for d in sorted(glob.glob(os.path.join(V, 'seeded', '*'))):
    mp = os.path.join(d, 'meta.json')
    if not os.path.isfile(mp):
        continue
    m = json.load(open(mp))
    ver = m.get('verification', {})
    caught = sorted(k for k, c in ver.get('checks', {}).items() if c.get('exit') == 1)
    missed = sorted(k for k, c in ver.get('checks', {}).items() if c.get('exit') == 0)
    broken = sorted(k for k, c in ver.get('checks', {}).items() if c.get('exit') not in (0, 1))
    rows.append((os.path.basename(d), m.get('property', ''), m.get('summary', '')[:160].replace('\n', ' ').replace('|', '/'),
                 m.get('needs', '')[:160].replace('\n', ' ').replace('|', '/'), ver.get('confirmed'), caught, missed, broken,
                 notes.get(os.path.basename(d), m.get('strengthening', '')), ver.get('baseline_tests_broken')))
with open(os.path.join(V, 'seeded', 'INDEX.md'), 'w') as f:
    f.write('# Seeded changes\n\nEach directory holds `patch.diff`, `demo.py` (exit 0 without / 1 with the change) and `meta.json` '
            '(what it breaks, what it needs to manifest, what was run). Produced by independent sub-agents that saw only the property text; '
            'confirmed and run against the checks with `tools/seedtest.py` (patched scratch worktree, `VERIF_REPO`).\n\n')
    f.write('| seed | property | change | needs | confirmed | caught by | not caught by | note |\n|---|---|---|---|---|---|---|---|\n')
    for r in rows:
        note = r[8] or ''
        if r[7]:
            note += f' (machinery exit in {", ".join(r[7])})'
        if r[9]:
            note += f' BREAKS baseline tests: {r[9]}'
        f.write(f'| {r[0]} | {r[1]} | {r[2]} | {r[3]} | {r[4]} | {", ".join(r[5])} | {", ".join(r[6])} | {note} |\n')
    n = len(rows)
    c = sum(1 for r in rows if r[5])
    f.write(f'\n{c} of {n} confirmed seeded changes are caught by at least one registered check.\n')
print(f'{len(rows)} seeds indexed')
