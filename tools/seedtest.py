"""Confirm a seeded change and run checks against it.

usage: seedtest.py <dir with patch.diff, demo.py, meta.json> <seed id> <check> [<check> ...] [--tier quick|thorough] [--baseline]

1. a scratch worktree of /repo HEAD is created under /var/tmp; the demo must exit 0 there;
2. the patch is applied; the demo must now exit non-zero;
3. (--baseline) the repository suite is run in the patched worktree and compared with BASELINE.json;
4. every named check is run with VERIF_REPO pointing at the patched worktree (equivalent to applying the
   patch to /repo and undoing it, but safe while other work uses /repo);
5. the result is written to /verif/seeded/<seed id>/ (patch.diff, demo.py, meta.json) and the worktree removed.
"""

from __future__ import annotations

import json
import os
import shutil
import subprocess
import sys
import time
import xml.etree.ElementTree as ET


def sh(cmd, **kw):
    return subprocess.run(cmd, capture_output=True, text=True, **kw)


def main():
    args = [a for a in sys.argv[1:] if not a.startswith('--')]
    src, sid, checks = os.path.abspath(args[0]), args[1], args[2:]
    tier = 'quick'
    if '--tier' in sys.argv:
        tier = sys.argv[sys.argv.index('--tier') + 1]
        checks = [c for c in checks if c != tier]
    wt = f'/var/tmp/seedwt-{sid}'
    sh(['git', '-C', '/repo', 'worktree', 'remove', '--force', wt])
    r = sh(['git', '-C', '/repo', 'worktree', 'add', wt, 'HEAD'])
    if r.returncode != 0:
        print('worktree failed', r.stderr)
        return 2
    out = dict(id=sid, ran=time.strftime('%Y-%m-%d %H:%M:%S'), checks={})
    try:
        shutil.copy('/repo/biogeme.toml', os.path.join(wt, 'biogeme.toml'))
        env = dict(os.environ, PYTHONPATH=os.path.join(wt, 'src'), VERIF_REPO=wt)
        demo = os.path.join(src, 'demo.py')
        d0 = sh(['/venv/bin/python', demo], cwd=wt, env=env, timeout=900)
        ap = sh(['git', '-C', wt, 'apply', os.path.abspath(os.path.join(src, 'patch.diff'))])
        if ap.returncode != 0:
            print('patch does not apply:', ap.stderr)
            out['error'] = 'patch does not apply: ' + ap.stderr[-300:]
            return 2
        d1 = sh(['/venv/bin/python', demo], cwd=wt, env=env, timeout=900)
        out['demo_without_change'] = d0.returncode
        out['demo_with_change'] = d1.returncode
        out['demo_output_with_change'] = (d1.stdout + d1.stderr)[-600:]
        print(f'demo: without change exit {d0.returncode}, with change exit {d1.returncode}')
        if d0.returncode != 0 or d1.returncode == 0:
            out['confirmed'] = False
            print('NOT CONFIRMED', (d0.stdout + d0.stderr)[-400:])
        else:
            out['confirmed'] = True
        if '--baseline' in sys.argv and out['confirmed']:
            xml = f'/var/tmp/seed-{sid}.xml'
            sh(['/venv/bin/python', '-m', 'pytest', '-q', '-p', 'no:cacheprovider', '--timeout=900', '--continue-on-collection-errors',
                f'--junitxml={xml}'], cwd=wt, env=env, timeout=3000)
            base = json.load(open('/root/.vp/BASELINE.json'))
            passed = set()
            for tc in ET.parse(xml).iter('testcase'):
                if not [c.tag for c in tc if c.tag in ('failure', 'error', 'skipped')]:
                    passed.add(tc.get('classname') + '::' + tc.get('name'))
            miss = [n for n in base['stable_pass'] if n not in passed]
            out['baseline_tests_broken'] = miss
            print('baseline tests broken by the change:', miss)
            os.unlink(xml)
        if out['confirmed']:
            for c in checks:
                t0 = time.time()
                r = sh(['/venv/bin/python', '-m', f'checks.{c}', '--tier', tier], cwd='/verif', env=dict(os.environ, VERIF_REPO=wt, VERIF_EVIDENCE_DIR=f'/var/tmp/seed-evidence-{sid}'), timeout=7200)
                lines = [l for l in r.stdout.splitlines() if l.startswith(('VIOLATION', 'OK ', 'MACHINERY', 'KNOWN-FINDING', '  '))]
                viol = [l for l in r.stdout.splitlines() if l.startswith('VIOLATION')]
                detail = [l.strip()[:300] for l in r.stdout.splitlines() if l.startswith('  ')][:3]
                out['checks'][f'{c}:{tier}'] = dict(exit=r.returncode, violations=len(viol), first=detail, wall_s=round(time.time() - t0, 1))
                print(f'check {c} ({tier}): exit {r.returncode}, {len(viol)} violation group(s) {detail[:1]}')
        dest = os.path.join('/verif/seeded', sid)
        os.makedirs(dest, exist_ok=True)
        for f in ('patch.diff', 'demo.py'):
            if os.path.abspath(os.path.join(src, f)) != os.path.abspath(os.path.join(dest, f)):
                shutil.copy(os.path.join(src, f), os.path.join(dest, f))
        meta = {}
        if os.path.exists(os.path.join(src, 'meta.json')):
            try:
                meta = json.load(open(os.path.join(src, 'meta.json')))
            except ValueError:
                meta = {}
        prev = {}
        if os.path.exists(os.path.join(dest, 'meta.json')):
            prev = json.load(open(os.path.join(dest, 'meta.json')))
        meta.update({k: v for k, v in prev.items() if k in ('verification',)})
        ver = meta.get('verification', {})
        ver.update({k: v for k, v in out.items() if k != 'checks'})
        ver.setdefault('checks', {}).update(out['checks'])
        meta['verification'] = ver
        json.dump(meta, open(os.path.join(dest, 'meta.json'), 'w'), indent=1)
        return 0
    finally:
        sh(['git', '-C', '/repo', 'worktree', 'remove', '--force', wt])
        shutil.rmtree(wt, ignore_errors=True)
        shutil.rmtree(f'/var/tmp/seed-evidence-{sid}', ignore_errors=True)


if __name__ == '__main__':
    sys.exit(main())
