"""Regenerates /verif/MANIFEST.json from the table below (run after adding a check)."""
import json
import os

V = os.path.dirname(os.path.dirname(os.path.abspath(__file__)))
props = [json.loads(l) for l in open(os.path.join(V, 'properties.jsonl'))]

CHECKS = {
 'C01': dict(
   text='TLC explores ExprLang (every operator kind, operands over all earlier nodes) exhaustively at one operator and modulo a seed-selected residue class at two/three operators, checking SigSound on the model; every emitted DAG with the exact value Val gives it is replayed into the real classes through get_value_c, get_value_and_derivatives (aggregated or not), the unshared tree, get_value and side-by-side BIOGEME.simulate; the signature/vectors/data recorded at the engine boundary are validated by ExprTrace.tla (post-order, indices by name, Denotes).',
   note='trusted: TLC, the term interpreter vb/terms.py + libm for exp/log/sin/cos/Phi/pow, the compiled engine as the thing observed; values compared at 1e-8 relative; bounded depth',
   technique='TLA+ spec ExprLang + TLC generation, spec->code replay, code->spec trace validation (ExprTrace)', ref='5 C01'),
 'C02': dict(
   text='ExprLang!Jet is second-order forward-mode differentiation by the calculus rules, built by TLC as terms with every discrete decision exact; TLC checks gradient support and Hessian symmetry on the model; every differentiable emitted DAG is replayed through get_value_and_derivatives (all flag combinations, per-observation and aggregated, named results), BIOGEME.calculate_likelihood_and_derivatives (scaled or not), create_function and create_objective_function, and the literal ids crossing the engine boundary are checked to be 0..K-1.',
   note='trusted: TLC, vb/terms.py arithmetic (fractions) and libm; derivative entries compared at 1e-8 of the largest expected entry; formulas the engine refuses to differentiate (BelongsTo, free parameter below a comparison) are outside the property',
   technique='TLA+ spec ExprLang (Jet) + TLC generation, spec->code replay at the engine boundary', ref='5 C02'),
 'C03': dict(
   text='IdManager.tla defines identification by name (tables are a function of the set of leaves, entry k belongs to the k-th name in Python string order, dictionaries override exactly the names they list, optimum attached to the role name); TLC checks order-irrelevance, sortedness, attachment and renaming invariance for every injective renaming into an order-tricky name pool x order of appearance x status x bounds x partial dictionary; every behaviour is replayed into BIOGEME.free_beta_names, get_bounds_on_beta, calculate_likelihood, simulate(dict), get_value_c(partial dict), change_init_values, fix_betas, the vectors and Beta lines crossing the engine boundary, estimate() on a sample; name clashes must raise BiogemeError.',
   note='trusted: TLC; exact rational likelihood of a separable concave quadratic model compared at 1e-12, estimates at 1e-4; dictionaries naming a fixed parameter are not used',
   technique='TLA+ spec IdManager + TLC enumeration of renamings/orders, spec->code replay incl. engine-boundary vectors', ref='5 C03'),
 'C04': dict(
   text='Aggregation.tla: TLC explores every split of the rows into contiguous blocks and every interleaving of the threads (the schedule quantifier) and the engine source partition rule for all N,T in a range: total = sum of weight x value, each row exactly once, termination; AggData.tla emits every permutation of every subset of a row pool with exact expected value/gradient/Hessian/BHHH aggregates (weighted or not, every prefix split); each is replayed into BIOGEME.calculate_likelihood, calculate_likelihood_and_derivatives (scaled or not) and simulate for thread counts 1..N+2 and 0, repeated for T>1, with the engine-boundary calls (thread count, weight signature, data rows) checked.',
   note='trusted: TLC; the engine internal schedule is not observable from Python (Dispatch is its contract); integer-valued polynomial likelihood compared at 1e-12',
   technique='TLA+ specs Aggregation/AggPartition/AggData + TLC schedule exploration, spec->code replay over thread counts', ref='5 C04'),
 'C08': dict(
   text='Results.tla defines every reported figure from the raw outcome by its defining formula (exact rationals, Moore-Penrose inverse for singular Hessians, terms for ln/sqrt/Phi) and the mapping (row label, column) -> quantity of every table; TLC checks family separation, Penrose conditions and table naming on the model and enumerates raw outcomes (K<=3, negative definite / singular Hessians, PSD BHHH, with and without null likelihood and bootstrap); each is replayed into a real bioResults and ~550 figures per outcome are compared (statistics, estimated-parameter tables, correlation, general statistics, covariance families, compile_estimation_results, likelihood_ratio_test).',
   note='trusted: TLC, vb/terms.py + libm for ln/sqrt/Phi/chi-square; cells with non-positive variance (library sentinels) are not compared; tolerances 1e-9 / 1e-8',
   technique='TLA+ spec Results + TLC enumeration of raw outcomes, spec->code replay into bioResults', ref='5 C08'),
 'C11': dict(
   text='DrawTypes.tla holds the 21-name catalogue as a specification table and generates every family (exact radical inverse in rationals, nondeterministic iid/MLHS over a grid, transforms x / 2x-1 / probit, first-half ++ mirror); TLC checks radical-inverse laws, distinct bases, mirror laws and emits exact Halton behaviours that are compared entry by entry with the real generators and Database.generate_draws; arrays recorded from all 21 real generators (several sizes and seeds) are judged by DrawTypesTrace.tla with the model acceptance predicates (shape, support, strata permutation, mirror, symmetric map, quantile flags).',
   note='trusted: TLC; the accuracy of the normal quantile is numeric and is decided by the driver against erfc (flag required by the spec); NORMAL/NORMAL_ANTI underlying uniforms are not observable',
   technique='TLA+ spec DrawTypes + TLC, spec->code replay (Halton) and code->spec trace validation (DrawTypesTrace)', ref='5 C11'),
 'C12': dict(
   text='Audit.tla defines validity of a specification along every path of a formula DAG (unknown column, one name two kinds, placement of draws / integration variables / trajectory, logit keys, choice and availabilities free of draws) for the estimation object and for direct evaluation on panel and non-panel data; TLC generates formulas with fault leaves in every operand slot of every operator class (1 operator modulo thinning, 2-3 operators modulo a residue class) with the expected verdict, and AuditScenarios.tla enumerates nest structures, data tables, derivative flags, choice columns and missing-data reads; each case is handed to the real BIOGEME(...), BIOGEME({log_like}) or get_value_c in a forked child: the library error type with a message exactly when invalid, no exception when valid.',
   note='trusted: TLC; key/choice slots hold leaves only; a read missing value may fail with any exception type; simulate on missing data is not an observation point',
   technique='TLA+ specs Audit/AuditScenarios + TLC fault planting, spec->code replay of verdicts in forked children', ref='5 C12'),
 'C16': dict(
   text='Catalog.tla models controllers, catalogs (shared and nested), configurations and every neighbourhood operator as documented; TLC checks on the full state graph of each structure: #configurations = product of sizes, canonical identifiers and parse of every permutation, same index for all catalogs of a controller, configured formula = hand-written formula, closure of every operator, increase/decrease cancel, iteration visits each configuration once; configurations and operator sequences printed by TLC are replayed into the real Catalog/Controller/CentralController classes (configure_catalogs, current_configuration, selected_name, get_value_c of the configured formula, Configuration.from_string, set_of_configurations, iteration, prepare_operators).',
   note='trusted: TLC; the random operator is checked for its support only (up to 64 seeds), not its probability law',
   technique='TLA+ spec Catalog + TLC full state graph, spec->code replay of configurations and operator sequences', ref='5 C16'),
 'C17': dict(
   text='Helpers.tla states the documented closed forms (piecewise variables/formula/function with open or closed ends, Box-Cox and its limit, uniform/triangular/normal/lognormal/logistic densities, regression log likelihood, segmentation, nested-logit correlation) as exact rationals or terms; TLC checks the identities between them on the model (sum of variables = clipped distance, formula = function, unit mass, correlation structure) and emits every case with its expected value; each is replayed into the real helper expressions/functions (incl. exec of segmented_code) and compared (1e-12 exact families, 1e-9 term families); Box-Cox continuity is a Lipschitz bound in the exponent across the switching point.',
   note='trusted: TLC, vb/terms.py + libm; "integrates to one" for normal/lognormal is the driver quadrature of the replayed expression (numeric clause)',
   technique='TLA+ spec Helpers + TLC case generation, spec->code replay of helper values', ref='5 C17'),
 'C20': dict(
   text='Aliases.tla models Python attribute resolution (C3 linearisation computed in the spec, own dictionaries, deprecation wrappers with captured or dynamic dispatch, keyword renaming) over constants extracted from the imported package (162 classes, 120 wrappers, 33 driver-made redefining subclasses); TLC checks for every receiver and every deprecated name visible on it that the alias reaches the function the advertised new name reaches, and the name-correspondence rule; every emitted (receiver, alias) pair is replayed with spies on the real classes, linearisations are compared with __mro__, keyword cases run through the real wrappers, and several hundred aliases are called with real arguments comparing results, receiver state, files and warnings.',
   note='trusted: TLC, Python introspection of the package; class-qualified calls (Base.old(obj)) are outside the model; 483-608 pairs are checked by spies only',
   technique='TLA+ spec Aliases over extracted constants + TLC, spec->code replay with spies and real-argument calls', ref='5 C20'),
 'C13': dict(
   text='Database.tla models the table as a sequence of labelled rows with columns, excluded count, panel column and individual map, one action per public operation (remove, add column / define variable, scale, panel, build map, split, sample, sample individuals, extract, flatten, count); TLC checks the row/value/fold/sample invariants over all operation histories on small tables with gap, permuted and duplicate index labels; every TLC-generated history is replayed on a real Database comparing values and labels after each step, and the recorded events (including the random outcomes of split and sampling) are judged by DatabaseTrace.tla as one of the outcomes the spec allows; long random histories come from TLC -simulate.',
   note='trusted: TLC; integer cells only; fold-size balance and the order of flat-table lines are not judged',
   technique='TLA+ spec Database + TLC histories, spec->code replay and code->spec trace validation (DatabaseTrace)', ref='5 C13'),
 'C15': dict(
   text='IterFile.tla models evaluations, the saver as open/write/close/rename steps on the iteration file and its temporary file, a Crash enabled in every state and Restart; TLC checks FileComplete, FileBest, RestartSucceeds, NeverBelowStart, UpToDate over all evaluation sequences (improving, worsening, ties, non-finite) and crash points, and reports the three other saver variants (in place / best frozen) as violating; the real calculate_likelihood_and_derivatives runs under strace and the system calls on the files, interleaved with the evaluations, are validated step by step by IterFileTrace.tla; the run is repeated with the process killed at the entry of every relevant system call (strace fault injection), the surviving files are observed and a real restart in a fresh process must succeed and start from the saved values, all judged by the trace specification.',
   note='trusted: TLC, strace fault injection (a killed run that does not follow the dry run is skipped and counted); process crash, not power loss; for the 340-parameter model the restart stops once the optimiser has received its starting point',
   technique='TLA+ spec IterFile + TLC crash-point exploration, code->spec trace validation of strace logs with kill injection (IterFileTrace)', ref='5 C15'),
 'C09': dict(
   text='PanelDraws.tla defines contiguity, the stable sort by individual, the individual map, the trajectory value as the product over exactly the rows of an individual and the Monte-Carlo mean of that product with the individual own r-th draw of each variable own series (draw table indexed by rank of the variable name), sample size = number of individuals; TLC checks MapSound/SortSound and enumerates every id sequence (unsorted, non-consecutive ids; contiguous or not) x draws x row formula; each behaviour is replayed into Database.panel/individualMap, BIOGEME.simulate, calculate_likelihood (scaled or not), get_value_c, with setPanel/setDataMap/sorted setData/setDraws at the engine boundary compared with the spec, and re-run on a permuted table.',
   note='trusted: TLC; deterministic user-defined generators; four row formulas (general formulas are C01); positive row values (the operator multiplies through exp(sum log))',
   technique='TLA+ spec PanelDraws + TLC enumeration of id sequences, spec->code replay incl. engine-boundary map and draw table', ref='5 C09'),
 'C10': dict(
   text='PanelDraws.tla (non-panel mode) defines the Monte-Carlo operator as the mean over draws with every named draw variable replaced by the observation r-th draw of its own series, the series produced by the generator registered for its type, the table indexed [observation][draw][rank of name]; Calculus.tla defines Derive (partial derivative with respect to a parameter or a variable) and Integrate (Gaussian moments) on polynomial families; TLC checks the model identities and emits every case with its exact expected value; replayed into BIOGEME.simulate, calculate_likelihood, get_value_c, with the draw table crossing the engine boundary compared entry by entry; reproducibility under a non-zero seed is checked with native types.',
   note='trusted: TLC; Integrate compared at 1e-6 (quadrature accuracy is the engine); integrand families are those of the spec',
   technique='TLA+ specs PanelDraws/Calculus + TLC case generation, spec->code replay incl. engine-boundary draw table', ref='5 C10'),
 'C07': dict(
   text='Estimation.tla states a concave separable model with bounds and fixed parameters, its constrained maximiser (clip of the mean), exact LL / gradient / Hessian / BHHH and the KKT conditions; TLC checks OptimumSound and LocallyBest for every bound configuration x start x fixed pattern x algorithm and emits the expected outcome; each behaviour is one real estimate() (all 9 algorithm names) checked for feasibility, monotonicity, agreement of the reported figures with the likelihood at the reported point, KKT, the maximum value, write-back of starting values by name; the dialogue between estimation object, minimised function and optimiser is recorded by wrappers and validated by EstimationTrace.tla (phase order, sign flip of the same point, determinism, requests inside bounds, final evaluation at the returned point, results = final evaluation).',
   note='trusted: TLC; bit-for-bit comparisons (negation, identity of vectors) are computed by the driver and judged by the trace spec; estimates compared at 5e-4, maximum value at 1e-6; concave models only',
   technique='TLA+ specs Estimation/EstimationTrace + TLC, spec->code replay of estimations and code->spec validation of the optimiser dialogue', ref='5 C07'),
 'C19': dict(
   text='Sampling.tla models alternatives with attributes, strata with sample sizes, an optional second (MEV) partition and the actions SampleStratum / Assemble / SecondSample; TLC checks the protocol (chosen first, no duplicates, exactly k per stratum all from the stratum, correction ln(k/n), weight n/k, combined variables from the individual and the alternative own attributes), that acceptance of a row is equivalent to membership in the behaviours, and that complete sampling gives the exact full-logit probability; rows produced by the real sample_and_merge (many partitions, sizes, choices, seeds, input variants) are judged by SamplingTrace.tla, which also returns the exact corrected logit weights compared with GenerateModel.get_logit; fully sampled instances with exact logit / nested / cross-nested likelihoods are replayed into get_logit, get_nested_logit, get_cross_nested_logit and the full-choice-set models; input validation reactions are judged by the spec.',
   note='trusted: TLC; the statistical law of the draw is not part of the property; partially sampled nested / cross-nested likelihoods have no exact reference',
   technique='TLA+ specs Sampling/SamplingTrace + TLC, code->spec validation of sampled rows and spec->code replay of complete sampling', ref='5 C19'),
}

def cmd(pid, tier):
    return f'/venv/bin/python -m checks.{pid.lower()} --tier {tier}'

checks = []
for pid, c in CHECKS.items():
    checks.append(dict(
        property_id=pid, quick_cmd=cmd(pid, 'quick'), thorough_cmd=cmd(pid, 'thorough'),
        evidence_file=f'/verif/evidence/{pid}.json', replay_cmd_template='/venv/bin/python -m vb.replay {path}', engine='tlc',
        level_claimed=dict(category=c.get('category', 'model_checking'), text=c['text'], design_ref=f"DESIGN.md section {c['ref']}"),
        level_note=c['note'], technique=c['technique']))

m = dict(
 version=1, setup_cmd='/venv/bin/python -m vb.setup',
 hooks=dict(guard='BIOGEME_VERIF',
            enable='no in-source hook is needed: the engine boundary is recorded by replacing the cythonbiogeme classes with forwarding proxies (vb/boundary.py); checks import biogeme from /repo/src as it stands',
            baseline_off_cmd='cd /repo && /venv/bin/python -m pytest -ra -q -p no:cacheprovider --timeout=900 --continue-on-collection-errors',
            source_commits=[], add_only=True),
 engines=[dict(name='tlc', path='/opt/veriftools/tla/tla2tools.jar', serves_properties=sorted(CHECKS),
               kind_free_text='TLC 1.8 on /verif/specs/*.tla; behaviours replayed into /repo/src by /verif/vb, recorded traces validated by *Trace.tla')],
 checks=checks,
 notes='Model-based verification with explicit TLA+ specifications; see DESIGN.md. VERIF_SEED selects the residue classes / samples explored; VERIF_TIER overrides --tier.',
 not_applicable=[dict(property_id=p['id'], reason='check not built yet (in progress)') for p in props if p['id'] not in CHECKS])
json.dump(m, open(os.path.join(V, 'MANIFEST.json'), 'w'), indent=1)
print('checks:', sorted(CHECKS), 'not applicable:', len(m['not_applicable']))
