"""Regenerates /verif/MANIFEST.json from the table below (run after adding a check)."""
import json
import os

V = os.path.dirname(os.path.dirname(os.path.abspath(__file__)))
props = [json.loads(l) for l in open(os.path.join(V, 'properties.jsonl'))]

CHECKS = {
 'C01': dict(
   text='TLC explores ExprLang (every operator kind, operands over all earlier nodes) exhaustively at one operator and modulo a seed-selected residue class at two/three operators, checking SigSound on the model; every emitted DAG with the exact value Val gives it is replayed into the real classes through get_value_c, get_value_and_derivatives (aggregated or not), the unshared tree, get_value and side-by-side BIOGEME.simulate; the signature/vectors/data recorded at the engine boundary are validated by ExprTrace.tla (post-order, indices by name, Denotes).',
   note='trusted: TLC, the term interpreter vb/terms.py + libm for exp/log/sin/cos/Phi/pow, the compiled engine as the thing observed; values compared at 1e-8 relative; bounded depth',
   technique='TLA+ spec ExprLang + TLC generation, spec->code replay, code->spec trace validation (ExprTrace)', ref='5 C01'),
 'C02': dict(
   text='ExprLang!Jet is second-order forward-mode differentiation by the calculus rules, built by TLC as terms with every discrete decision exact; TLC checks gradient support and Hessian symmetry on the model; every differentiable emitted DAG is replayed through get_value_and_derivatives (all flag combinations, per-observation and aggregated, named results), BIOGEME.calculate_likelihood_and_derivatives (scaled or not), create_function and create_objective_function, and the literal ids crossing the engine boundary are checked to be 0..K-1.',
   note='trusted: TLC, vb/terms.py arithmetic (fractions) and libm; derivative entries compared at 1e-8 of the largest expected entry; formulas the engine refuses to differentiate (BelongsTo, free parameter below a comparison) are outside the property',
   technique='TLA+ spec ExprLang (Jet) + TLC generation, spec->code replay at the engine boundary', ref='5 C02'),
 'C03': dict(
   text='IdManager.tla defines identification by name (tables are a function of the set of leaves, entry k belongs to the k-th name in Python string order, dictionaries override exactly the names they list, optimum attached to the role name); TLC checks order-irrelevance, sortedness, attachment and renaming invariance for every injective renaming into an order-tricky name pool x order of appearance x status x bounds x partial dictionary; every behaviour is replayed into BIOGEME.free_beta_names, get_bounds_on_beta, calculate_likelihood, simulate(dict), get_value_c(partial dict), change_init_values, fix_betas, the vectors and Beta lines crossing the engine boundary, estimate() on a sample; name clashes must raise BiogemeError.',
   note='trusted: TLC; exact rational likelihood of a separable concave quadratic model compared at 1e-12, estimates at 1e-4; dictionaries naming a fixed parameter are not used',
   technique='TLA+ spec IdManager + TLC enumeration of renamings/orders, spec->code replay incl. engine-boundary vectors', ref='5 C03'),
 'C04': dict(
   text='Aggregation.tla: TLC explores every split of the rows into contiguous blocks and every interleaving of the threads (the schedule quantifier) and the engine source partition rule for all N,T in a range: total = sum of weight x value, each row exactly once, termination; AggData.tla emits every permutation of every subset of a row pool with exact expected value/gradient/Hessian/BHHH aggregates (weighted or not, every prefix split); each is replayed into BIOGEME.calculate_likelihood, calculate_likelihood_and_derivatives (scaled or not) and simulate for thread counts 1..N+2 and 0, repeated for T>1, with the engine-boundary calls (thread count, weight signature, data rows) checked.',
   note='trusted: TLC; the engine internal schedule is not observable from Python (Dispatch is its contract); integer-valued polynomial likelihood compared at 1e-12',
   technique='TLA+ specs Aggregation/AggPartition/AggData + TLC schedule exploration, spec->code replay over thread counts', ref='5 C04'),
}

def cmd(pid, tier):
    return f'/venv/bin/python -m checks.{pid.lower()} --tier {tier}'

checks = []
for pid, c in CHECKS.items():
    checks.append(dict(
        property_id=pid, quick_cmd=cmd(pid, 'quick'), thorough_cmd=cmd(pid, 'thorough'),
        evidence_file=f'/verif/evidence/{pid}.json', replay_cmd_template='/venv/bin/python -m vb.replay {path}', engine='tlc',
        level_claimed=dict(category=c.get('category', 'model_checking'), text=c['text'], design_ref=f"DESIGN.md section {c['ref']}"),
        level_note=c['note'], technique=c['technique']))

m = dict(
 version=1, setup_cmd='/venv/bin/python -m vb.setup',
 hooks=dict(guard='BIOGEME_VERIF',
            enable='no in-source hook is needed: the engine boundary is recorded by replacing the cythonbiogeme classes with forwarding proxies (vb/boundary.py); checks import biogeme from /repo/src as it stands',
            baseline_off_cmd='cd /repo && /venv/bin/python -m pytest -ra -q -p no:cacheprovider --timeout=900 --continue-on-collection-errors',
            source_commits=[], add_only=True),
 engines=[dict(name='tlc', path='/opt/veriftools/tla/tla2tools.jar', serves_properties=sorted(CHECKS),
               kind_free_text='TLC 1.8 on /verif/specs/*.tla; behaviours replayed into /repo/src by /verif/vb, recorded traces validated by *Trace.tla')],
 checks=checks,
 notes='Model-based verification with explicit TLA+ specifications; see DESIGN.md. VERIF_SEED selects the residue classes / samples explored; VERIF_TIER overrides --tier.',
 not_applicable=[dict(property_id=p['id'], reason='check not built yet (in progress)') for p in props if p['id'] not in CHECKS])
json.dump(m, open(os.path.join(V, 'MANIFEST.json'), 'w'), indent=1)
print('checks:', sorted(CHECKS), 'not applicable:', len(m['not_applicable']))
