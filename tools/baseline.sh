#!/bin/sh
# Runs the repository's baseline (guard off: there is no guard) and compares with /root/.vp/BASELINE.json
out=${1:-/var/tmp/baseline}
cd /repo && /venv/bin/python -m pytest -ra -q -p no:cacheprovider --timeout=900 --continue-on-collection-errors --junitxml=$out.xml > $out.log 2>&1
/venv/bin/python - "$out" <<'PY'
import json, sys, xml.etree.ElementTree as ET
base = json.load(open('/root/.vp/BASELINE.json'))
t = ET.parse(sys.argv[1] + '.xml')
passed = set()
for tc in t.iter('testcase'):
    if not [c.tag for c in tc if c.tag in ('failure', 'error', 'skipped')]:
        passed.add(tc.get('classname') + '::' + tc.get('name'))
miss = [n for n in base['stable_pass'] if n not in passed]
print('passed', len(passed), 'baseline tests not passing:', miss)
sys.exit(1 if miss else 0)
PY
