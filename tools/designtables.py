"""Regenerates the tables of DESIGN.md section 12.3 (fix commits) and 12.4 (open findings) between markers."""
import glob
import json
import os
import re
import subprocess

V = os.path.dirname(os.path.dirname(os.path.abspath(__file__)))
subjects = dict(l.split(' ', 1) for l in subprocess.run(['git', '-C', '/repo', 'log', '--format=%h %s'], capture_output=True, text=True).stdout.strip().splitlines())
fixed, opened = [], []
for f in [os.path.join(V, 'known_findings.json')] + sorted(glob.glob(os.path.join(V, 'known_findings.d', '*.json'))):
    for x in json.load(open(f)).get('findings', []):
        if x.get('status') == 'fixed':
            fixed.append((x['property'], x.get('commit', ''), subjects.get(x.get('commit', ''), '?').replace('fix: ', ''), x['id']))
        elif x.get('status', 'open') == 'open':
            opened.append((x['property'], x['id'], x['what'].replace('\n', ' ').replace('|', '/')))
seen = set()
rows = []
for p, c, s, i in sorted(fixed):
    if (p, c) in seen:
        continue
    seen.add((p, c))
    rows.append(f'| {p} | `{c}` | {s} |')
t1 = '| property | commit | subject of the `fix:` commit |\n|---|---|---|\n' + '\n'.join(rows) + f'\n\n{len(rows)} repairs.'
t2 = '| property | id | what fails |\n|---|---|---|\n' + '\n'.join(f'| {p} | {i} | {w[:420]} |' for p, i, w in sorted(opened))
path = os.path.join(V, 'DESIGN.md')
s = open(path).read()
for name, text in (('FIXTABLE', t1), ('OPENTABLE', t2)):
    s = re.sub(rf'<!-- {name} -->.*?<!-- /{name} -->', f'<!-- {name} -->\n{text}\n<!-- /{name} -->', s, flags=re.S)
open(path, 'w').write(s)
print(len(rows), 'fixes,', len(opened), 'open findings')
