#!/bin/sh
# specifications beyond the listed properties: not registered in MANIFEST.json; evidence in extra/evidence
cd "$(dirname "$0")/.." || exit 2
rc=0
for m in lifecycle assisted optim dbobservers; do
  /venv/bin/python -m extra.$m --tier "${VERIF_TIER:-quick}" || rc=$?
done
exit $rc
