import sys, os, logging, warnings
sys.path.insert(0, '/repo/src'); warnings.simplefilter('ignore'); logging.disable(logging.CRITICAL)
import pandas as pd
import biogeme.biogeme as bio, biogeme.database as db, biogeme.expressions as ex
from biogeme.catalog import Catalog
from biogeme.expressions import NamedExpression
from biogeme.specification import Specification
from biogeme.assisted import AssistedSpecification, ParetoPostProcessing
from biogeme.configuration import Configuration
from biogeme.multiobjectives import loglikelihood_dimension
from biogeme.parameters import Parameters
from biogeme.validity import Validity
from biogeme.tools.unique_ids import generate_unique_ids
X = [-2, -1, 0, 1, 2]
frame = pd.DataFrame({'p1': [float(x) for x in X], 'p2': [float(x * x - 2) for x in X], 'y': [1., 0, 2, 3, 7], 'z': [2., 1, 0, 3, 3]})
b0, b1, b2, c0, c1 = (ex.Beta(n, 0, None, None, 0) for n in ('b0', 'b1', 'b2', 'c0', 'c1'))
p1, p2, y, z = (ex.Variable(n) for n in ('p1', 'p2', 'y', 'z'))
A = Catalog('A', [NamedExpression('a0', b0), NamedExpression('a1', b0 + b1 * p1), NamedExpression('a2', b0 + b1 * p1 + b2 * p2)])
B = Catalog('B', [NamedExpression('k0', c0), NamedExpression('k1', c0 + c1 * p1)])
ll = -((y - A) * (y - A)) - ((z - B) * (z - B))
bobj = bio.BIOGEME(db.Database('d', frame), ll); bobj.modelName = 'cat'
# parameter file asking for at most 3 parameters
pa = Parameters(); pa.read_file('biogeme.toml'); pa.set_value(name='maximum_number_parameters', value=3, section='AssistedSpecification'); pa.dump_file('assisted.toml')
def no_b2(results):
    ok = 'b2' not in results.data.betaNames
    return Validity(ok, '' if ok else 'no b2 please')
a = AssistedSpecification(bobj, loglikelihood_dimension, 'p.pareto', validity=no_b2, parameter_file='assisted.toml')
print('F6', generate_unique_ids(['a', 'a', 'a_0']))
ll.reset_expression_selection(); print('start', ll.current_configuration())
s = Specification(Configuration.from_string('A:a1;B:k1'))
ll.reset_expression_selection(); print('F1 after reset_expression_selection:', ll.current_configuration(), ' default_specification():', Specification.default_specification())
print('F4 limit read from the parameter file:', a.biogeme_parameters.get_value(name='maximum_number_parameters', section='AssistedSpecification'), ' limit of a Specification:', s.maximum_number_parameters)
print('F3 model name of the results:', s.get_results().data.modelName, Specification(Configuration.from_string('A:a0;B:k1')).get_results().data.modelName)
three = Parameters(); three.read_file('assisted.toml')
print('F2', Specification(Configuration.from_string('A:a2;B:k1'), three).validity, Specification(Configuration.from_string('A:a2;B:k1'), three).validity)
print('D4', Specification(Configuration.from_string('A:a1;B:k1'), three).validity, '(4 parameters, limit 3)')
Specification.all_results = {}
res = a.run()
print('F5 run() returns', {k: (v.data.nparam, no_b2(v).status) for k, v in res.items()})
# F7: recycle
r1 = bobj.estimate_catalog(selected_configurations={Configuration.from_string('A:a0;B:k1')})
pp = ParetoPostProcessing(bobj, 'p.pareto')
r2 = pp.reestimate(recycle=True)
print('F7', {k: (v.data.modelName, sorted(v.get_beta_values())) for k, v in r2.items()})
