"""C14, parameter file: the table of parameters handed to specs/Parameters.tla (extracted from
biogeme.default_parameters), and the replay of the emitted Set / Dump / Read / edit histories on the
real biogeme.parameters.Parameters in a scratch directory.

Values travel as opaque tokens: 'b:True', 'i:100', 'f:1e-05', 's:automatic', 's:@quote' (alias of a
string that is awkward inside a TLA+ literal).  The file is inspected with tomllib (the standard
library's parser, not the tomlkit the library writes with) and hand-edited with a 20-line writer.
"""

from __future__ import annotations

import json
import math
import os
import shutil
import tempfile
import tomllib

ALIAS = {
    's:@empty': '',
    's:@quote': 'a"b\\c',
    's:@accent': 'café — ü',
    's:@newline': 'line1\nline2',
    's:@hash': '# not a comment',
    's:@spaces': '  padded  ',
}
UNALIAS = {v: k for k, v in ALIAS.items()}


# ------------------------------------------------------------------ tokens
def tok(v) -> str:
    if isinstance(v, bool):
        return f'b:{v}'
    if isinstance(v, int):
        return f'i:{int(v)}'
    if isinstance(v, float):
        return f'f:{float(v)!r}'
    if isinstance(v, str):
        return UNALIAS.get(v, f's:{v}')
    raise TypeError(f'no token for {v!r}')


def untok(t: str):
    if t in ALIAS:
        return ALIAS[t]
    k, body = t[0], t[2:]
    if k == 'b':
        return body == 'True'
    if k == 'i':
        return int(body)
    if k == 'f':
        return float(body)
    return body


def same(value, token: str) -> bool:
    """the real value IS the value the token names: same class (bool / int / float / str), equal"""
    want = untok(token)
    if isinstance(want, bool) or isinstance(value, bool):
        return isinstance(want, bool) and isinstance(value, bool) and value == want
    for cls in (int, float, str):
        if isinstance(want, cls):
            return isinstance(value, cls) and not isinstance(value, bool) and value == want
    return False


# ------------------------------------------------------------------ the documented conditions (own predicates)
def _num(x):
    return isinstance(x, (int, float)) and not isinstance(x, bool)


CONDITIONS = {
    'is_number': _num,
    'is_integer': lambda x: isinstance(x, int) and not isinstance(x, bool),
    'is_positive': lambda x: _num(x) and x > 0,
    'is_non_negative': lambda x: _num(x) and x >= 0,
    'zero_one': lambda x: _num(x) and 0 <= x <= 1,
    'is_boolean': lambda x: isinstance(x, bool),
}

INTS = [0, 1, 7, 100, 99999, 100000, 2**31 - 1, 10**12, -1, -99999]
FLOATS = [0.0, 1e-05, 0.5, 1.0, 0.1 + 0.2, 6.06273418136464e-06, 0.0001220703125, 1e22, 1.5, -0.1, 1e-300,
          123456.789, 99999.5, -999.25, 2.5, 7.0, 100000.0, -3.0, 9007199254740992.0,
          5e-324, 1.7976931348623157e308, math.inf]
# The admissible values of a parameter are the values ITS CONDITIONS accept, whatever the Python type of its
# default: a parameter declared int whose only condition is "a number" (missing_data) admits 99999.5 and 7.0, a
# parameter declared float admits 7.  What the quick tier keeps of each class (in this order of preference):
NON_INTEGERS = [99999.5, 2.5, 1.5, 0.5]  # a non-integer number, preferably with an integer part
WHOLE_FLOATS = [7.0, 100000.0, 1.0, 0.0]  # an integer given as a float
STRINGS_FREE = ['3.2.14', '', 'a"b\\c', 'café — ü', 'line1\nline2', '# not a comment', '  padded  ']
SPELL_TRUE = ['s:True', 's:true', 's:Yes', 's:yes']
SPELL_FALSE = ['s:False', 's:false', 's:No', 's:no']
BAD_BOOL_FILE = ['s:maybe', 's:TRUE', 'b:True', 'i:1']


def table(tier: str) -> list[dict]:
    """one row per parameter: key, kind, def, adm, ref, fok, fbad (token lists)"""
    from biogeme.default_parameters import all_parameters_tuple
    import biogeme.optimization as opt

    quick = tier == 'quick'
    algos = ['automatic'] + list(opt.algorithms.keys())
    rows = []
    for p in all_parameters_tuple():
        conds = [c.__name__ for c in (p.check or ())]
        kind = {bool: 'bool', int: 'int', float: 'float', str: 'str'}[p.type]
        default = tok(p.value if not hasattr(p.value, 'item') else p.value.item())
        unknown = [c for c in conds if c not in CONDITIONS and c != 'check_algo_name']
        if unknown:
            raise RuntimeError(f'{p.name}: condition {unknown} has no documented counterpart in the driver')
        if kind == 'bool':
            adm = [True, False]
            ref = ['True', 1, 0, 'yes']
        elif 'check_algo_name' in conds:
            adm = list(algos)
            ref = ['nonexistent', 'Automatic', '', 3]
        elif kind == 'str':
            adm = list(STRINGS_FREE)
            ref = []
        else:
            pool = INTS + FLOATS
            ok = lambda x: all(CONDITIONS[c](x) for c in conds)  # noqa: E731
            adm = [x for x in pool if ok(x)]
            ref = [x for x in pool if not ok(x)] + ['abc']
            if quick:
                dflt = p.value if not hasattr(p.value, 'item') else p.value.item()
                keep_a = ([x for x in adm if isinstance(x, int) and tok(x) != default][:1]
                          + [x for x in NON_INTEGERS if _has(adm, x)][:1]
                          + [x for x in WHOLE_FLOATS if _has(adm, x) and not (x == dflt and isinstance(dflt, float))][:1]
                          + [x for x in adm if isinstance(x, float)][-1:])
                adm = keep_a or adm[:2]
                # (an integer given as a float, where the conditions demand an integer)
                ref = ref[:1] + ([x for x in WHOLE_FLOATS if _has(ref, x)][:1] if kind == 'int' else []) + ['abc']
        adm_t = _uniq([default] + [tok(x) for x in adm]) if _admits_default(p, conds) else _uniq([tok(x) for x in adm])
        ref_t = [t for t in _uniq([tok(x) for x in ref]) if t not in adm_t]
        if kind == 'bool':
            fok, fbad = SPELL_TRUE + SPELL_FALSE, list(BAD_BOOL_FILE)
        else:
            fok, fbad = list(adm_t), list(ref_t)
        if quick:
            if kind == 'bool':
                fok, fbad = ['s:True', 's:yes', 's:False', 's:No'], ['s:maybe', 'b:True']
            elif 'check_algo_name' in conds:
                adm_t, ref_t = adm_t[:3], ref_t[:2]
                fok, fbad = list(adm_t), list(ref_t)
            elif kind == 'str':
                adm_t = adm_t[:4]
                fok = list(adm_t)
        rows.append(dict(key=f'{p.section}/{p.name}', kind=kind, **{'def': default}, adm=adm_t, ref=ref_t, fok=fok, fbad=fbad,
                         conditions=conds))
    return rows


def _has(xs, x) -> bool:
    """x is in xs as a value of the same class (7.0 is not 7)"""
    return any(type(y) is type(x) and y == x for y in xs)


def _admits_default(p, conds) -> bool:
    return True


def _uniq(xs):
    out = []
    for x in xs:
        if x not in out:
            out.append(x)
    return out


def _set(xs) -> str:
    return '{' + ', '.join(json.dumps(x) for x in xs) + '}'


def module(rows: list[dict], focus_choices: list[list[str]]) -> str:
    recs = ',\n  '.join(
        f'[key |-> {json.dumps(r["key"])}, kind |-> {json.dumps(r["kind"])}, def |-> {json.dumps(r["def"])}, '
        f'adm |-> {_set(r["adm"])}, ref |-> {_set(r["ref"])}, fok |-> {_set(r["fok"])}, fbad |-> {_set(r["fbad"])}]'
        for r in rows)
    return f'''---- MODULE ParamGen ----
EXTENDS Parameters
P_Table == <<
  {recs}
>>
P_Focus == {{{', '.join(_set(f) for f in focus_choices)}}}
====
'''


MODEL_INVARIANTS = ['TypeOK', 'RoundTrip', 'Spellings']
MODEL_PROPERTIES = ['ReadOwnDump', 'RefusedKeeps']


def cfg(max_ops: int, invariants, properties=(), mutant='none', view=True) -> str:
    inv = '\n'.join(f'INVARIANT {i}' for i in invariants)
    prop = '\n'.join(f'PROPERTY {p}' for p in properties)
    return f'''SPECIFICATION Spec
CONSTANTS
 Table <- P_Table
 FocusChoices <- P_Focus
 MaxOps = {max_ops}
 Mutant = "{mutant}"
{'VIEW EdgeView' if view else ''}
{inv}
{prop}
'''


# ------------------------------------------------------------------ a minimal TOML writer for hand-edited files
def _lit(v) -> str:
    if isinstance(v, bool):
        return 'true' if v else 'false'
    if isinstance(v, int):
        return repr(v)
    if isinstance(v, float):
        if math.isinf(v):
            return 'inf' if v > 0 else '-inf'
        r = repr(v)
        return r if ('.' in r or 'e' in r or 'n' in r) else r + '.0'
    return json.dumps(v, ensure_ascii=False)


def write_toml(path: str, doc: dict):
    with open(path, 'w', encoding='utf-8') as f:
        f.write('# edited by hand\n')
        for section, entries in doc.items():
            f.write(f'\n[{section}]\n')
            for name, v in entries.items():
                f.write(f'{name} = {_lit(v)}\n')


def file_value(ft: str):
    """file token -> the TOML value a user would write"""
    return untok(ft)


ALIEN = {('Estimation', 'not_a_parameter'): 5, ('Nowhere', 'anything'): 'x', ('Estimation', 'second_derivatives'): 0.25}


# ------------------------------------------------------------------ replay
def _get_all(p):
    return {f'{k.section}/{k.name}': t.value for k, t in p.all_parameters_dict.items()}


def replay(item: dict) -> dict:
    """item: dict(hist=emitted record, rows=table rows, fname=.., tamper=None|'flip_bool'|'truncate')
    -> dict(n=.., mismatches=[...], sample=..)"""
    from biogeme.parameters import Parameters
    import biogeme.exceptions as excep

    hist, rows = item['hist'], item['rows']
    fname = item.get('fname', 'biogeme.toml')
    by_key = {r['key']: r for r in rows}
    mism = []
    n = 0
    old = os.getcwd()
    work = tempfile.mkdtemp(prefix='c14-par-', dir=old)
    os.chdir(work)
    try:
        p = Parameters()
        if hist.get('prewrite'):
            # a complete file with the default values, written by the driver (negative control only)
            doc = {}
            for r in rows:
                section, name = r['key'].split('/')
                v = untok(r['def'])
                doc.setdefault(section, {})[name] = ('True' if v else 'False') if isinstance(v, bool) else v
            for key, t in (hist.get('preset') or {}).items():
                section, name = key.split('/')
                v = untok(t)
                doc[section][name] = int(v) if item.get('tamper') == 'truncate' else v   # (negative control: the integer part only)
            if item.get('tamper') == 'flip_bool':
                doc['Output']['generate_html'] = 'False'
            write_toml(fname, doc)
        for j, st in enumerate(hist['steps']):
            k = st['k']
            ctx = dict(step=j + 1, op=[k, st['p'], st['v']], history=[[s['k'], s['p'], s['v']] for s in hist['steps'][:j + 1]])
            n += 1
            try:
                if k == 'set':
                    section, name = st['p'].split('/')
                    before = _get_all(p)
                    try:
                        p.set_value(name, untok(st['v']), section=section)
                        got = 'ok'
                    except excep.BiogemeError:
                        got = 'refused'
                        if _get_all(p) != before:
                            mism.append(dict(key='parameters:set:refused value changes the set', **ctx))
                    if got != st['outcome']:
                        mism.append(dict(key=f"parameters:set:{'accepts a value it must refuse' if got == 'ok' else 'refuses an admissible value'}",
                                         parameter=st['p'], value=st['v'], conditions=by_key[st['p']]['conditions'], **ctx))
                        break
                elif k == 'dump':
                    p.dump_file(fname)
                elif k == 'read':
                    existed = os.path.exists(fname)
                    try:
                        p.read_file(fname)
                        got = 'ok' if existed else 'created'
                    except excep.BiogemeError:
                        got = 'refused'
                    if got != st['outcome']:
                        mism.append(dict(key=f'parameters:read:{got} instead of {st["outcome"]}', **ctx))
                        break
                elif k in ('edit', 'drop', 'alien'):
                    with open(fname, 'rb') as f:
                        doc = tomllib.load(f)
                    if k == 'alien':
                        for (s, nme), v in ALIEN.items():
                            doc.setdefault(s, {})[nme] = v
                    else:
                        section, name = st['p'].split('/')
                        if k == 'edit':
                            doc.setdefault(section, {})[name] = file_value(st['v'])
                        else:
                            doc.get(section, {}).pop(name, None)
                    if item.get('tamper') == 'edit_ignored':
                        pass  # negative control: the edit is silently not made
                    else:
                        write_toml(fname, doc)
                elif k == 'delete':
                    os.remove(fname)
                elif k == 'new':
                    p = Parameters()
                else:
                    raise RuntimeError(f'unknown step {k}')
            except Exception as e:  # noqa
                mism.append(dict(key=f'parameters:{k}:raises {type(e).__name__}', message=str(e)[:200], **ctx))
                break
            if item.get('tamper') == 'flip_bool' and k == 'dump' and j + 1 < len(hist['steps']):
                # negative control: somebody flips one boolean in the dumped file; the specification is not told
                with open(fname, 'rb') as f:
                    doc = tomllib.load(f)
                doc['Output']['generate_html'] = 'False' if doc['Output']['generate_html'] == 'True' else 'True'
                write_toml(fname, doc)
        if not mism:
            # the real object and the real file against the specification's state after the last step
            focus = dict(hist['obj'])
            if not hist['failed']:
                got = _get_all(p)
                for r in rows:
                    want = focus.get(r['key'], r['def'])
                    n += 1
                    if r['key'] not in got:
                        mism.append(dict(key='parameters:object:parameter missing', parameter=r['key']))
                    elif not same(got[r['key']], want):
                        mism.append(dict(key='parameters:object:value differs', parameter=r['key'], got=repr(got[r['key']]), want=want,
                                         history=[[s['k'], s['p'], s['v']] for s in hist['steps']]))
            fexp = hist['file']
            n += 1
            if os.path.exists(fname) != fexp['ex']:
                mism.append(dict(key='parameters:file:existence', got=os.path.exists(fname), want=fexp['ex'],
                                 history=[[s['k'], s['p'], s['v']] for s in hist['steps']]))
            elif fexp['ex']:
                with open(fname, 'rb') as f:
                    doc = tomllib.load(f)
                ffocus = dict(fexp['focus'])
                for r in rows:
                    section, name = r['key'].split('/')
                    if r['key'] in ffocus:
                        want = ffocus[r['key']]
                    else:
                        want = r['def']
                        if r['kind'] == 'bool':
                            want = 's:True' if want == 'b:True' else 's:False'
                    n += 1
                    present = name in doc.get(section, {})
                    if want == '-':
                        if present:
                            mism.append(dict(key='parameters:file:dropped entry present', parameter=r['key']))
                    elif not present:
                        mism.append(dict(key='parameters:file:entry missing', parameter=r['key'],
                                         history=[[s['k'], s['p'], s['v']] for s in hist['steps']]))
                    elif not same(doc[section][name], want):
                        mism.append(dict(key='parameters:file:entry differs', parameter=r['key'], got=repr(doc[section][name]), want=want,
                                         history=[[s['k'], s['p'], s['v']] for s in hist['steps']]))
                n += 1
                has_alien = all(doc.get(s, {}).get(nme) == v for (s, nme), v in ALIEN.items())
                if has_alien != fexp['alien']:
                    mism.append(dict(key='parameters:file:foreign entries', got=has_alien, want=fexp['alien']))
        return dict(n=n, mismatches=mism)
    finally:
        os.chdir(old)
        shutil.rmtree(work, ignore_errors=True)
