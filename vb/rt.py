"""Run-time environment for drivers that call the real biogeme from /repo/src."""

from __future__ import annotations

import contextlib
import os
import pickle
import shutil
import signal
import sys
import tempfile
import traceback
import warnings

from .tlc import MachineryError

REPO = os.environ.get('VERIF_REPO', '/repo')
_scratch = None


def setup(seed: int = 0) -> str:
    """Enter a private scratch directory holding a copy of /repo/biogeme.toml, make sure the
    biogeme that gets imported is the working tree's, silence its logging."""
    global _scratch
    src = os.path.join(REPO, 'src')
    if src not in sys.path:
        sys.path.insert(0, src)
    base = os.environ.get('VERIF_SCRATCH', '/var/tmp')
    os.makedirs(base, exist_ok=True)
    _scratch = tempfile.mkdtemp(prefix='vb-run-', dir=base)
    shutil.copy(os.path.join(REPO, 'biogeme.toml'), os.path.join(_scratch, 'biogeme.toml'))
    os.chdir(_scratch)
    import atexit

    atexit.register(cleanup)
    warnings.simplefilter('ignore')
    import logging

    logging.disable(logging.CRITICAL)
    import numpy as np
    import random

    np.random.seed(seed % (2**32))
    random.seed(seed)
    import biogeme

    # import the heavy modules once in the parent: forked children then start in milliseconds
    import pandas  # noqa
    import biogeme.biogeme  # noqa
    import biogeme.database  # noqa
    import biogeme.expressions  # noqa
    import biogeme.catalog  # noqa
    import biogeme.models  # noqa
    import biogeme.results  # noqa

    here = os.path.realpath(os.path.dirname(biogeme.__file__))
    if not here.startswith(os.path.realpath(src)):
        raise MachineryError(f'biogeme imported from {here}, not from {src}')
    return _scratch


def cleanup():
    global _scratch
    if _scratch and os.path.isdir(_scratch):
        pid_dir = _scratch
        _scratch = None
        try:
            os.chdir('/')
        except OSError:
            pass
        shutil.rmtree(pid_dir, ignore_errors=True)


def forked(fn, *args, timeout: float = 60.0, **kwargs):
    """Run fn(*args) in a forked child; return ('ok', value) | ('exc', (type name, mro names, message))
    | ('died', signal/exit code).  Needed because the engine keeps a sticky error state."""
    r, w = os.pipe()
    pid = os.fork()
    if pid == 0:  # child
        os.close(r)
        try:
            try:
                val = fn(*args, **kwargs)
                payload = ('ok', val)
            except BaseException as e:  # noqa
                payload = (
                    'exc',
                    (type(e).__name__, [c.__name__ for c in type(e).__mro__], str(e)[:500]),
                )
            try:
                data = pickle.dumps(payload)
            except Exception as e:  # unpicklable value
                data = pickle.dumps(('ok', repr(payload[1])[:500]))
            with os.fdopen(w, 'wb') as f:
                f.write(data)
        finally:
            os._exit(0)
    os.close(w)

    def _alarm(signum, frame):
        raise TimeoutError

    old = signal.signal(signal.SIGALRM, _alarm)
    signal.setitimer(signal.ITIMER_REAL, timeout)
    try:
        with os.fdopen(r, 'rb') as f:
            data = f.read()
        _, status = os.waitpid(pid, 0)
    except TimeoutError:
        os.kill(pid, signal.SIGKILL)
        os.waitpid(pid, 0)
        return ('died', 'timeout')
    finally:
        signal.setitimer(signal.ITIMER_REAL, 0)
        signal.signal(signal.SIGALRM, old)
    if not data:
        return ('died', status)
    return pickle.loads(data)


@contextlib.contextmanager
def quiet():
    with warnings.catch_warnings():
        warnings.simplefilter('ignore')
        yield


def close(a: float, b: float, rel: float = 1e-9, abs_: float = 0.0) -> bool:
    if a == b:
        return True
    try:
        a = float(a)
        b = float(b)
    except (TypeError, ValueError):
        return False
    if a != a or b != b:
        return False
    if a in (float('inf'), float('-inf')) or b in (float('inf'), float('-inf')):
        return False          # equal infinities were accepted above; anything else is a difference
    return abs(a - b) <= max(abs_, rel * max(1.0, abs(a), abs(b)))
