"""Interpretation of the specification's values (module Term) by the driver.

A value arrives as JSON: a rational `[n, d]` (or {"k":"q","n":..,"d":..}) or an application
`{"f": name, "a": [args]}`.  Rational-only terms are evaluated exactly with Fractions;
primitives are interpreted with `math` (this file + libm is the trusted numeric base).
"""

from __future__ import annotations

import math
from fractions import Fraction

SQRT2PI = math.sqrt(2.0 * math.pi)


def phi(x: float) -> float:
    return 0.5 * math.erfc(-x / math.sqrt(2.0))


def npdf(x: float) -> float:
    return math.exp(-0.5 * x * x) / SQRT2PI


class Undefined(Exception):
    pass


def ev(t):
    """-> Fraction (exact) or float."""
    if isinstance(t, list):
        return Fraction(t[0], t[1])
    if t.get('k') == 'q':
        return Fraction(t['n'], t['d'])
    f = t['f']
    a = [ev(x) for x in t['a']]
    try:
        if f == 'add':
            return a[0] + a[1]
        if f == 'sub':
            return a[0] - a[1]
        if f == 'mul':
            return a[0] * a[1]
        if f == 'div':
            return a[0] / a[1]
        if f == 'neg':
            return -a[0]
        if f == 'pow':
            base, e = a
            if isinstance(e, Fraction) and e.denominator == 1 and isinstance(base, Fraction) and abs(e) <= 64:
                if e < 0 and base == 0:
                    raise Undefined('0**negative')
                return base ** int(e)
            return float(base) ** float(e)
        if f == 'min':
            return min(a)
        if f == 'max':
            return max(a)
        x = float(a[0])
        if f == 'exp':
            return math.exp(x)
        if f == 'log':
            return math.log(x)
        if f == 'sin':
            return math.sin(x)
        if f == 'cos':
            return math.cos(x)
        if f == 'phi':
            return phi(x)
        if f == 'npdf':
            return npdf(x)
        if f == 'sqrt':
            return math.sqrt(x)
        if f == 'expm1':
            return math.expm1(x)
        if f == 'log1p':
            return math.log1p(x)
        if f == 'sqrt2pi':
            return SQRT2PI
    except (ZeroDivisionError, ValueError, OverflowError) as e:
        raise Undefined(str(e))
    raise KeyError(f'unknown primitive {f}')


def evf(t) -> float:
    return float(ev(t))


def is_exact(t) -> bool:
    if isinstance(t, list):
        return True
    if t.get('k') == 'q':
        return True
    if t['f'] in ('add', 'sub', 'mul', 'div', 'neg'):
        return all(is_exact(x) for x in t['a'])
    return False


def show(t) -> str:
    if isinstance(t, list):
        return str(Fraction(t[0], t[1]))
    if t.get('k') == 'q':
        return str(Fraction(t['n'], t['d']))
    return f"{t['f']}({', '.join(show(x) for x in t['a'])})"
