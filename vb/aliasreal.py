"""C20: calls of old and new names on REAL objects with REAL arguments.

A case names a receiver space and an alias that TLC emitted; the new name and the space on which
it is looked up come from that emitted record.  The receiver and the arguments are built twice by
the same factory (fresh objects, same random seed, separate empty working directories); the old
name is called on the first set, the new name on the second; the digests of result, receiver state
afterwards, argument state afterwards, files written and warnings are compared.
"""

from __future__ import annotations

import json
import os
import re
import shutil
import tempfile
import warnings

import numpy as np
import pandas as pd

# ------------------------------------------------------------------------------------------------
# digests
# ------------------------------------------------------------------------------------------------

_TIME = re.compile(r'\d{4}-\d{2}-\d{2} \d{2}:\d{2}:\d{2}(\.\d+)?|\d+:\d{2}:\d{2}\.\d+')


def digest(x, depth: int = 0, seen: set | None = None):
    from biogeme.expressions import Expression

    seen = seen if seen is not None else set()
    if x is None or isinstance(x, (bool, int)):
        return x
    if isinstance(x, float):
        return repr(x)
    if isinstance(x, str):
        return _TIME.sub('<time>', x)
    if isinstance(x, bytes):
        return 'b:' + x.decode('latin1')
    if isinstance(x, np.generic):
        return digest(x.item(), depth, seen)
    if isinstance(x, np.ndarray):
        return ['nd', list(x.shape), str(x.dtype), [digest(v, depth + 1, seen) for v in x.ravel().tolist()] if x.size <= 400 else hash(x.tobytes())]
    if isinstance(x, pd.DataFrame):
        return ['df', [str(c) for c in x.columns], [digest(i) for i in x.index.tolist()],
                [[digest(v) for v in row] for row in x.to_numpy(dtype=object).tolist()]]
    if isinstance(x, pd.Series):
        return ['series', str(x.name), [digest(i) for i in x.index.tolist()], [digest(v) for v in x.tolist()]]
    if isinstance(x, BaseException):
        # messages of the C++ engine name a data entry that depends on thread scheduling
        return ['raised', type(x).__name__, '' if isinstance(x, RuntimeError) else _TIME.sub('<time>', str(x))[:300]]
    if id(x) in seen or depth > 6:
        return ['ref', type(x).__name__]
    if isinstance(x, dict):
        seen = seen | {id(x)}
        return ['dict', sorted(([digest(k, depth + 1, seen), digest(v, depth + 1, seen)] for k, v in x.items()), key=lambda p: json.dumps(p[0], sort_keys=True, default=str))]
    if isinstance(x, (list, tuple)):
        seen = seen | {id(x)}
        return [type(x).__name__ if type(x) in (list, tuple) else 'tuple:' + type(x).__name__] + [digest(v, depth + 1, seen) for v in x]
    if isinstance(x, (set, frozenset)):
        return ['set'] + sorted((digest(v, depth + 1, seen) for v in x), key=lambda p: json.dumps(p, sort_keys=True, default=str))
    if isinstance(x, Expression):
        seen = seen | {id(x)}
        st = {k: digest(v, depth + 1, seen) for k, v in sorted(vars(x).items()) if k not in ('children',)}
        return ['expr', type(x).__name__, str(x), st]
    if callable(x) and not hasattr(x, '__dict__'):
        return ['callable', getattr(x, '__qualname__', type(x).__name__)]
    if hasattr(x, '__dict__') and type(x).__module__.split('.')[0] in ('biogeme', 'vb'):
        seen = seen | {id(x)}
        return ['obj', type(x).__name__, {k: digest(v, depth + 1, seen) for k, v in sorted(vars(x).items())}]
    if callable(x):
        return ['callable', getattr(x, '__qualname__', type(x).__name__)]
    return ['opaque', type(x).__name__]


def canon(d) -> str:
    """JSON text of a digest with object identities (id() values inside signatures) renumbered in
    order of first appearance."""
    s = json.dumps(d, sort_keys=True, default=str)
    table: dict[str, str] = {}

    def ren(m):
        return table.setdefault(m.group(0), f'#id{len(table)}')

    return re.sub(r'(?<![\d.])\d{11,}(?![\d.])', ren, s)


# ------------------------------------------------------------------------------------------------
# fixtures
# ------------------------------------------------------------------------------------------------


def frame():
    return pd.DataFrame(
        {
            'Person': [1, 1, 1, 2, 2],
            'Exclude': [0, 0, 1, 0, 1],
            'Variable1': [1, 2, 3, 4, 5],
            'Variable2': [10, 20, 30, 40, 50],
            'Choice': [1, 2, 3, 1, 2],
            'Av1': [0, 1, 1, 1, 1],
            'Av2': [1, 1, 1, 1, 1],
            'Av3': [0, 1, 1, 1, 1],
        }
    )


def database(panel: bool = False):
    import biogeme.database as db

    d = db.Database('test', frame())
    if panel:
        d.panel('Person')
    return d


def formulas():
    from biogeme.expressions import Beta, Variable, exp

    v1, v2 = Variable('Variable1'), Variable('Variable2')
    b1 = Beta('beta1', -1.0, -3, 3, 0)
    b2 = Beta('beta2', 2.0, -3, 10, 0)
    like = -(b1**2) * v1 - exp(b2 * b1) * v2 - b2**4
    return {'log_like': like, 'beta1': b1, 'simul': b1 / v1 + b2 / v2}


def biogeme_object():
    import biogeme.biogeme as bio

    b = bio.BIOGEME(database(), formulas())
    b.generate_html = False
    b.generate_pickle = False
    b.save_iterations = False
    b.modelName = 'c20model'
    return b


_RESULTS_PICKLE = None


def prepare_results_pickle(directory: str) -> str:
    """One estimation, pickled; every results case loads it again (fresh object each time)."""
    global _RESULTS_PICKLE
    here = os.getcwd()
    os.chdir(directory)
    try:
        b = biogeme_object()
        b.generate_pickle = True
        b.bootstrap_samples = 10
        np.random.seed(7)
        b.estimate(run_bootstrap=True)
        files = [f for f in os.listdir(directory) if f.endswith('.pickle')]
        _RESULTS_PICKLE = os.path.join(directory, files[0])
    finally:
        os.chdir(here)
    return _RESULTS_PICKLE


def results_object():
    import biogeme.results as res

    return res.bioResults(pickle_file=_RESULTS_PICKLE)


def expression_zoo() -> dict:
    """class name -> builder of a small instance of exactly that class."""
    import biogeme.expressions as ex
    from biogeme.expressions import (Beta, Variable, Numeric, bioDraws, RandomVariable, Elem, bioMultSum, LogLogit,
                                     ConditionalSum, ConditionalTermTuple, bioLinearUtility, LinearTermTuple, MonteCarlo,
                                     bioNormalCdf, PanelLikelihoodTrajectory, Derive, Integrate, BelongsTo, bioMin, bioMax,
                                     exp, log, logzero, sin, cos)
    from biogeme.expressions.unary_expressions import PowerConstant
    from biogeme.expressions.logit_expressions import _bioLogLogit, _bioLogLogitFullChoiceSet

    b = lambda: Beta('beta1', 0.5, -3, 3, 0)  # noqa: E731
    b2 = lambda: Beta('beta2', 2.0, -3, 10, 0)  # noqa: E731
    v = lambda: Variable('Variable1')  # noqa: E731
    n = lambda x=2.0: Numeric(x)  # noqa: E731
    util = lambda: {1: b() * v(), 2: b2() + 0, 3: Numeric(0.5)}  # noqa: E731
    av = lambda: {1: Variable('Av1'), 2: Variable('Av2'), 3: Variable('Av3')}  # noqa: E731
    zoo = {
        'Beta': b,
        'Variable': v,
        'Numeric': n,
        'bioDraws': lambda: bioDraws('xi', 'NORMAL'),
        'RandomVariable': lambda: RandomVariable('omega'),
        'Plus': lambda: b() + v(),
        'Minus': lambda: b() - v(),
        'Times': lambda: b() * v(),
        'Divide': lambda: b() / v(),
        'Power': lambda: v() ** b(),
        'PowerConstant': lambda: PowerConstant(b(), 2.0),
        'bioMin': lambda: bioMin(b(), v()),
        'bioMax': lambda: bioMax(b(), v()),
        'And': lambda: (v() > 1) & (b() < 2),
        'Or': lambda: (v() > 1) | (b() < 2),
        'Equal': lambda: v() == b(),
        'NotEqual': lambda: v() != b(),
        'LessOrEqual': lambda: v() <= b(),
        'GreaterOrEqual': lambda: v() >= b(),
        'Less': lambda: v() < b(),
        'Greater': lambda: v() > b(),
        'UnaryMinus': lambda: -b(),
        'exp': lambda: exp(b()),
        'log': lambda: log(v()),
        'logzero': lambda: logzero(v()),
        'sin': lambda: sin(b()),
        'cos': lambda: cos(b()),
        'bioNormalCdf': lambda: bioNormalCdf(b()),
        'MonteCarlo': lambda: MonteCarlo(b() * bioDraws('xi', 'NORMAL')),
        'PanelLikelihoodTrajectory': lambda: PanelLikelihoodTrajectory(b() * v()),
        'Derive': lambda: Derive(b() * v(), 'beta1'),
        'Integrate': lambda: Integrate(b() * RandomVariable('omega'), 'omega'),
        'BelongsTo': lambda: BelongsTo(v(), {1, 2}),
        'Elem': lambda: Elem({1: b(), 2: v()}, Variable('Av2')),
        'bioMultSum': lambda: bioMultSum([b(), v(), n()]),
        'ConditionalSum': lambda: ConditionalSum([ConditionalTermTuple(condition=v() > 1, term=b()),
                                                  ConditionalTermTuple(condition=v() <= 1, term=b2())]),
        'bioLinearUtility': lambda: bioLinearUtility([LinearTermTuple(beta=b(), x=v())]),
        'LogLogit': lambda: LogLogit(util(), av(), Variable('Choice')),
        '_bioLogLogit': lambda: _bioLogLogit(util(), av(), Variable('Choice')),
        '_bioLogLogitFullChoiceSet': lambda: _bioLogLogitFullChoiceSet(util(), Variable('Choice')),
    }

    def catalog():
        from biogeme.catalog import Catalog

        return Catalog.from_dict('cat', {'lin': b() * v(), 'logv': b() * log(v())})

    zoo['Catalog'] = catalog
    del ex
    return zoo


# numeric-only instances (get_value is the pure-Python evaluation: no variables)
def numeric_zoo() -> dict:
    from biogeme.expressions import (Beta, Numeric, Elem, bioMultSum, bioMin, bioMax, exp, log, logzero, sin, cos,
                                     ConditionalSum, ConditionalTermTuple)
    from biogeme.expressions.unary_expressions import PowerConstant

    b = lambda: Beta('beta1', 0.5, -3, 3, 0)  # noqa: E731
    n = lambda x=2.0: Numeric(x)  # noqa: E731
    return {
        'Beta': b, 'Numeric': n, 'Plus': lambda: b() + n(), 'Minus': lambda: b() - n(), 'Times': lambda: b() * n(3.0),
        'Divide': lambda: b() / n(), 'Power': lambda: n() ** b(), 'PowerConstant': lambda: PowerConstant(b(), 2.0),
        'bioMin': lambda: bioMin(b(), n()), 'bioMax': lambda: bioMax(b(), n()),
        'And': lambda: (n() > 1) & (b() < 2), 'Or': lambda: (n() > 3) | (b() < 2),
        'Equal': lambda: n() == b(), 'NotEqual': lambda: n() != b(), 'LessOrEqual': lambda: n() <= b(),
        'GreaterOrEqual': lambda: n() >= b(), 'Less': lambda: n() < b(), 'Greater': lambda: n() > b(),
        'UnaryMinus': lambda: -b(), 'exp': lambda: exp(b()), 'log': lambda: log(n()), 'logzero': lambda: logzero(n()),
        'sin': lambda: sin(b()), 'cos': lambda: cos(b()),
        'Elem': lambda: Elem({1: b(), 2: n()}, n(2)), 'bioMultSum': lambda: bioMultSum([b(), n(), n(3.0)]),
        'ConditionalSum': lambda: ConditionalSum([ConditionalTermTuple(condition=n() > 1, term=b())]),
    }


# ------------------------------------------------------------------------------------------------
# the cases
# ------------------------------------------------------------------------------------------------


class CppStub:
    def __init__(self):
        self.calls = []

    def set_data(self, sample):
        self.calls.append(('set_data', sample))

    def set_data_map(self, sample):
        self.calls.append(('set_data_map', sample))


NOT_DIFFERENTIABLE = {'And', 'Or', 'Equal', 'NotEqual', 'LessOrEqual', 'GreaterOrEqual', 'Less', 'Greater', 'BelongsTo', 'Catalog'}


def _expr_space(model, cname):
    for sid in model.spaces:
        if sid.rsplit('.', 1)[-1] == cname and sid.startswith('biogeme.') and ('expressions' in sid or 'catalog' in sid):
            return sid
    return None


def build_cases(model, pairs: dict, tier: str) -> tuple[list, list]:
    """pairs: (space, alias) -> emitted record.  Returns (cases, uncovered aliases)."""
    from biogeme.expressions import IdManager

    cases = []

    def add(space, alias, factory, label='', post=None, heavy=False):
        if (space, alias) not in pairs:
            raise KeyError(f'case for a pair TLC did not emit: {space}.{alias}')
        if heavy and tier == 'quick':
            return
        cases.append(dict(space=space, alias=alias, rec=pairs[(space, alias)], factory=factory, label=label, post=post))

    # ---- expressions: every class of the zoo x the argument-light aliases it exposes
    zoo = expression_zoo()

    def prepared(build):
        def f():
            e = build()
            e.prepare(database(), number_of_draws=5)
            return e

        return f

    def with_idm(build):
        def f():
            e = build()
            idm = IdManager([e], database(), 5)
            return e, (idm,), {}

        return f

    for cname, build in zoo.items():
        sid = _expr_space(model, cname)
        if sid is None:
            continue
        simple = {
            'getClassName': lambda build=build: (build(), (), {}),
            'requiresDraws': lambda build=build: (build(), (), {}),
            'countPanelTrajectoryExpressions': lambda build=build: (build(), (), {}),
            'embedExpression': lambda build=build: (build(), ('MonteCarlo',), {}),
            'getElementaryExpression': lambda build=build: (build(), ('beta1',), {}),
            'getStatusIdManager': lambda build=build: (build(), (), {}),
            'setIdManager': with_idm(build),
            'getSignature': lambda build=build: (prepared(build)(), (), {}),
        }
        for alias, fac in simple.items():
            if (sid, alias) in pairs:
                add(sid, alias, fac, label=cname)
        if (sid, 'getStatusIdManager') in pairs:
            add(sid, 'getStatusIdManager', lambda build=build: (prepared(build)(), (), {}), label=cname + ' prepared')
        if (sid, 'setIdManager') in pairs:
            add(sid, 'setIdManager', lambda build=build: (prepared(build)(), (None,), {}), label=cname + ' reset')
    for cname, build in numeric_zoo().items():
        sid = _expr_space(model, cname)
        if sid and (sid, 'getValue') in pairs:
            add(sid, 'getValue', lambda build=build: (build(), (), {}), label=cname)
    # engine-backed evaluation on a few classes
    for cname in ('Plus', 'Beta', 'exp', '_bioLogLogit', 'Catalog') if tier == 'quick' else list(zoo):
        sid = _expr_space(model, cname)
        build = zoo[cname]
        if sid is None or cname in ('bioDraws', 'RandomVariable', 'PanelLikelihoodTrajectory', 'LogLogit', 'Integrate', 'MonteCarlo', 'Derive'):
            continue
        if (sid, 'getValue_c') in pairs:
            add(sid, 'getValue_c', lambda build=build: (build(), (), dict(database=database(), betas={'beta1': 0.25}, prepare_ids=True)), label=cname)
        if (sid, 'getValueAndDerivatives') in pairs and cname not in NOT_DIFFERENTIABLE:
            add(sid, 'getValueAndDerivatives', lambda build=build: (build(), (), dict(database=database(), betas={'beta1': 0.25}, aggregation=True, prepare_ids=True)), label=cname)
        if (sid, 'createFunction') in pairs and cname in ('Plus', 'exp', 'Times'):
            add(sid, 'createFunction', lambda build=build: (build(), (), dict(database=database(), number_of_draws=5, gradient=True, hessian=True, bhhh=False)),
                label=cname, post=lambda f: f(np.array([0.3])))
    # ---- IdManager
    sid = 'biogeme.expressions.idmanager.IdManager'

    def idm():
        # IdManager.set_data / set_data_map hand the sample to the "cpp" attribute of each expression
        f = formulas()
        f['log_like'].cpp = CppStub()
        return IdManager([f['log_like']], database(), 0)

    add(sid, 'setData', lambda: (idm(), (frame().astype(float),), {}))
    add(sid, 'setDataMap', lambda: (idm(), (database(True).individualMap,), {}))
    # ---- Database
    sid = 'biogeme.database.Database'
    from biogeme.expressions import Variable, Beta

    def avail():
        return {1: Variable('Av1'), 2: Variable('Av2'), 3: Variable('Av3')}

    D = {
        'getNumberOfObservations': lambda: (database(), (), {}),
        'getSampleSize': lambda: (database(True), (), {}),
        'isPanel': lambda: (database(True), (), {}),
        'valuesFromDatabase': lambda: (database(), (Variable('Variable1') * 2 + Variable('Variable2'),), {}),
        'checkAvailabilityOfChosenAlt': lambda: (database(), (avail(), Variable('Choice')), {}),
        'choiceAvailabilityStatistics': lambda: (database(), (avail(), Variable('Choice')), {}),
        'scaleColumn': lambda: (database(), ('Variable2', 0.01), {}),
        'suggestScaling': lambda: (database(), (), dict(columns=['Variable1', 'Variable2'], report_all=True)),
        'sampleWithReplacement': lambda: (database(), (4,), {}),
        'sampleIndividualMapWithReplacement': lambda: (database(True), (3,), {}),
        'addColumn': lambda: (database(), (Variable('Variable1') * Variable('Variable2'), 'NewCol'), {}),
        'DefineVariable': lambda: (database(), ('NewVar', Variable('Variable1') + 1), {}),
        'dumpOnFile': lambda: (database(), (), {}),
        'generateDraws': lambda: (database(), ({'xi': 'NORMAL', 'u': 'UNIFORM_HALTON2'}, ['xi', 'u'], 4), {}),
        'buildPanelMap': lambda: (database(True), (), {}),
        'generateFlatPanelDataframe': lambda: (database(True), (), dict(save_on_file=True, identical_columns=None)),
        'setRandomNumberGenerators': lambda: (database(), (_rng(),), {}),
        'descriptionOfNativeDraws': lambda: (database(), (), {}),
    }
    for alias, fac in D.items():
        add(sid, alias, fac)
    # ---- BIOGEME
    sid = 'biogeme.biogeme.BIOGEME'
    x0 = [-1.0, 2.0]
    B = {
        'getBoundsOnBeta': lambda: (biogeme_object(), ('beta2',), {}),
        'calculateInitLikelihood': lambda: (biogeme_object(), (), {}),
        'calculateLikelihood': lambda: (biogeme_object(), (x0,), dict(scaled=True)),
        'calculateLikelihoodAndDerivatives': lambda: (biogeme_object(), (x0,), dict(scaled=False, hessian=True, bhhh=True)),
        'calculateNullLoglikelihood': lambda: (biogeme_object(), (avail(),), {}),
        'likelihoodFiniteDifferenceHessian': lambda: (biogeme_object(), (x0,), {}),
        'checkDerivatives': lambda: (biogeme_object(), (x0,), dict(verbose=False)),
        'setRandomInitValues': lambda: (biogeme_object(), (), dict(default_bound=5.0)),
    }
    for alias, fac in B.items():
        add(sid, alias, fac)
    add(sid, 'quickEstimate', lambda: (biogeme_object(), (), {}), heavy=True)
    add(sid, 'confidenceIntervals', lambda: (biogeme_object(), ([{'beta1': -1.0, 'beta2': 2.0}, {'beta1': -0.9, 'beta2': 2.1}, {'beta1': -1.1, 'beta2': 1.9}],), dict(interval_size=0.9)), heavy=True)
    # ---- bioResults
    sid = 'biogeme.results.bioResults'
    R = {
        'getBetaValues': ((), dict(my_betas=['beta2'])), 'getBetasForSensitivityAnalysis': ((['beta1', 'beta2'],), dict(size=5, use_bootstrap=False)),
        'getBootstrapVarCovar': ((), {}), 'getCorrelationResults': ((), {}), 'getEstimatedParameters': ((), dict(only_robust=False)),
        'getF12': ((), dict(robust_std_err=False)), 'getGeneralStatistics': ((), {}), 'getHtml': ((), dict(only_robust=True)),
        'getLaTeX': ((), dict(only_robust=False)), 'getRobustVarCovar': ((), {}), 'getVarCovar': ((), {}),
        'numberOfFreeParameters': ((), {}), 'printGeneralStatistics': ((), {}), 'shortSummary': ((), {}),
        'writeF12': ((), dict(robust_std_err=True)), 'writeHtml': ((), dict(only_robust=True)), 'writeLaTeX': ((), {}), 'writePickle': ((), {}),
    }
    for alias, (a, k) in R.items():
        add(sid, alias, lambda a=a, k=k: (results_object(), a, dict(k)))
    # ---- module-level functions
    for msid, alias, fac, post in module_cases():
        if (msid, alias) in pairs:
            add(msid, alias, fac, post=post)
    # ---- the same real instances turned into instances of a NAMESAKE subclass (class Database(Database), class Beta(Beta))
    # that redefines the new name: quick = the two classes users subclass most, thorough = all
    by_parent = {psid: (tsid, model.namesake_classes[tsid]) for tsid, psid in model.namesake_parent.items()}
    for c in list(cases):
        if c['space'] in by_parent and (tier != 'quick' or c['space'].rsplit('.', 1)[-1] in ('Database', 'Beta')):
            tsid, t = by_parent[c['space']]
            if (tsid, c['alias']) in pairs and pairs[(tsid, c['alias'])]['newname'] in vars(t):
                cases.append(dict(c, space=tsid, rec=pairs[(tsid, c['alias'])], factory=_reclassed(c['factory'], t),
                                  label=(c['label'] + ' as namesake subclass').strip()))
    # ---- the same real instances turned into instances of a user subclass that redefines the new name
    if tier != 'quick':
        by_base = {model.space_id(u.__bases__[0]): (usid, u) for usid, u in model.user_classes.items()}
        for c in list(cases):
            if c['space'] in by_base and 'namesake' not in c['label']:
                usid, u = by_base[c['space']]
                if (usid, c['alias']) in pairs and pairs[(usid, c['alias'])]['newname'] in vars(u):
                    cases.append(dict(c, space=usid, rec=pairs[(usid, c['alias'])], factory=_reclassed(c['factory'], u),
                                      label=(c['label'] + ' as user subclass').strip()))
    covered = {(c['space'], c['alias']) for c in cases}
    return cases, sorted(set(pairs) - covered)


def _reclassed(factory, user_cls):
    def f():
        recv, args, kwargs = factory()
        recv.__class__ = user_cls
        return recv, args, kwargs

    return f


def _rng():
    from biogeme.native_draws import RandomNumberGeneratorTuple

    def gen(sample_size, number_of_draws):
        return np.full((sample_size, number_of_draws), 0.25)

    return {'MYGEN': RandomNumberGeneratorTuple(generator=gen, description='constant')}


def module_cases():
    from biogeme.expressions import Beta, Variable
    from biogeme.nests import OneNestForNestedLogit, NestsForNestedLogit, OneNestForCrossNestedLogit, NestsForCrossNestedLogit
    from biogeme.segmentation import DiscreteSegmentationTuple

    def util():
        return {1: Beta('b1', 0.1, None, None, 0) * Variable('Variable1'), 2: Beta('b2', 0.2, None, None, 0) + 0, 3: Variable('Variable2') / 10}

    def av():
        return {1: Variable('Av1'), 2: Variable('Av2'), 3: Variable('Av3')}

    def nests():
        return NestsForNestedLogit(choice_set=[1, 2, 3], tuple_of_nests=(OneNestForNestedLogit(nest_param=Beta('mu', 1.5, 1, 10, 0), list_of_alternatives=[1, 2], name='n1'),))

    def cnests():
        a = OneNestForCrossNestedLogit(nest_param=Beta('mua', 1.5, 1, 10, 0), dict_of_alpha={1: 0.5, 2: 1.0}, name='a')
        b = OneNestForCrossNestedLogit(nest_param=Beta('mub', 1.2, 1, 10, 0), dict_of_alpha={1: 0.5, 3: 1.0}, name='b')
        return NestsForCrossNestedLogit(choice_set=[1, 2, 3], tuple_of_nests=(a, b))

    def cnests_num():
        a = OneNestForCrossNestedLogit(nest_param=1.5, dict_of_alpha={1: 0.5, 2: 1.0}, name='a')
        b = OneNestForCrossNestedLogit(nest_param=1.2, dict_of_alpha={1: 0.5, 3: 1.0}, name='b')
        return NestsForCrossNestedLogit(choice_set=[1, 2, 3], tuple_of_nests=(a, b))

    mu = lambda: Beta('mu0', 1.0, 0.1, 10, 0)  # noqa: E731
    loggi = lambda: {1: Variable('Variable1') * 0.1, 2: Variable('Variable2') * 0.01, 3: Variable('Variable1') * 0.2}  # noqa: E731
    corr = lambda: {1: Beta('c1', 0.0, None, None, 1) + 0.1, 2: Beta('c2', 0.0, None, None, 1) + 0.2, 3: Beta('c3', 0.0, None, None, 1) + 0.3}  # noqa: E731
    uni = lambda: np.linspace(0.05, 0.95, 12).reshape(3, 4)  # noqa: E731
    out = []
    for m in ('module biogeme.models', 'module biogeme.models.cnl'):
        out += [
            (m, 'cnl_avail', lambda: (None, (util(), av(), cnests(), 1), {}), None),
            (m, 'logcnl_avail', lambda: (None, (util(), av(), cnests(), 1), {}), None),
            (m, 'getMevForCrossNested', lambda: (None, (util(), av(), cnests()), {}), None),
            (m, 'getMevForCrossNestedMu', lambda: (None, (util(), av(), cnests(), mu()), {}), None),
        ]
    for m in ('module biogeme.models', 'module biogeme.models.nested'):
        out += [
            (m, 'getMevForNested', lambda: (None, (util(), av(), nests()), {}), None),
            (m, 'getMevForNestedMu', lambda: (None, (util(), av(), nests(), mu()), {}), None),
            (m, 'getMevGeneratingForNested', lambda: (None, (util(), av(), nests()), {}), None),
            (m, 'nestedMevMu', lambda: (None, (util(), av(), nests(), 1, mu()), {}), None),
            (m, 'lognestedMevMu', lambda: (None, (util(), av(), nests(), 1, mu()), {}), None),
        ]
    for m in ('module biogeme.models', 'module biogeme.models.mev'):
        out += [
            (m, 'logmev_endogenousSampling', lambda: (None, (util(), loggi(), av(), corr(), 1), {}), None),
            (m, 'mev_endogenousSampling', lambda: (None, (util(), loggi(), av(), corr(), 1), {}), None),
        ]
    for m in ('module biogeme.models', 'module biogeme.models.piecewise'):
        out += [
            (m, 'piecewiseVariables', lambda: (None, ('Variable1', [None, 2, 4, None]), {}), None),
            (m, 'piecewiseFormula', lambda: (None, ('Variable1', [None, 2, 4, None]), dict(betas=None)), None),
            (m, 'piecewiseFunction', lambda: (None, (3.5, [0, 2, 4, None], [1.0, 2.0, 3.0]), {}), None),
        ]
    m = 'module biogeme.draws'
    out += [
        (m, 'getUniform', lambda: (None, (3, 4), dict(symmetric=True)), None),
        (m, 'getLatinHypercubeDraws', lambda: (None, (3, 4), dict(symmetric=False, uniform_numbers=uni().ravel())), None),
        (m, 'getHaltonDraws', lambda: (None, (3, 4), dict(base=3, skip=10)), None),
        (m, 'getAntithetic', lambda: (None, (lambda s, r: np.linspace(0.1, 0.9, s * r).reshape(s, r), 3, 4), {}), None),
        (m, 'getNormalWichuraDraws', lambda: (None, (3, 4), dict(uniform_numbers=uni(), antithetic=False)), None),
    ]
    m = 'module biogeme.version'
    out += [(m, a, lambda: (None, (), {}), None) for a in ('getVersion', 'getHtml', 'getText', 'getLaTeX')]
    m = 'module biogeme.results'
    out += [
        (m, 'calcPValue', lambda: (None, (1.7,), {}), None),
        (m, 'compileEstimationResults', lambda: (None, ({'a': results_object(), 'b': results_object()},), dict(include_robust_stderr=True)), None),
    ]
    out += [('module biogeme.multiobjectives', 'AIC_BIC_dimension', lambda: (None, (results_object(),), {}), None)]
    out += [('module biogeme.segmentation', 'segment_parameter',
             lambda: (None, (Beta('bs', 0.3, None, None, 0), [DiscreteSegmentationTuple(variable=Variable('Choice'), mapping={1: 'one', 2: 'two', 3: 'three'})]), dict(prefix='seg')), None)]
    for m in ('module biogeme.tools', 'module biogeme.tools.database'):
        out += [(m, 'countNumberOfGroups', lambda: (None, (frame(), 'Person'), {}), None)]

    def fct():
        from biogeme.function_output import FunctionOutput

        def f(x):
            return FunctionOutput(function=float(x[0] ** 2 * x[1] + x[1] ** 3), gradient=np.array([2 * x[0] * x[1], x[0] ** 2 + 3 * x[1] ** 2]),
                                  hessian=np.array([[2 * x[1], 2 * x[0]], [2 * x[0], 6 * x[1]]]))

        return f

    for m in ('module biogeme.tools', 'module biogeme.tools.derivatives'):
        out += [
            (m, 'findiff_H', lambda: (None, (fct(), np.array([1.0, 2.0])), {}), None),
            (m, 'checkDerivatives', lambda: (None, (fct(), np.array([1.0, 2.0])), dict(names=['a', 'b'], logg=False)), None),
        ]
    m = 'module biogeme.cnl'
    out += [
        (m, 'cnl_G', lambda: (None, ([1, 2, 3], cnests_num()), {}), lambda g: g(np.array([1.0, 2.0, 0.5]))),
        (m, 'cnl_CDF', lambda: (None, ([1, 2, 3], cnests_num()), {}), lambda g: g(np.array([0.2, -0.1, 0.4]))),
    ]
    return out


# ------------------------------------------------------------------------------------------------
# running one case (inside a forked child)
# ------------------------------------------------------------------------------------------------


def _one_side(model, case, name, space_id, seed, extra_kwargs=None):
    import random

    tmp = tempfile.mkdtemp(prefix='vb-c20-', dir=os.environ.get('VERIF_SCRATCH', '/var/tmp'))
    here = os.getcwd()
    shutil.copy(os.path.join(here, 'biogeme.toml'), os.path.join(tmp, 'biogeme.toml'))
    os.chdir(tmp)
    try:
        np.random.seed(seed)
        random.seed(seed)
        recv, args, kwargs = case['factory']()
        kwargs = dict(kwargs, **(extra_kwargs or {}))
        target = recv if recv is not None else model.spaces[space_id]
        if recv is not None and model.is_module.get(space_id, False):
            target = model.spaces[space_id]  # static alias whose replacement lives in the module
        np.random.seed(seed + 1)
        random.seed(seed + 1)
        with warnings.catch_warnings(record=True) as wl:
            warnings.simplefilter('always')
            try:
                res = getattr(target, name)(*args, **kwargs)
                if case.get('post') and not isinstance(res, BaseException):
                    res = case['post'](res)
            except Exception as e:  # noqa
                res = e
        files = sorted(f for f in os.listdir(tmp) if f != 'biogeme.toml' and not f.startswith('__'))
        return dict(
            result=canon(digest(res)),
            receiver=canon(digest(recv)) if recv is not None else '',
            arguments=canon(digest([list(args), kwargs])),
            files=files,
            warnings=[(w.category.__name__, _TIME.sub('<time>', str(w.message))) for w in wl],
            raised=isinstance(res, BaseException),
        )
    finally:
        os.chdir(here)
        shutil.rmtree(tmp, ignore_errors=True)


def run_case(item):
    model, case, seed = item
    rec = case['rec']
    old = _one_side(model, case, case['alias'], rec['space'], seed)
    new_space = rec['new_space'] if rec['new_space'] != '!missing' else rec['space']
    new = _one_side(model, case, rec['newname'], new_space, seed)
    diffs = []
    for k in ('result', 'receiver', 'arguments', 'files'):
        if old[k] != new[k]:
            diffs.append(dict(what=k, old=str(old[k])[:400], new=str(new[k])[:400]))
    dep = [w for w in old['warnings'] if w[0] == 'DeprecationWarning' and case['alias'] in w[1].replace(';', ' ').split()]
    rest = list(old['warnings'])
    if dep:
        rest.remove(dep[0])
    if not dep:
        diffs.append(dict(what='no deprecation warning for the old name', old=old['warnings'][:5]))
    elif rec['newname'] not in [t.rstrip('.') for t in dep[0][1].split()]:
        diffs.append(dict(what='warning does not name the replacement', old=dep[0][1]))
    if rest != new['warnings']:
        diffs.append(dict(what='warnings beyond the one deprecation warning', old=rest[:5], new=new['warnings'][:5]))
    designated = None
    if not rec['replacement_ok'] and len(rec['candidates']) == 1 and rec['candidates'][0] != rec['newname']:
        # the spec designates another replacement than the advertised one: show that it behaves differently
        des = _one_side(model, case, rec['candidates'][0], new_space, seed)
        designated = dict(name=rec['candidates'][0], same_result=des['result'] == old['result'], old=old['result'][:300], designated=des['result'][:300])
    return dict(space=rec['space'], alias=case['alias'], newname=rec['newname'], label=case['label'], diffs=diffs,
                raised=(old['raised'], new['raised']), result=old['result'][:200], designated=designated)


# ------------------------------------------------------------------------------------------------
# renamed keyword arguments with real arguments
# ------------------------------------------------------------------------------------------------


def build_kw_cases(model, rules: dict, tier: str) -> tuple[list, list]:
    """rules: (fid, old keyword) -> a record emitted by TLC for that rule (new name, drop)."""
    import biogeme.biogeme as bio
    import biogeme.results as res
    import biogeme.draws as draws
    from biogeme.expressions import Beta, Variable

    cases = []

    def add(fid, old, factory, value, fname, label='', post=None, heavy=False):
        if (fid, old) not in rules:
            raise KeyError(f'keyword case for a rule TLC did not emit: {fid} {old}')
        if heavy and tier == 'quick':
            return
        r = rules[(fid, old)]
        cases.append(dict(fid=fid, old=old, new=r['new'], drop=r['new'] == '', factory=factory, value=value, fname=fname, label=label, post=post,
                          space=r['space']))

    B = 'biogeme.biogeme.BIOGEME.__init__'
    mk = lambda: (bio.BIOGEME, (database(), formulas()), {})  # noqa: E731
    for old, val in (('suggestScales', True), ('numberOfThreads', 2), ('numberOfDraws', 7), ('missingData', -1), ('parameter_file', 'biogeme.toml'),
                     ('userNotes', 'my notes'), ('generateHtml', False), ('saveIterations', False), ('seed_param', 12)):
        add(B, old, mk, val, '__call__', post=lambda b: [b, {n: b.biogeme_parameters.get_value(n) for n in sorted(b.biogeme_parameters.parameter_names)}])
    add('biogeme.biogeme.BIOGEME.simulate', 'theBetaValues', lambda: (biogeme_object(), (), {}), {'beta1': -0.5, 'beta2': 1.5}, 'simulate')
    add('biogeme.biogeme.BIOGEME.estimate', 'bootstrap', lambda: (_bootstrap_biogeme(), (), {}), True, 'estimate', heavy=True,
        post=lambda r: [r.data.betaValues, r.data.bootstrap is not None])
    R = 'biogeme.results.bioResults.'
    add(R + '__init__', 'pickleFile', lambda: (res.bioResults, (), {}), _RESULTS_PICKLE, '__call__', post=lambda r: r.short_summary())
    add(R + '__init__', 'theRawResults', lambda: (res.bioResults, (), {}), None, '__call__', post=lambda r: type(r).__name__)
    for fname, old, val in (('get_latex', 'onlyRobust', False), ('get_estimated_parameters', 'onlyRobust', False), ('get_html', 'onlyRobust', False),
                            ('get_beta_values', 'myBetas', ['beta2']), ('write_html', 'onlyRobust', False), ('get_f12', 'robustStdErr', False),
                            ('write_f12', 'robustStdErr', False)):
        add(R + fname, old, lambda: (results_object(), (), {}), val, fname)
    add(R + 'get_betas_for_sensitivity_analysis', 'myBetas', lambda: (results_object(), (), dict(size=5, use_bootstrap=False)), ['beta1', 'beta2'],
        'get_betas_for_sensitivity_analysis')
    add(R + 'get_betas_for_sensitivity_analysis', 'useBootstrap', lambda: (results_object(), (['beta1', 'beta2'],), dict(size=5)), False,
        'get_betas_for_sensitivity_analysis')
    E = 'biogeme.expressions.base_expressions.Expression.'
    ex = lambda: Beta('beta1', 0.5, -3, 3, 0) * Variable('Variable1')  # noqa: E731
    add(E + 'prepare', 'numberOfDraws', lambda: (ex(), (database(),), {}), 6, 'prepare')
    add(E + 'create_function', 'numberOfDraws', lambda: (ex(), (database(),), dict(gradient=True, hessian=False, bhhh=False)), 6, 'create_function',
        post=lambda f: f(np.array([0.3])))
    add(E + 'create_objective_function', 'numberOfDraws', lambda: (ex(), (database(),), dict(gradient=True, hessian=False, bhhh=False)), 6,
        'create_objective_function', post=_objective_value)
    add(E + 'get_value_c', 'numberOfDraws', lambda: (ex(), (database(),), dict(prepare_ids=True)), 6, 'get_value_c')
    add(E + 'get_value_c', 'prepareIds', lambda: (ex(), (database(),), {}), True, 'get_value_c')
    add(E + 'get_value_and_derivatives', 'numberOfDraws', lambda: (ex(), (), dict(database=database(), prepare_ids=True, aggregation=True)), 6,
        'get_value_and_derivatives')
    add(E + 'get_value_and_derivatives', 'prepareIds', lambda: (ex(), (), dict(database=database(), aggregation=True)), True, 'get_value_and_derivatives')
    uni = np.linspace(0.05, 0.95, 12)
    add('biogeme.draws.get_latin_hypercube_draws', 'uniformNumbers', lambda: (draws, (3, 4), {}), uni, 'get_latin_hypercube_draws')
    add('biogeme.draws.get_normal_wichura_draws', 'uniformNumbers', lambda: (draws, (3, 4), {}), uni.reshape(3, 4), 'get_normal_wichura_draws')
    covered = {(c['fid'], c['old']) for c in cases}
    return cases, sorted(set(rules) - covered)


def _objective_value(f):
    f.set_variables(np.array([0.3]))
    return [f.f(), f.f_g().gradient]


def _bootstrap_biogeme():
    b = biogeme_object()
    b.bootstrap_samples = 5
    return b


def run_kw_case(item):
    model, case, seed = item
    shim = dict(factory=lambda: _kw_factory(case), post=case['post'])
    old = _one_side(model, shim, case['fname'], case['space'], seed, {case['old']: case['value']})
    new = _one_side(model, shim, case['fname'], case['space'], seed, {} if case['drop'] else {case['new']: case['value']})
    diffs = []
    for k in ('result', 'receiver', 'arguments', 'files'):
        if k == 'arguments':
            continue  # the keyword itself differs by construction
        if old[k] != new[k]:
            diffs.append(dict(what=k, old=str(old[k])[:400], new=str(new[k])[:400]))
    dep = [w for w in old['warnings'] if w[0] == 'DeprecationWarning' and f"'{case['old']}'" in w[1]]
    rest = list(old['warnings'])
    if len(dep) != 1:
        diffs.append(dict(what='deprecation warnings naming the old keyword', old=old['warnings'][:5]))
    else:
        rest.remove(dep[0])
        if not case['drop'] and f"'{case['new']}" not in dep[0][1]:
            diffs.append(dict(what='warning does not name the new keyword', old=dep[0][1]))
    if rest != new['warnings']:
        diffs.append(dict(what='warnings beyond the one deprecation warning', old=rest[:5], new=new['warnings'][:5]))
    return dict(fid=case['fid'], old=case['old'], new=case['new'], diffs=diffs, raised=(old['raised'], new['raised']), result=old['result'][:200])


def _kw_factory(case):
    recv, args, kwargs = case['factory']()
    return recv, args, kwargs


# ------------------------------------------------------------------------------------------------
# several keywords in a given ORDER (cases emitted by TLC: KwOrdered), real arguments
# ------------------------------------------------------------------------------------------------

REAL_KW_VALUES = {
    'biogeme.biogeme.BIOGEME.__init__': {
        'suggestScales': True, 'numberOfThreads': 2, 'numberOfDraws': 7, 'missingData': -1, 'userNotes': 'my notes',
        'generateHtml': False, 'saveIterations': False, 'seed': 12, 'seed_param': 12, 'number_of_draws': 7, 'number_of_threads': 2,
        'zz_other': 'a keyword BIOGEME does not know',
    },
}


def ignored_position(rec) -> str:
    """Where the (first) ignored keyword stands among the others: first / middle / last / none."""
    pos = [i for i, k in enumerate(rec['kinds']) if k == 'ignored']
    if not pos:
        return 'none'
    return 'first' if pos[0] == 0 else 'last' if pos[0] == len(rec['kinds']) - 1 else 'middle'


def build_kw_order_cases(model, kwseq: list, tier: str) -> list:
    """Ordered keyword cases of BIOGEME.__init__ with an ignored keyword among at least one old-style and one
    new-style keyword, each keyword with a real value.  quick: two per position of the ignored keyword."""
    import biogeme.biogeme as bio

    fid = 'biogeme.biogeme.BIOGEME.__init__'
    vals = REAL_KW_VALUES[fid]
    recs = [e for e in kwseq if e['fid'] == fid and len(e['forwarded_options']) == 1 and all(n in vals for n, _ in e['given'])
            and {'ignored', 'old-style', 'new-style'} <= set(e['kinds'])]
    recs.sort(key=lambda e: (len(e['given']), str(e['given'])))
    out = []
    per = {}
    for e in recs:
        w = ignored_position(e)
        if tier == 'quick' and per.get(w, 0) >= 2:
            continue
        per[w] = per.get(w, 0) + 1
        given = [(n, vals[n]) for n, _ in e['given']]
        by_num = {v: n for n, v in e['given']}
        forwarded = [(n, vals[by_num[v]]) for n, v in e['forwarded_options'][0]]
        out.append(dict(fid=fid, rec=e, where=w, given=given, forwarded=forwarded, space='biogeme.biogeme.BIOGEME',
                        factory=lambda: (bio.BIOGEME, (database(), formulas()), {}), fname='__call__',
                        post=lambda b: [b, {n: b.biogeme_parameters.get_value(n) for n in sorted(b.biogeme_parameters.parameter_names)}]))
    return out


def run_kw_order_case(item):
    model, case, seed = item
    shim = dict(factory=case['factory'], post=case['post'])
    old = _one_side(model, shim, case['fname'], case['space'], seed, dict(case['given']))
    new = _one_side(model, shim, case['fname'], case['space'], seed, dict(case['forwarded']))
    diffs = []
    for k in ('result', 'receiver', 'files'):
        if old[k] != new[k]:
            diffs.append(dict(what=k, old=str(old[k])[:400], new=str(new[k])[:400]))
    rest = list(old['warnings'])
    for name in case['rec']['obsolete_given']:
        dep = [w for w in rest if w[0] == 'DeprecationWarning' and f"'{name}'" in w[1]]
        if len(dep) != 1:
            diffs.append(dict(what=f'deprecation warnings naming {name}', old=old['warnings'][:6]))
        for w in dep:
            rest.remove(w)
    if rest != new['warnings']:
        diffs.append(dict(what='warnings beyond the deprecation warnings', old=rest[:5], new=new['warnings'][:5]))
    return dict(fid=case['fid'], given=[n for n, _ in case['given']], diffs=diffs, raised=(old['raised'], new['raised']), result=old['result'][:200])
