"""C14, output directory: scenarios for specs/Files.tla, replay of the emitted histories through the
real output functions of biogeme in a scratch directory, recording of directory traces and their
validation by specs/FilesTrace.tla.

The driver decides nothing about names: the expected names come from TLC (replay) and the recorded
snapshots are judged by FilesTrace (trace validation).
"""

from __future__ import annotations

import copy
import hashlib
import json
import os
import pickle
import shutil
import sys
import tempfile

from . import tlc
from . import resultsreplay as rr

GOVERNED = ('.html', '.pickle', '.tex', '.F12', '.dat')  # result, report and data-dump files
SENTINEL = 'biogeme.toml'  # always present: keeps the recorded lists non-empty


# ------------------------------------------------------------------ scenarios
def op(k, a='', b='', c=''):
    return dict(k=k, a=a, b=b, c=c)


class Scenario:
    def __init__(self, label, ops, pre, max_ops, max_env=1, max_index=8, slices=2, simulate=None, note='', invariants=()):
        self.label, self.ops, self.pre = label, ops, pre
        self.invariants = list(invariants)  # beyond MODEL_INVARIANTS (FoundAreOwn where the scheme is unambiguous)
        self.max_ops, self.max_env, self.max_index, self.slices = max_ops, max_env, max_index, slices
        self.simulate = simulate
        self.note = note

    def module(self) -> str:
        ops = ',\n          '.join(f'Op({json.dumps(o["k"])}, {json.dumps(o["a"])}, {json.dumps(o["b"])}, {json.dumps(o["c"])})'
                                   for o in self.ops)
        pre = ',\n          '.join('{' + ', '.join(json.dumps(n) for n in sorted(d)) + '}' for d in self.pre)
        return f'''---- MODULE FilesGen ----
EXTENDS Files
G_Ops == {{{ops}}}
G_Pre == {{{pre}}}
====
'''

    def cfg(self, invariants, properties=(), mutant='none', max_ops=None) -> str:
        inv = '\n'.join(f'INVARIANT {i}' for i in invariants)
        prop = '\n'.join(f'PROPERTY {p}' for p in properties)
        return f'''SPECIFICATION Spec
CONSTANTS
 Ops <- G_Ops
 Pre <- G_Pre
 MaxOps = {max_ops or self.max_ops}
 MaxEnv = {self.max_env}
 Slices = {self.slices}
 MaxIndex = {self.max_index}
 Mutant = "{mutant}"
{inv}
{prop}
'''

    def all_invariants(self):
        return MODEL_INVARIANTS + self.invariants


MODEL_INVARIANTS = ['TypeOK', 'FreshNames', 'LeastRule', 'LoadsWhatWasWritten', 'SeesOwnFilesOnly', 'RecycleOwnModel']
MODEL_PROPERTIES = ['NoOverwrite', 'NothingLost']


def cand(base, ext, k):
    return f'{base}.{ext}' if k == 0 else f'{base}~{k - 1:02d}.{ext}'


def scenarios(tier: str) -> list[Scenario]:
    quick = tier == 'quick'
    W = lambda kind, m='m', o='o1': op('write', kind, m, o)  # noqa: E731
    out = []
    # one results object, every report kind, the user deleting files in between (holes)
    out.append(Scenario(
        'reports+holes',
        [W('html'), W('pickle'), W('tex'), W('F12'), op('extremove', 'm.html'), op('extremove', 'm~00.html'),
         op('extremove', 'm.pickle'), op('load', 'm.pickle'), op('load', 'm~00.pickle')],
        [set(), {'m.html', 'm~01.html', 'm.pickle'}, {'m~00.html', 'm~00.pickle', 'm.tex', 'm.F12', 'm~00.F12'}],
        3 if quick else 4, max_env=2))
    # two objects of the same model name and a model whose name is a numbered name of the other
    out.append(Scenario(
        'name collisions',
        [W('html'), W('html', 'm', 'o2'), W('html', 'm~00', 'o3'), W('pickle'), W('pickle', 'm~00', 'o3'),
         op('load', 'm~00.pickle'), op('extcreate', 'm~01.html')],
        [set(), {'m.html'}, {'m.html', 'm.pickle', 'm~00~00.html'}],
        3 if quick else 4, max_env=1))
    # data dumps and backups
    out.append(Scenario(
        'dumps+backups',
        [op('dump', 'tiny'), op('dump', 'tiny_dumped'), op('backup', 'tiny_dumped', 'dat', 'rename'),
         op('backup', 'tiny_dumped', 'dat', 'copy'), op('backup', 'm', 'html', 'copy'), op('backup', 'm', 'html', 'rename'),
         W('html'), op('extremove', 'tiny_dumped_1.dat'), op('extremove', 'tiny_dumped~00.dat')],
        [set(), {'tiny_dumped.dat', 'tiny_dumped_1.dat', 'tiny_dumped_3.dat', 'm.html', 'm_1.html'}],
        3 if quick else 4, max_env=1))
    # the real estimation, recycling, loading
    out.append(Scenario(
        'estimate+recycle',
        [op('estimate', 'm'), op('recycle', 'm'), W('pickle'), op('extremove', 'm.pickle'), op('extremove', 'm~00.pickle'),
         op('load', 'm.pickle')] + ([] if quick else [W('html')]),
        [set(), {'m.pickle', 'm~01.pickle'}, {'m.html', 'm~00.html', 'm.pickle', 'm~00.pickle'}],
        3 if quick else 4, max_env=1))
    # the numbering outgrows two digits
    full = {cand('m', 'pickle', k) for k in range(0, 101)} | {'m.html'}
    out.append(Scenario(
        'beyond ~99',
        [W('pickle'), W('html'), op('recycle', 'm'), op('load', 'm~100.pickle'), op('extremove', 'm~57.pickle')],
        [full, full - {'m~99.pickle'}],
        3 if quick else 4, max_env=1, max_index=110))
    # ---- several models whose names share a prefix in one directory: every lookup by model name sees its own files only
    L = lambda m, ext='pickle': op('list', m, ext)  # noqa: E731
    R = lambda m: op('recycle', m)  # noqa: E731
    X = lambda n: op('extremove', n)  # noqa: E731
    gap = {'mode.pickle', 'mode~00.pickle', 'mode~02.pickle', 'mode_price.pickle', 'mode_price~00.pickle', 'mode_price.html'}
    none_yet = {'mode_price.pickle', 'mode_price~01.pickle', 'mode.html', 'mode_validation.pickle'}
    out.append(Scenario(
        'prefix: mode / mode_price',
        [W('pickle', 'mode', 'o1'), W('pickle', 'mode_price', 'o2'), R('mode'), R('mode_price'), L('mode'), X('mode.pickle')]
        + ([] if quick else [W('html', 'mode_price', 'o2'), W('html', 'mode', 'o1'), L('mode', 'html'), L('mode_price'), X('mode~00.pickle'),
                             op('estimate', 'mode')]),
        [set(), gap, none_yet], 2 if quick else 3, max_env=1, invariants=['FoundAreOwn']))
    # the files validate() leaves behind (m_val_est_<i>.*, m_validation.pickle) next to the model's own
    after_val = {'m.pickle', 'm.html', 'm_validation.pickle', 'm_val_est_1.pickle', 'm_val_est_1.html', 'm_val_est_2.pickle'}
    val_gaps = {'m_validation.pickle', 'm_validation~00.pickle', 'm_val_est_1.pickle', 'm_val_est_1~01.pickle', 'm~01.pickle'}
    out.append(Scenario(
        'prefix: validation files',
        [op('validate', 'm'), R('m'), R('m_val_est_1'), L('m'), L('m_val_est_1'), W('pickle', 'm', 'o1'), X('m.pickle')]
        # (no model NAMED m_validation: m_validation.pickle, which validate() of m writes, would by its name be a file of
        #  that model too -- TLC reports FoundAreOwn for it; an ambiguity of the scheme itself, like m~00 next to m)
        + ([] if quick else [X('m~01.pickle'), L('m', 'html'), X('m_validation.pickle')]),
        [set(), after_val, val_gaps], 2 if quick else 3, max_env=1, invariants=['FoundAreOwn']))
    # a sibling whose name continues with "~": mode~v2.pickle is matched by the pattern mode~*.pickle, but it is not a
    # numbered version of mode.pickle
    out.append(Scenario(
        'prefix: mode / mode~v2',
        [W('pickle', 'mode', 'o1'), W('pickle', 'mode~v2', 'o3'), R('mode'), R('mode~v2'), L('mode')]
        + ([] if quick else [L('mode~v2'), X('mode.pickle'), W('html', 'mode~v2', 'o3'), L('mode', 'html')]),
        [set(), {'mode.pickle', 'mode~01.pickle', 'mode~v2.pickle', 'mode~v2~00.pickle'}], 2 if quick else 3, max_env=1,
        invariants=['FoundAreOwn']))
    # a model name holding characters that file-name patterns treat specially: the files of "m[1]" are found and numbered
    # like those of any other model
    out.append(Scenario(
        'name with brackets',
        [W('pickle', 'm[1]', 'o1'), W('html', 'm[1]', 'o1'), L('m[1]'), R('m[1]')],
        [set(), {'m[1].pickle', 'm[1]~00.pickle'}, {'m[1].pickle', 'm[1].html', 'm[1]~01.html'}], 3, max_env=1, invariants=['FoundAreOwn']))
    if not quick:
        # deeper histories on a small alphabet: reports and pickles with holes, 5 operations
        out.append(Scenario(
            'deep: html+pickle with holes',
            [W('html'), W('pickle'), op('extremove', 'm.html'), op('extremove', 'm~00.pickle'), op('load', 'm.pickle'),
             op('recycle', 'm')],
            [{'m.html', 'm~01.html', 'm.pickle', 'm~00.pickle'}, {'m~00.html', 'm~01.pickle'}],
            5, max_env=2))
        out.append(Scenario(
            'validate',
            [op('validate', 'm'), op('estimate', 'm'), op('extremove', 'm_val_est_1.html'), op('recycle', 'm_val_est_1'),
             op('recycle', 'm')],
            [set(), {'m_validation.pickle', 'm_val_est_1.html', 'm_val_est_2.pickle', 'm_val_est_2~00.pickle'}],
            3, max_env=1))
        # long random walks over the union of the alphabets (no pickle of the model named m~00 here: the glob
        # m~*.pickle of files_of_type would count it among the pickles of model m, see design-C14.md)
        out.append(Scenario(
            'random walks',
            [W('html'), W('pickle'), W('tex'), W('F12'), W('html', 'm', 'o2'), W('pickle', 'm', 'o2'), W('html', 'm~00', 'o3'),
             op('dump', 'tiny'), op('backup', 'm', 'html', 'copy'), op('backup', 'm', 'pickle', 'rename'),
             op('estimate', 'm'), op('recycle', 'm'), op('extremove', 'm.html'), op('extremove', 'm.pickle'),
             op('extremove', 'm~00.pickle'), op('extremove', 'm~01.html'), op('extcreate', 'm~02.html'),
             op('load', 'm.pickle'), op('load', 'm~00.pickle'), op('load', 'm~01.pickle'),
             W('pickle', 'm_price', 'o3'), W('html', 'm_price', 'o3'), L('m'), L('m', 'html'), R('m_price'),
             op('extcreate', 'm_validation.pickle')],
            [set(), {'m.html', 'm~01.html', 'm.pickle', 'm~01.pickle', 'm~03.pickle'}],
            9, max_env=3, max_index=16, simulate=dict(num=1500)))
    return out


# ------------------------------------------------------------------ the real objects
_CACHE: dict = {}
OPENED: list = []
LISTED: list = []  # what files_of_type('pickle') returned before the last recycle
_HOOKED = False


def _audit(event, args):
    if event == 'open' and args and isinstance(args[0], str) and args[0].endswith('.pickle'):
        mode = args[1] if len(args) > 1 and isinstance(args[1], str) else 'r'
        if 'r' in mode and '+' not in mode:
            OPENED.append(os.path.basename(args[0]))


def _hook():
    global _HOOKED
    if not _HOOKED:
        sys.addaudithook(_audit)
        _HOOKED = True


def _q(n, d=1):
    return [n, d]


_NO = {'ex': False, 'v': [0, 1]}


def synthetic_raw(model: str, tag: int) -> dict:
    """a small raw outcome whose estimates identify it (tag)"""
    return dict(id=model, K=2, names=['B10', 'b2'], theta=[_q(tag), _q(-1, 2)], lb=[_NO, _NO], ub=[_NO, _NO], N=7, nobs=10,
                excl=0, L=_q(-5), L0={'ex': True, 'v': [-12, 1]}, Ln=_NO, g=[3, -4], H=[[-2, 1], [1, -2]],
                B=[[2, 1], [1, 2]], boot={'ex': False, 'r': []}, mc=False, active=[False, False])


def results_object(model: str, tag: int):
    key = ('res', model, tag)
    if key not in _CACHE:
        _CACHE[key] = rr.build(synthetic_raw(model, tag))
    return copy.deepcopy(_CACHE[key])


OBJ_TAG = {'o1': 1001, 'o2': 1002, 'o3': 1003}


def tiny_frame():
    import numpy as np
    import pandas as pd

    rng = np.random.default_rng(7)
    n = 12
    return pd.DataFrame({'x1': rng.integers(1, 6, n).astype(float), 'x2': rng.integers(1, 6, n).astype(float),
                         'ch': rng.integers(1, 3, n)})


def database(name: str):
    import biogeme.database as db

    key = ('db', name)
    if key not in _CACHE:
        _CACHE[key] = db.Database(name, tiny_frame())
    return _CACHE[key]


def real_model(name: str):
    """a real BIOGEME object (binary logit, one parameter) named `name`"""
    import biogeme.biogeme as bio
    from biogeme import models
    from biogeme.expressions import Beta, Variable

    key = ('bio', name)
    if key not in _CACHE:
        b = Beta('b', 0, None, None, 0)
        V = {1: b * Variable('x1'), 2: b * Variable('x2')}
        m = bio.BIOGEME(database('tiny'), models.loglogit(V, None, Variable('ch')))
        m.modelName = name
        _CACHE[key] = m
    return _CACHE[key]


# ------------------------------------------------------------------ the scratch directory
def sha(path: str) -> str:
    h = hashlib.sha256()
    with open(path, 'rb') as f:
        h.update(f.read())
    return h.hexdigest()


def snapshot() -> dict:
    return {n: sha(n) for n in sorted(os.listdir('.')) if os.path.isfile(n) and (n.endswith(GOVERNED) or n == SENTINEL)}


def plant(name: str, ver: int, sigs: dict):
    """a pre-existing / externally created file; pickles are real pickles of a results object"""
    if name.endswith('.pickle'):
        res = results_object('earlier', ver)
        with open(name, 'wb') as f:
            pickle.dump(res.data, f)
        sigs[name] = signature(res)
    else:
        with open(name, 'w') as f:
            f.write(f'earlier output {name} (version {ver})\n')


def signature(res) -> tuple:
    return tuple(round(float(x), 9) for x in res.data.betaValues)


class Dir:
    """context: a fresh scratch directory holding biogeme.toml"""

    def __enter__(self):
        self.old = os.getcwd()
        self.path = tempfile.mkdtemp(prefix='c14-dir-', dir=self.old)
        shutil.copy(os.path.join(self.old, SENTINEL), os.path.join(self.path, SENTINEL))
        os.chdir(self.path)
        return self

    def __exit__(self, *exc):
        os.chdir(self.old)
        shutil.rmtree(self.path, ignore_errors=True)


# ------------------------------------------------------------------ executing one operation with the real code
def execute(o: dict, objects: dict, sigs: dict, counter: list):
    """-> (returned name or '', loaded signature or None).  sigs: file name -> signature of its content"""
    from biogeme.results import bioResults
    from biogeme.tools.files import create_backup

    k = o['k']
    if k == 'write':
        key = (o['b'], o['c'])
        if key not in objects:
            objects[key] = results_object(o['b'], OBJ_TAG[o['c']])
        res = objects[key]
        if o['a'] == 'html':
            res.write_html()
            return res.data.htmlFileName, None
        if o['a'] == 'tex':
            res.write_latex()
            return res.data.latexFileName, None
        if o['a'] == 'F12':
            res.write_f12()
            return res.data.F12FileName, None
        name = res.write_pickle()
        if name != res.data.pickleFileName:
            return f'{name} (returned) / {res.data.pickleFileName} (recorded)', None
        sigs[name] = signature(res)
        return name, None
    if k == 'dump':
        return database(o['a']).dump_on_file(), None
    if k in ('estimate', 'recycle'):
        m = real_model(o['a'])
        if k == 'recycle':
            LISTED[:] = [str(x) for x in (m.files_of_type('pickle') or [])]
        res = m.estimate(recycle=(k == 'recycle'))
        if OPENED:  # results were read from a file
            return '', signature(res)
        if res.data.htmlFileName is None or res.data.pickleFileName is None:
            return f'html={res.data.htmlFileName} pickle={res.data.pickleFileName}', None
        sigs[res.data.pickleFileName] = signature(res)
        return res.data.pickleFileName, None
    if k == 'list':
        LISTED[:] = [str(x) for x in (real_model(o['a']).files_of_type(o['b']) or [])]
        return '', None
    if k == 'validate':
        m = real_model(o['a'])
        key = ('est', o['a'])
        if key not in _CACHE:  # the estimation results validate() starts from (not an output operation of the history)
            m.generate_html, m.generate_pickle = False, False
            _CACHE[key] = m.estimate()
            m.generate_html, m.generate_pickle = True, True
        m.validate(_CACHE[key], m.database.split(slices=counter[0]))
        return '', None
    if k == 'backup':
        r = create_backup(f"{o['a']}.{o['b']}", rename=(o['c'] == 'rename'))
        if r is not None:
            src = f"{o['a']}.{o['b']}"
            if src in sigs:
                sigs[r] = sigs[src]
        return r or '', None
    if k == 'load':
        res = bioResults(pickle_file=o['a'])
        return '', signature(res)
    if k == 'extcreate':
        counter[1] += 1
        plant(o['a'], 5000 + counter[1], sigs)
        return '', None
    if k == 'extremove':
        os.remove(o['a'])
        return '', None
    raise tlc.MachineryError(f'unknown operation {k}')


def replay(item: dict) -> dict:
    """item: dict(hist=emitted history, slices=.., control=None|'precreate'|'overwrite'|'loose_lookup')
    -> dict(mismatches=[...], trace=recorded trace, n=comparisons)"""
    hist, control = item['hist'], item.get('control')
    _hook()
    import biogeme.filenames as bf

    mism = []
    n = 0
    steps_rec = []
    saved_rule = bf.get_new_file_name
    import biogeme.biogeme as bb
    saved_lookup = bb.BIOGEME.files_of_type
    with Dir():
        sigs: dict = {}
        objects: dict = {}
        counter = [item.get('slices', 2), 0]
        # versions of the initial files as the specification numbered them
        ver_of = {}
        for name, v in hist.get('pre_vers', []):
            ver_of[name] = v
        for i, name in enumerate(hist['pre']):
            plant(name, ver_of.get(name, i + 1), sigs)
        if control == 'overwrite':
            bf.get_new_file_name = lambda name, ext: f'{name}.{ext}'
        if control == 'loose_lookup':  # everything whose name starts with the model name
            import glob
            bb.BIOGEME.files_of_type = lambda self, extension, all_files=False: glob.glob(f'{self.modelName}*.{extension}')
        try:
            planted = False
            for j, st in enumerate(hist['steps']):
                o = st['op']
                if control == 'precreate' and not planted and st['new'] and o['k'] in ('write', 'dump'):
                    plant(st['new'][0], 9000, sigs)  # somebody takes the predicted name first; the specification is not told
                    planted = True
                before = snapshot()
                del OPENED[:]
                del LISTED[:]
                try:
                    ret, loaded_sig = execute(o, objects, sigs, counter)
                    err = None
                except Exception as e:  # noqa
                    ret, loaded_sig, err = '', None, f'{type(e).__name__}: {str(e)[:200]}'
                opened = OPENED[-1] if OPENED else ''
                after = snapshot()
                ret = '' if ret is None else ret if isinstance(ret, str) else f'{ret!r} (not a string)'
                steps_rec.append(dict(op=o, before=before, after=after, ret=ret, opened=opened, listed=['-'] + sorted(set(LISTED))))
                n += 1
                ctx = dict(step=j + 1, op=o, before=sorted(x for x in before if x != SENTINEL))
                if err is not None:
                    mism.append(dict(key=f"files:{o['k']}:raises", got=err, **ctx))
                    break
                new = sorted(set(after) - set(before))
                if new != sorted(st['new']):
                    mism.append(dict(key=f"files:{o['k']}:created names", got=new, want=sorted(st['new']), **ctx))
                gone = sorted(set(before) - set(after))
                if gone != sorted(st['gone']):
                    mism.append(dict(key=f"files:{o['k']}:removed names", got=gone, want=sorted(st['gone']), **ctx))
                changed = sorted(x for x in before if x in after and after[x] != before[x])
                if changed:
                    mism.append(dict(key=f"files:{o['k']}:existing file changed", got=changed, **ctx))
                if (ret or '') != st['ret']:
                    mism.append(dict(key=f"files:{o['k']}:returned name", got=ret, want=st['ret'], **ctx))
                if o['k'] in ('list', 'recycle'):
                    n += 1
                    if sorted(LISTED) != sorted(st['seen']):
                        foreign = sorted(set(LISTED) - set(st['seen']))
                        mism.append(dict(key=f"files:{o['k']}:files of the model" + (' (holds files of another model)' if foreign else ''),
                                         got=sorted(LISTED), want=sorted(st['seen']), **ctx))
                if opened != st['from']:
                    mism.append(dict(key=f"files:{o['k']}:file read", got=opened, want=st['from'], **ctx))
                elif st['from'] and loaded_sig is not None and sigs.get(st['from']) is not None and loaded_sig != sigs[st['from']]:
                    mism.append(dict(key=f"files:{o['k']}:loaded estimates", got=loaded_sig, want=sigs[st['from']], **ctx))
                if mism:
                    break
            if not mism:
                final = sorted(x for x in snapshot() if x != SENTINEL)
                n += 1
                if final != sorted(x for x, _ in hist['final']):
                    mism.append(dict(key='files:final directory', got=final, want=sorted(x for x, _ in hist['final'])))
        finally:
            bf.get_new_file_name = saved_rule
            bb.BIOGEME.files_of_type = saved_lookup
    return dict(mismatches=mism, trace=steps_rec, n=n)


def expected_trace(hist: dict) -> list:
    """the directory trace the SPECIFICATION describes for an emitted history (content ids = the
    specification's version numbers): what a correct implementation records.  Used by the negative
    controls, which must not depend on how the library under test behaves."""
    cur = {SENTINEL: 'v0'}
    for i, name in enumerate(hist['pre']):
        cur[name] = f'v{i + 1}'
    steps = []
    for st in hist['steps']:
        before = dict(cur)
        for g in st['gone']:
            cur.pop(g, None)
        for name, v in zip(st['new'], st['vers']):
            cur[name] = f'v{v}'
        steps.append(dict(op=st['op'], before=before, after=dict(cur), ret=st['ret'], opened=st['from'],
                          listed=['-'] + sorted(st.get('seen', []))))
    return steps


# ------------------------------------------------------------------ traces -> FilesTrace.tla
def encode_trace(tid: int, steps: list) -> dict:
    ids: dict = {}

    def enc(snap):
        return [dict(n=n, s=ids.setdefault(h, len(ids) + 1)) for n, h in sorted(snap.items())]

    return dict(tid=tid, steps=[dict(op=s['op'], before=enc(s['before']), after=enc(s['after']), ret=str(s['ret']), opened=str(s['opened']),
                                     listed=[str(x) for x in s['listed']])
                                for s in steps])


TRACE_MODULE = '''---- MODULE FilesTraceGen ----
EXTENDS FilesTrace
====
'''


def validate(traces: list, slices: int = 2, max_index: int = 110, timeout: int = 900):
    """traces: list of encoded traces -> ({tid: verdict}, TLC result)"""
    work = tlc.scratch_dir('vb-ftrace-')
    try:
        path = os.path.join(work, 'traces.json')
        with open(path, 'w') as f:
            json.dump(traces, f)
        cfg = f'''SPECIFICATION TraceSpec
CONSTANTS
 Ops <- NoOps
 Pre <- NoOps
 MaxOps = 0
 MaxEnv = 0
 Slices = {slices}
 MaxIndex = {max_index}
 Mutant = "none"
INVARIANT Progress
'''
        res = tlc.run('FilesTraceGen', cfg, extra_modules={'FilesTraceGen': TRACE_MODULE}, workers=1,
                      env={'TRACE_FILE': path}, timeout=timeout, heap='4g')
        verdicts = {}
        for o in res.emitted:
            if isinstance(o, dict) and 'tid' in o:
                verdicts[o['tid']] = o['verdict']
        return verdicts, res
    finally:
        shutil.rmtree(work, ignore_errors=True)
