"""Replay of the behaviours emitted by specs/Results.tla into the real biogeme.results.

TLC emits, per raw outcome, every expected statistic (exact rationals / terms) and every expected
table cell (row label, column label) -> named quantity.  This driver builds a real `bioResults`
from the raw outcome (a stub model object exposing exactly what RawResults.__init__ reads), asks
the library for every figure and compares.  It decides nothing itself: which quantity belongs in a
cell, whether it is defined, and its value all come from the specification.
"""

from __future__ import annotations

import datetime
import math
from fractions import Fraction
from types import SimpleNamespace as NS

from . import terms

# Figures that are exact rationals.  The Hessian hs * H and the BHHH bs * B of the rational family reach the
# library rounded to floats (relative error u = 1.1e-16 per entry).  For a singular hs * H the rounded matrix is
# in general regular with smallest singular value <= sqrt(K) u sigma_max (< the cut-off K * 2.2e-16 * sigma_max of
# scipy.linalg.pinv), so the pseudo-inverse of the rounded matrix is the one of a rank-preserving perturbation E,
# ||E|| <= sqrt(K) u ||H||: || X~ - X || <= 3 ||X||^2 ||E|| (Wedin), X = exact pseudo-inverse.  Over the families of
# MCResults (||X|| <= 31, ||H|| <= 1001) that is <= 1e-10 absolute, on most members 1e-14: 1e-9 relative (floor
# 1) leaves a margin and is 25 orders of magnitude below the 1e16 that inverting the rounded matrix produces.
TOL_EXACT = 1e-9
TOL_PRIM = 1e-8  # figures that go through sqrt / log / Phi / chi-square quantile
FLOAT_MAX = 1.7976931348623157e308

PASS = dict(ndraws=11, drawtime=datetime.timedelta(seconds=3), drawtypes={'xi': 'NORMAL_MLHS'},
            boottime=datetime.timedelta(seconds=5), threads=3)


# ------------------------------------------------------------------ terms (adds the chi-square quantile)
def _chi2_cdf(x: float, df: int) -> float:
    """Regularised lower incomplete gamma P(df/2, x/2) by its power series (independent of scipy)."""
    if x <= 0:
        return 0.0
    a, z = df / 2.0, x / 2.0
    term = 1.0 / a
    total = term
    n = 0
    while abs(term) > 1e-17 * abs(total) and n < 10000:
        n += 1
        term *= z / (a + n)
        total += term
    return total * math.exp(-z + a * math.log(z) - math.lgamma(a))


def chi2_quantile(p: float, df: int) -> float:
    lo, hi = 0.0, 1.0
    while _chi2_cdf(hi, df) < p:
        hi *= 2.0
    for _ in range(200):
        mid = 0.5 * (lo + hi)
        if _chi2_cdf(mid, df) < p:
            lo = mid
        else:
            hi = mid
    return 0.5 * (lo + hi)


def ev(t):
    if isinstance(t, dict) and t.get('f') == 'chi2q':
        return chi2_quantile(float(terms.ev(t['a'][0])), int(terms.ev(t['a'][1])))
    return terms.ev(t)


def close(got, want) -> bool:
    """want: Fraction (exact) or float."""
    try:
        g = float(got)
    except (TypeError, ValueError):
        return False
    w = float(want)
    if not math.isfinite(g):  # NaN, and infinity (inf <= tol * inf would hold)
        return False
    tol = TOL_EXACT if isinstance(want, Fraction) else TOL_PRIM
    return abs(g - w) <= tol * max(1.0, abs(g), abs(w))


def _sq(x) -> float:
    """x^2; a sentinel of the library (largest float) squares to infinity instead of raising"""
    try:
        return float(x) ** 2
    except OverflowError:
        return math.inf


def is_blank(x) -> bool:
    if x is None:
        return True
    if isinstance(x, str):
        return x == ''
    try:
        return x != x
    except Exception:
        return False


# ------------------------------------------------------------------ building the real object
def float_matrix(m, scale: Fraction = Fraction(1)):
    """integer matrix times an exact rational scale -> floats, each entry correctly rounded"""
    import numpy as np

    return np.array([[float(Fraction(x) * scale) for x in row] for row in m], dtype=float)


def is_rational_family(raw: dict) -> bool:
    """does a Hessian / BHHH entry of the outcome fail to be a binary floating-point number?"""
    def inexact(m, s):
        s = Fraction(*s)
        return any(Fraction(float(Fraction(x) * s)) != Fraction(x) * s for row in m for x in row)

    return inexact(raw['H'], raw.get('hs', (1, 1))) or inexact(raw['B'], raw.get('bs', (1, 1)))


def float_image(raw: dict) -> dict:
    """Measurement for the evidence (no verdict): is the Hessian singular as a rational matrix (the rank comes
    from the specification), and does Gaussian elimination on its floating-point image nevertheless succeed
    (scipy.linalg.inv returns instead of raising LinAlgError)?"""
    import warnings
    from scipy import linalg

    H = float_matrix(raw['H'], Fraction(*raw.get('hs', (1, 1))))
    singular = raw['rankH'] < raw['K']
    with warnings.catch_warnings():
        warnings.simplefilter('ignore')
        try:
            big = float(abs(linalg.inv(H)).max())
            regular = True
        except linalg.LinAlgError:
            big, regular = None, False
    sv = linalg.svdvals(H)
    return dict(singular=singular, float_regular=regular, inv_max=big,
                sv_ratio=float(sv[raw['rankH']] / sv[0]) if singular and sv[0] > 0 else None)


def threshold_for(raw: dict) -> float:
    """the identification threshold a results object of this raw outcome is built with (and must be re-loaded with)"""
    import zlib

    return 1e-5 if zlib.crc32(repr(sorted(raw.items(), key=lambda kv: kv[0])).encode()) % 2 == 0 else 1000.0


def build(raw: dict):
    """raw outcome (as emitted) -> biogeme.results.bioResults, through RawResults.__init__."""
    import numpy as np
    from biogeme.function_output import BiogemeFunctionOutput
    from biogeme.results import RawResults, bioResults

    import warnings

    names = tuple(raw['names'])
    hs, bs = Fraction(*raw.get('hs', (1, 1))), Fraction(*raw.get('bs', (1, 1)))
    opt = lambda o: float(Fraction(*o['v'])) if o['ex'] else None  # noqa: E731
    bounds = {n: (opt(lb), opt(ub)) for n, lb, ub in zip(names, raw['lb'], raw['ub'])}
    database = NS(
        name='synthetic',
        get_sample_size=lambda: raw['N'],
        get_number_of_observations=lambda: raw['nobs'],
        typesOfDraws=PASS['drawtypes'],
        excludedData=raw['excl'],
    )
    model = NS(
        modelName=raw['id'],
        user_notes='synthetic raw outcome',
        id_manager=NS(free_betas=NS(names=names)),
        initLogLike=opt(raw['L0']),
        nullLogLike=opt(raw['Ln']),
        get_bounds_on_beta=lambda n: bounds[n],
        database=database,
        monte_carlo=raw['mc'],
        number_of_draws=PASS['ndraws'],
        drawsProcessingTime=PASS['drawtime'],
        optimizationMessages={},
        convergence=True,
        number_of_threads=PASS['threads'],
        bootstrap_time=PASS['boottime'],
    )
    fgHb = BiogemeFunctionOutput(
        function=float(Fraction(*raw['L'])),
        gradient=np.array(raw['g'], dtype=float),
        hessian=float_matrix(raw['H'], hs),
        bhhh=float_matrix(raw['B'], bs),
    )
    boot = np.array(raw['boot']['r'], dtype=float) if raw['boot']['ex'] else None
    theta = [float(Fraction(*t)) for t in raw['theta']]
    with warnings.catch_warnings():
        warnings.simplefilter('ignore')  # ill-conditioned matrix warnings of scipy (patched variants of the code)
        # the identification threshold only decides which eigenvalues are REPORTED as an identification issue: no
        # statistic depends on it.  Half of the outcomes are built with a threshold above every eigenvalue.
        thr = threshold_for(raw)
        return bioResults(RawResults(model, theta, fgHb, bootstrap=boot), identification_threshold=thr)


# ------------------------------------------------------------------ resolving the spec's quantity references
class Expected:
    """The expected figures of one model as emitted by TLC."""

    def __init__(self, rec: dict):
        self.rec = rec
        self.raw = rec['raw']
        self.stats = rec['stats']
        self._pairs = {F: {(e['i'], e['j']): e for e in self.stats[F]['pairs']} for F in ('cls', 'rob', 'boot')}

    def resolve(self, F: str, kind: str, i: int = 0, j: int = 0):
        """-> (status, value): status 'ok' (value = Fraction|float|object), 'undef' (no figure is
        defined: compare nothing), 'sentinel' (defined by the formula, but the library documents
        a whole-matrix sentinel: excluded), 'none' (the quantity is absent: the cell must be blank)."""
        raw, st = self.raw, self.stats
        if F == '-':
            if kind == 'value':
                return 'ok', Fraction(*raw['theta'][i - 1])
            if kind == 'active':
                return 'ok', Fraction(1 if raw['active'][i - 1] else 0)
            if kind.startswith('pass:'):
                v = PASS[kind[5:]]
                if kind == 'pass:drawtypes':
                    v = [f'{a}: {b}' for a, b in v.items()]
                return 'obj', v
            o = st['gen'][kind]
            return ('ok', ev(o['v'])) if o['def'] else ('none', None)
        S = st[F]
        if not S['ex']:
            return 'none', None
        if kind in ('se', 't', 'p', 't2'):
            o = S[kind][i - 1]
            return ('ok', ev(o['v'])) if o['def'] else ('undef', None)
        if kind == 'covij':
            return 'ok', ev(S['cov'][i - 1][j - 1])
        e = self._pairs[F][(i, j)]
        if kind in ('cov', 'pvar'):
            return 'ok', ev(e[kind])
        o = e[kind]
        if not o['def']:
            return 'undef', None
        if kind in ('corr', 'corr2') and not S['allpos']:
            return 'sentinel', None
        return 'ok', ev(o['v'])


class Cmp:
    """Collects comparisons of one outcome."""

    def __init__(self, exp: Expected):
        self.exp = exp
        self.n = 0
        self.skipped = {'undef': 0, 'sentinel': 0}
        self.mismatches: list[dict] = []

    def bad(self, key, **detail):
        self.mismatches.append(dict(key=key, **detail))

    def value(self, key, got, status, want, **ctx):
        if status in ('undef', 'sentinel'):
            self.skipped[status] += 1
            return
        self.n += 1
        if status == 'none':
            if not is_blank(got):
                self.bad(key, got=repr(got), want='(absent)', **ctx)
            return
        if status == 'obj':
            if got != want:
                self.bad(key, got=repr(got), want=repr(want), **ctx)
            return
        if is_blank(got) or not close(got, want):
            self.bad(key, got=repr(got), want=float(want), want_exact=str(want) if isinstance(want, Fraction) else None, **ctx)

    def ref(self, key, got, exp: Expected, F, kind, i=0, j=0, **ctx):
        status, want = exp.resolve(F, kind, i, j)
        self.value(key, got, status, want, **ctx)

    def same(self, key, got, want, **ctx):
        self.n += 1
        if got != want:
            self.bad(key, got=repr(got), want=repr(want), **ctx)


ATTR = {'cls': ('stdErr', 'tTest', 'pValue'), 'rob': ('robust_stdErr', 'robust_tTest', 'robust_pValue'),
        'boot': ('bootstrap_stdErr', 'bootstrap_tTest', 'bootstrap_pValue')}
MAT = {'cls': ('varCovar', 'correlation'), 'rob': ('robust_varCovar', 'robust_correlation'),
       'boot': ('bootstrap_varCovar', 'bootstrap_correlation')}
GEN_ATTR = dict(LR0='likelihoodRatioTest', LRn='likelihoodRatioTestNull', rho2='rhoSquare', rho2n='rhoSquareNull',
                rhobar2='rhoBarSquare', rhobar2n='rhoBarSquareNull', AIC='akaike', BIC='bayesian',
                gnorm='gradientNorm', K='nparam', N='sampleSize', L='logLike', L0='initLogLike', Ln='nullLogLike',
                nobs='numberOfObservations', excl='excludedData')
SECOND = {'cov': 0, 'corr': 1, 'tt': 2, 'pp': 3}
FAM_OFFSET = {'cls': 0, 'rob': 4, 'boot': 8}


def compare_stats(c: Cmp, res):
    """every field that _calculate_stats computes (eigen-structure excepted)."""
    exp = c.exp
    raw, d = exp.raw, res.data
    K = raw['K']
    names = raw['names']
    for kind, attr in GEN_ATTR.items():
        c.ref(f'stats:{attr}', getattr(d, attr, None), exp, '-', kind)
    for F in ('cls', 'rob', 'boot'):
        S = exp.stats[F]
        vc_attr, corr_attr = MAT[F]
        if not S['ex']:
            c.same(f'stats:{vc_attr}:present', hasattr(d, vc_attr), False)
            for i in range(K):
                for a in ATTR[F]:
                    c.value(f'stats:{a}', getattr(d.betas[i], a), 'none', None, parameter=names[i])
            continue
        vc = getattr(d, vc_attr)
        corr = getattr(d, corr_attr)
        c.same(f'stats:{vc_attr}:shape', tuple(vc.shape), (K, K))
        for i in range(1, K + 1):
            for j in range(1, K + 1):
                c.ref(f'stats:{vc_attr}', vc[i - 1, j - 1], exp, F, 'covij', i, j, entry=[i, j])
            for kind, a in zip(('se', 't', 'p'), ATTR[F]):
                c.ref(f'stats:{a}', getattr(d.betas[i - 1], a), exp, F, kind, i, parameter=names[i - 1])
            st, t2 = exp.resolve(F, 't2', i)
            got_t = getattr(d.betas[i - 1], ATTR[F][1])
            c.value(f'stats:{ATTR[F][1]}^2', _sq(got_t) if st == 'ok' and got_t is not None else None, st, t2,
                    parameter=names[i - 1])
            if S['allpos']:
                c.value(f'stats:{corr_attr}:diagonal', corr[i - 1, i - 1], 'ok', Fraction(1), entry=[i, i])
        for (i, j), e in exp._pairs[F].items():
            for (a, b) in ((i, j), (j, i)):
                c.ref(f'stats:{corr_attr}', corr[a - 1, b - 1], exp, F, 'corr', i, j, entry=[a, b])
            st, c2 = exp.resolve(F, 'corr2', i, j)
            c.value(f'stats:{corr_attr}^2', _sq(corr[i - 1, j - 1]) if st == 'ok' else None, st, c2, entry=[i, j])
            row = d.secondOrderTable.get((names[i - 1], names[j - 1]))
            if row is None:
                c.bad('stats:secondOrderTable:key', got=list(map(list, d.secondOrderTable.keys())), want=[names[i - 1], names[j - 1]])
                continue
            for kind, k in SECOND.items():
                c.ref(f'stats:secondOrderTable:{F}.{kind}', row[FAM_OFFSET[F] + k], exp, F, kind, i, j, pair=[names[i - 1], names[j - 1]])
            st, pv = exp.resolve(F, 'pvar', i, j)
            tt_st, _ = exp.resolve(F, 'tt', i, j)
            if tt_st == 'ok' and row[FAM_OFFSET[F] + 2] != 0:
                # t = (theta_i - theta_j) / sqrt(var_i + var_j - 2 cov): the variance the library used
                dth = float(Fraction(*raw['theta'][i - 1]) - Fraction(*raw['theta'][j - 1]))
                c.value(f'stats:secondOrderTable:{F}.pairwise_variance', _sq(dth / row[FAM_OFFSET[F] + 2]), st, pv,
                        pair=[names[i - 1], names[j - 1]])
    want_len = 12 if exp.stats['boot']['ex'] else 8
    for k, row in d.secondOrderTable.items():
        c.same('stats:secondOrderTable:row_length', len(row), want_len, pair=list(k))
    c.same('stats:secondOrderTable:rows', len(d.secondOrderTable), K * (K - 1) // 2)


def compare_frame(c: Cmp, key: str, df, table: dict, exp: Expected):
    # which labels exist is part of the property, their order is not
    c.same(f'{key}:columns', sorted(str(x) for x in df.columns), sorted(table['cols']))
    c.same(f'{key}:rows', sorted(str(x) for x in df.index), sorted(table['rows']))
    have_cols, have_rows = set(df.columns), set(df.index)
    for r, col, F, kind, i, j in table['cells']:
        if r not in have_rows or col not in have_cols:
            continue
        c.ref(f'{key}:{col if kind != "covij" else "entry"}', df.at[r, col], exp, F, kind, i, j, row=r, column=col)


def compare_tables(c: Cmp, res):
    exp = c.exp
    T = exp.rec['tables']
    compare_frame(c, 'get_estimated_parameters(only_robust=False)', res.get_estimated_parameters(only_robust=False), T['est_full'], exp)
    compare_frame(c, 'get_estimated_parameters(only_robust=True)', res.get_estimated_parameters(only_robust=True), T['est_robust'], exp)
    compare_frame(c, 'get_estimated_parameters()', res.get_estimated_parameters(), T['est_robust'], exp)
    compare_frame(c, 'get_correlation_results', res.get_correlation_results(), T['corr'], exp)
    if exp.raw['K'] == 3:  # restricted to a subset of the parameters
        sub = [exp.raw['names'][0], exp.raw['names'][2]]
        label = f'{sub[1]}-{sub[0]}'
        t = dict(cols=T['corr']['cols'], rows=[label], cells=[x for x in T['corr']['cells'] if x[0] == label])
        compare_frame(c, 'get_correlation_results(subset)', res.get_correlation_results(subset=sub), t, exp)
        # a subset is a SET of names: listing it in another order gives the same rows
        compare_frame(c, 'get_correlation_results(subset listed in reverse)', res.get_correlation_results(subset=sub[::-1]), t, exp)
    if exp.raw['K'] >= 2:
        compare_frame(c, 'get_correlation_results(all names listed in reverse)', res.get_correlation_results(subset=list(exp.raw['names'])[::-1]), T['corr'], exp)
    g = res.get_general_statistics()
    c.same('get_general_statistics:labels', sorted(g.keys()), sorted(lab for lab, _ in T['general']))
    for lab, kind in T['general']:
        if lab in g:
            c.ref(f'get_general_statistics:{lab}', g[lab][0], exp, '-', kind)
    for F, fn in (('cls', res.get_var_covar), ('rob', res.get_robust_var_covar), ('boot', res.get_bootstrap_var_covar)):
        t = T['vc'][F]
        df = fn()
        if not t['ex']:
            c.same(f'{fn.__name__}:absent', df is None, True)
            continue
        if df is None:
            c.bad(f'{fn.__name__}:absent', got=None, want='a matrix')
            continue
        compare_frame(c, fn.__name__, df, t, exp)


def _fmt_ok(token: str, want) -> bool:
    w = float(want)
    if f'{w:.3g}' == token:
        return True
    try:
        g = float(token)
    except ValueError:
        return False
    return abs(g - w) <= 6e-3 * max(abs(w), 1e-300)


def compare_compiled(c: Cmp, results: dict, exps: dict):
    """results: id -> bioResults; exps: id -> Expected (the current model and the companions)."""
    from biogeme.results import compile_estimation_results

    cur = c.exp
    for v, T in enumerate(cur.rec['compiled']['tables']):
        ids = T['cols']
        # each behaviour prints the column of its own model; the companions' columns come from theirs
        cells = list(T['cells'])
        for i in ids:
            if i != cur.raw['id']:
                Tc = exps[i].rec['compiled']['tables'][v]
                assert (Tc['formatted'], Tc['std'], Tc['ttest']) == (T['formatted'], T['std'], T['ttest'])
                cells += Tc['cells']
        assert {col for _, col, _ in cells} == set(ids), 'a model without expected cells'
        T = dict(T, cells=cells)
        stats_labels = []
        for r, col, parts in T['cells']:
            if parts[0][2] not in ('value', 'se', 't') and r not in stats_labels:
                stats_labels.append(r)
        key = f"compile_estimation_results(formatted={T['formatted']}, stderr={T['std']}, ttest={T['ttest']})"
        df, conf = compile_estimation_results(
            {i: results[i] for i in ids}, statistics=tuple(stats_labels), include_parameter_estimates=True,
            include_robust_stderr=T['std'], include_robust_ttest=T['ttest'], formatted=T['formatted'])
        c.same(f'{key}:columns', sorted(str(x) for x in df.columns), sorted(ids))
        c.same(f'{key}:configurations', dict(conf), {i: i for i in ids})
        want_rows = []
        for r, col, parts in T['cells']:
            if r not in want_rows:
                want_rows.append(r)
        c.same(f'{key}:rows', sorted(map(str, df.index)), sorted(want_rows))
        filled = set()
        for r, col, parts in T['cells']:
            if r not in df.index or col not in df.columns:
                continue
            filled.add((r, col))
            got = df.at[r, col]
            e = exps[col]  # CompileNamed (checked by TLC): the parts of a cell belong to the model of its column
            is_stat = parts[0][2] not in ('value', 'se', 't')
            what = 'statistic' if is_stat else 'row ' + (r[r.index(' ('):] if ' (' in r else 'name')
            if not T['formatted'] or is_stat:
                m, F, kind, i = parts[0]
                c.ref(f'{key}:{r if is_stat else what}', got, e, F, kind, i, row=r, model=col)
                continue
            tokens = str(got).split()
            c.n += 1
            if len(tokens) != len(parts):
                c.bad(f'{key}:{what}:shape', got=str(got), want=f'{len(parts)} figures', row=r, model=col)
                continue
            for k, (tok, (m, F, kind, i)) in enumerate(zip(tokens, parts)):
                if k > 0:
                    if not (tok.startswith('(') and tok.endswith(')')):
                        c.bad(f'{key}:{what}:parentheses', got=str(got), row=r, model=col)
                        continue
                    tok = tok[1:-1]
                st, want = e.resolve(F, kind, i)
                if st != 'ok':
                    c.skipped['undef'] += 1
                    continue
                c.n += 1
                if not _fmt_ok(tok, want):
                    c.bad(f'{key}:{what}:{kind}', got=str(got), figure=k, want=f'{float(want):.3g}', row=r, model=col)
        for r in df.index:
            for col in df.columns:
                if (r, col) not in filled:
                    c.n += 1
                    if not is_blank(df.at[r, col]):
                        c.bad(f'{key}:cell of a model without that row', got=repr(df.at[r, col]), want="''", row=r, model=col)


def compare_lrt(c: Cmp, results: dict, exps: dict):
    from biogeme.tools.likelihood_ratio import likelihood_ratio_test

    cur = c.exp
    me = results[cur.raw['id']]
    for e in cur.rec['compiled']['lrt']:
        if not e['def']:
            c.skipped['undef'] += 1
            continue
        other = results[e['other']]
        alpha = float(Fraction(*e['alpha']))
        pair_a = (float(Fraction(*cur.raw['L'])), cur.raw['K'])
        o_raw = exps[e['other']].raw
        pair_b = (float(Fraction(*o_raw['L'])), o_raw['K'])
        calls = [
            ('bioResults.likelihood_ratio_test', 'self, other', lambda: me.likelihood_ratio_test(other, alpha)),
            ('bioResults.likelihood_ratio_test', 'other, self', lambda: other.likelihood_ratio_test(me, alpha)),
            ('tools.likelihood_ratio_test', 'self, other', lambda: likelihood_ratio_test(pair_a, pair_b, alpha)),
            ('tools.likelihood_ratio_test', 'other, self', lambda: likelihood_ratio_test(pair_b, pair_a, alpha)),
        ]
        tie = (not e['refused']) and e['stat'][0] == 0
        for name, order, call in calls:
            c.n += 1
            ctx = dict(order=order, models=[list(pair_a), list(pair_b)], alpha=alpha, tie=tie,
                       self_has_more_parameters=pair_a[1] > pair_b[1])
            try:
                out = call()
                err = None
            except Exception as ex:  # noqa
                out, err = None, type(ex).__name__
            if e['refused']:
                if err != 'BiogemeError':
                    c.bad(f'{name}:refusal', got=err or repr(tuple(out)), want='BiogemeError', **ctx)
                continue
            if err is not None:
                c.bad(f'{name}:raises', got=err, want=dict(statistic=float(ev(e['stat']))), **ctx)
                continue
            stat, thr = ev(e['stat']), ev(e['threshold'])
            if not close(out.statistic, stat):
                c.bad(f'{name}:statistic', got=out.statistic, want=float(stat), **ctx)
            if not close(out.threshold, thr):
                c.bad(f'{name}:threshold', got=out.threshold, want=thr, df=e['df'], **ctx)
            rejected = 'cannot' not in out.message
            if rejected != (float(stat) > thr):
                c.bad(f'{name}:decision', got=out.message, want='reject' if float(stat) > thr else 'cannot reject', **ctx)


# ------------------------------------------------------------------ one outcome
_COMP: dict = {}


def init(companions: list[dict]):
    """companions: the emitted records of the companion models (by id), shared by every replay."""
    _COMP.clear()
    for rec in companions:
        _COMP[rec['raw']['id']] = rec


_BUILT: dict = {}


def _companion_results():
    if not _BUILT:
        for i, rec in _COMP.items():
            _BUILT[i] = build(rec['raw'])
    return _BUILT


class _InvWithPinvFallback:
    """stands for the module `linalg` inside biogeme.results: `pinv` inverts, and computes the
    pseudo-inverse only when the inversion raises LinAlgError (everything else is scipy.linalg)"""

    def __getattr__(self, name):
        from scipy import linalg

        return getattr(linalg, name)

    @staticmethod
    def pinv(a, *args, **kw):
        from scipy import linalg

        try:
            return linalg.inv(a)
        except linalg.LinAlgError:
            return linalg.pinv(a, *args, **kw)


def build_patched(raw: dict, patch: str):
    """the real object from a PATCHED library (negative controls; call in a forked child only):
    'inv_fallback': _calculate_stats inverts the Hessian, pseudo-inverse only as fallback on LinAlgError;
    'bic_nobs':     _calculate_stats uses the number of observations where it reads the sample size."""
    import biogeme.results as br

    if patch == 'inv_fallback':
        saved = br.linalg
        br.linalg = _InvWithPinvFallback()
        try:
            return build(raw)
        finally:
            br.linalg = saved
    if patch == 'bic_nobs':
        original = br.bioResults._calculate_stats

        def patched(self):
            d = self.data
            if d is None:
                return original(self)
            keep = d.sampleSize
            d.sampleSize = d.numberOfObservations
            try:
                return original(self)
            finally:
                d.sampleSize = keep

        br.bioResults._calculate_stats = patched
        try:
            return build(raw)
        finally:
            br.bioResults._calculate_stats = original
    raise ValueError(patch)


def replay_inv_fallback(rec: dict) -> dict:
    return replay(rec, 'inv_fallback')


def replay(rec: dict, tamper: str | None = None) -> dict:
    """-> dict(n=comparisons, skipped=..., mismatches=[...]).  `tamper` corrupts one OBSERVED field
    of the real object before the comparison, or patches the library (negative controls)."""
    exp = Expected(rec)
    res = build_patched(rec['raw'], tamper) if tamper in ('inv_fallback', 'bic_nobs') else build(rec['raw'])
    if tamper == 'akaike':
        res.data.akaike += 1.0
    elif tamper == 'robust_stdErr':
        res.data.betas[0].robust_stdErr *= 2.0
    results = dict(_companion_results())
    exps = {i: Expected(r) for i, r in _COMP.items()}
    results[rec['raw']['id']] = res
    exps[rec['raw']['id']] = exp
    c = Cmp(exp)
    compare_stats(c, res)
    compare_tables(c, res)
    compare_compiled(c, results, exps)
    compare_lrt(c, results, exps)
    return dict(n=c.n, skipped=c.skipped, mismatches=c.mismatches, digest=_digest(exp, res),
                rational=is_rational_family(rec['raw']), image=float_image(rec['raw']), cov_dev=_cov_deviation(exp, res))


def _cov_deviation(exp: Expected, res) -> float:
    """largest deviation |observed - exact| / max(1, |exact|) over the entries of the classical and the
    robust covariance (measurement for the evidence: how far the tolerance is from what is observed)"""
    worst = 0.0
    K = exp.raw['K']
    for F in ('cls', 'rob'):
        m = getattr(res.data, MAT[F][0])
        for i in range(K):
            for j in range(K):
                w = float(ev(exp.stats[F]['cov'][i][j]))
                g = float(m[i, j])
                dev = abs(g - w) / max(1.0, abs(w)) if g == g else float('inf')
                worst = max(worst, dev)
    return worst


def _digest(exp: Expected, res) -> dict:
    """a few (expected, observed) pairs for the evidence file"""
    d, out = res.data, {}

    def put(label, got, F, kind, i=0, j=0):
        st, want = exp.resolve(F, kind, i, j)
        if st == 'ok':
            out[label] = dict(expected=float(want), observed=None if got is None else float(got))

    put('AIC', d.akaike, '-', 'AIC')
    put('BIC', d.bayesian, '-', 'BIC')
    put('rho-square-bar (init)', d.rhoBarSquare, '-', 'rhobar2')
    b = d.betas[0]
    put(f'{b.name}: robust std err', b.robust_stdErr, 'rob', 'se', 1)
    put(f'{b.name}: bootstrap t-test', b.bootstrap_tTest, 'boot', 't', 1)
    put(f'{b.name}: bootstrap p-value', b.bootstrap_pValue, 'boot', 'p', 1)
    if exp.raw['K'] >= 2:
        put('robust covariance (2,1)', d.robust_varCovar[1, 0], 'rob', 'cov', 2, 1)
        put('classical correlation (2,1)', d.correlation[1, 0], 'cls', 'corr', 2, 1)
    return out


def describe(raw: dict) -> str:
    q = lambda t: str(Fraction(*t))  # noqa: E731
    o = lambda x: q(x['v']) if x['ex'] else '-'  # noqa: E731
    boot = f"{len(raw['boot']['r'])} replications {raw['boot']['r']}" if raw['boot']['ex'] else 'no bootstrap'
    sc = lambda key: '' if tuple(raw.get(key, (1, 1))) == (1, 1) else f"{q(raw[key])} * "  # noqa: E731
    nobs = '' if raw['nobs'] == raw['N'] else f" observations={raw['nobs']}"
    return (f"K={raw['K']} N={raw['N']}{nobs} L={q(raw['L'])} L0={o(raw['L0'])} Lnull={o(raw['Ln'])} "
            f"theta={[q(t) for t in raw['theta']]} H={sc('hs')}{raw['H']} BHHH={sc('bs')}{raw['B']} {boot}")
