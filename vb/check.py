"""Common frame of every property check: arguments, verdicts, known findings,
evidence file, exit codes (0 held / 1 violation / 2 machinery failure)."""

from __future__ import annotations

import argparse
import glob
import json
import os
import sys
import time
import traceback

from .tlc import MachineryError, TlcResult

VERIF = os.path.dirname(os.path.dirname(os.path.abspath(__file__)))
# runs against a modified copy of the repository (tools/seedtest.py) must not overwrite the evidence of the real tree
EVIDENCE = os.environ.get('VERIF_EVIDENCE_DIR') or os.path.join(VERIF, 'evidence')
REPLAY = os.path.join(EVIDENCE, 'replay')
FINDINGS_FILE = os.path.join(VERIF, 'known_findings.json')


def _jsonable(x):
    import fractions

    try:
        import numpy as np
    except Exception:  # pragma: no cover
        np = None
    if isinstance(x, dict):
        return {str(k): _jsonable(v) for k, v in x.items()}
    if isinstance(x, (list, tuple, set, frozenset)):
        return [_jsonable(v) for v in x]
    if isinstance(x, fractions.Fraction):
        return str(x)
    if np is not None:
        if isinstance(x, np.ndarray):
            return _jsonable(x.tolist())
        if isinstance(x, np.generic):
            return _jsonable(x.item())
    if isinstance(x, float):
        if x != x or x in (float('inf'), float('-inf')):
            return repr(x)
        return x
    if isinstance(x, (int, str, bool)) or x is None:
        return x
    return repr(x)


class Check:
    def __init__(self, property_id: str, level: str = 'model_checking'):
        ap = argparse.ArgumentParser()
        ap.add_argument('--tier', default=os.environ.get('VERIF_TIER') or 'quick', choices=['quick', 'thorough'])
        ap.add_argument('--seed', type=int, default=None)
        ap.add_argument('--replay', default=None)
        args, _ = ap.parse_known_args()
        if os.environ.get('VERIF_TIER') in ('quick', 'thorough'):
            args.tier = os.environ['VERIF_TIER']
        self.pid = property_id
        self.level = level
        self.tier = args.tier
        seed = args.seed
        if seed is None:
            try:
                seed = int(os.environ.get('VERIF_SEED', '20261003'))
            except ValueError:
                seed = 20261003
        self.seed = seed % (2**31 - 1)
        self.replay_path = args.replay
        self.t0 = time.time()
        self.violations: list[dict] = []
        self.known_hits: dict[str, int] = {}
        self.known_examples: dict[str, dict] = {}
        self.states = 0
        self.transitions = 0
        self.tlc_runs: list[dict] = []
        self.traces = 0
        self.replayed = 0
        self.evaluations = 0
        self.distinct: set = set()
        self.samples: list = []
        self.negative_controls: list[dict] = []
        self.assumptions: list[str] = []
        self.uncovered: list[str] = []
        self.extra: dict = {}
        self.rule = ''
        docs = [FINDINGS_FILE] + sorted(glob.glob(os.path.join(VERIF, 'known_findings.d', '*.json')))
        self.findings = []
        for path in docs:
            with open(path) as f:
                doc = json.load(f)
            self.findings += [x for x in doc.get('findings', []) if x['property'] == property_id]
        os.makedirs(REPLAY, exist_ok=True)
        for old in glob.glob(os.path.join(REPLAY, f'{property_id}-*.json')):   # replay files of earlier runs
            try:
                os.unlink(old)
            except OSError:
                pass

    # ---------------------------------------------------------------- TLC bookkeeping
    def add_tlc(self, name: str, res: TlcResult, *, expect_ok: bool = True):
        self.tlc_runs.append(
            dict(run=name, states=res.states, generated=res.generated, depth=res.depth, wall_s=round(res.wall_s, 2),
                 emitted=len(res.emitted), violated=res.violated)
        )
        self.states += res.states
        self.transitions += res.transitions
        if res.error:
            raise MachineryError(f'TLC run {name} failed: {res.error[:2000]}')
        if expect_ok and res.violated:
            self.violation(
                f'model:{name}',
                dict(what=f'TLC: {res.violated} violated in {name}', counterexample=res.counterexample),
            )

    # ---------------------------------------------------------------- verdicts
    def sample(self, obj, limit: int = 4):
        if len(self.samples) < limit:
            self.samples.append(_jsonable(obj))

    def count(self, key=None, n: int = 1):
        self.evaluations += n
        if key is not None:
            self.distinct.add(key)

    def violation(self, key: str, detail: dict, match: dict | None = None):
        """Report a violation.  `match` holds the facts known-finding matchers look at."""
        m = dict(match or {})
        for fnd in self.findings:
            if fnd.get('status', 'open') != 'open':
                continue
            if _matches(fnd.get('match', {}), m):
                self.known_hits[fnd['id']] = self.known_hits.get(fnd['id'], 0) + 1
                self.known_examples.setdefault(fnd['id'], _jsonable(detail))
                return False
        self.violations.append(dict(key=key, detail=_jsonable(detail), match=_jsonable(m)))
        return True

    def control(self, name: str, detected: bool, note: str = ''):
        """Negative control: a corruption that the machinery must detect."""
        self.negative_controls.append(dict(control=name, detected=bool(detected), note=note))

    # ---------------------------------------------------------------- finish
    def finish(self):
        wall = time.time() - self.t0
        bad_controls = [c for c in self.negative_controls if not c['detected']]
        cov = dict(
            states=max(self.states, 0),
            transitions=max(self.transitions, 0),
            traces_validated_against_impl=self.traces,
            replayed_behaviours=self.replayed,
            evaluations=self.evaluations,
            distinct_nontrivial=len(self.distinct),
            rule=self.rule,
            samples=self.samples or ['(no sample recorded)'],
            tlc_runs=self.tlc_runs,
            negative_controls=self.negative_controls,
            uncovered_clauses=self.uncovered,
            known_findings_hit=self.known_hits,
            known_findings_examples=self.known_examples,
        )
        cov.update(self.extra)
        ev = dict(
            property_id=self.pid,
            tier=self.tier,
            seed=self.seed,
            level=self.level,
            coverage=_jsonable(cov),
            assumptions=self.assumptions,
            wall_s=round(wall, 2),
            violations=len(self.violations),
        )
        os.makedirs(EVIDENCE, exist_ok=True)
        with open(os.path.join(EVIDENCE, f'{self.pid}.json'), 'w') as f:
            json.dump(ev, f, indent=1, sort_keys=False)
            f.write('\n')
        for fnd in self.findings:
            if fnd.get('status', 'open') == 'open' and fnd['id'] in self.known_hits:
                print(f"KNOWN-FINDING: property={self.pid} {fnd['id']}: {fnd['what']} (hit {self.known_hits[fnd['id']]}x)")
        if bad_controls and not self.violations:
            print(f'MACHINERY: negative controls not detected: {bad_controls}')
            sys.exit(2)
        if self.violations:
            if bad_controls:   # a changed library can also defeat a control; the violations are what matters
                print(f'note: negative controls not detected in this run: {[c["control"] for c in bad_controls]}')
            shown = 0
            groups: dict[str, list] = {}
            for v in self.violations:
                groups.setdefault(v['key'], []).append(v)
            for n, (key, vs) in enumerate(groups.items()):
                path = os.path.join(REPLAY, f'{self.pid}-{n}.json')
                with open(path, 'w') as f:
                    json.dump(dict(property=self.pid, key=key, count=len(vs), cases=vs[:20]), f, indent=1)
                    f.write('\n')
                print(f'VIOLATION property={self.pid} replay={path}')
                print(f'  {key}: {json.dumps(vs[0]["detail"])[:600]}')
                shown += 1
                if shown >= 25:
                    break
            sys.exit(1)
        print(
            f'OK property={self.pid} tier={self.tier} states={self.states} transitions={self.transitions} '
            f'replayed={self.replayed} traces={self.traces} evaluations={self.evaluations} wall={wall:.1f}s'
        )
        sys.exit(0)


def _matches(pattern: dict, facts: dict) -> bool:
    """A finding matches when every key of its pattern is present in the facts with an
    equal value (or, for a list pattern value, a member of it)."""
    if not pattern:
        return False
    for k, v in pattern.items():
        if k == 'has_feature':
            if v not in facts.get('features', []):
                return False
            continue
        if k not in facts:
            return False
        fv = facts[k]
        if isinstance(v, list):
            if fv not in v:
                return False
        elif fv != v:
            return False
    return True


def main(property_id: str, body, level: str = 'model_checking'):
    """Run `body(check)`; convert machinery problems into exit code 2."""
    try:
        chk = Check(property_id, level)
        body(chk)
        chk.finish()
    except SystemExit:
        raise
    except MachineryError as e:
        print(f'MACHINERY: {e}')
        sys.exit(2)
    except Exception:
        traceback.print_exc()
        print('MACHINERY: unexpected exception in the check itself')
        sys.exit(2)
