"""Recording whole sessions of an estimation object at the engine boundary (construction, likelihood,
derivatives, simulation, estimation with bootstrap, validation) and rendering them for Engine.tla."""

from __future__ import annotations

import json
import os
import shutil

from . import boundary, tlc


def session(panel: bool, draws: bool, weighted: bool, seed: int = 1):
    """Run one session of the real library; -> list of traces (one per engine object)."""
    import numpy as np
    import pandas as pd
    import biogeme.biogeme as bio
    import biogeme.database as db
    import biogeme.expressions as ex

    np.random.seed(seed)
    n = 8
    ids = [5, 5, 2, 2, 2, 9, 7, 7]
    df = pd.DataFrame({'rid': [float(100 + k) for k in range(n)], 'id': [float(i) for i in ids],
                       'x': [1.0, 2.0, 0.5, 1.5, 2.5, 1.0, 3.0, 2.0], 'w': [1.0, 2.0, 1.0, 0.5, 1.5, 1.0, 1.0, 2.0]},
                      index=[10 + 3 * k for k in range(n)])
    d = db.Database('eng', df)
    if panel:
        d.panel('id')
    b = ex.Beta('b', 0.5, None, None, 0)
    x = ex.Variable('x')
    if panel:
        core = ex.exp(-0.1 * (b - x) * (b - x) + (0.001 * ex.bioDraws('xi', 'NORMAL') if draws else 0))
        ll = ex.log(ex.MonteCarlo(ex.PanelLikelihoodTrajectory(core))) if draws else ex.log(ex.PanelLikelihoodTrajectory(core))
    else:
        core = -(b - x) * (b - x)
        ll = ex.log(ex.MonteCarlo(ex.exp(core + 0.001 * ex.bioDraws('xi', 'NORMAL')))) if draws else core
    formulas = {'log_like': ll}
    if weighted:
        formulas['weight'] = ex.Variable('w')
    boundary.install()
    boundary.reset()
    bg = bio.BIOGEME(d, formulas, number_of_draws=4, bootstrap_samples=3, generate_html=False, generate_pickle=False, save_iterations=False, seed=seed)
    bg.modelName = 'eng'
    bg.calculate_likelihood([0.7], scaled=False)
    bg.calculate_likelihood_and_derivatives([0.7], scaled=True, hessian=True, bhhh=True)
    bg.simulate({'b': 0.3})
    res = bg.estimate(run_bootstrap=True)
    if not panel:
        folds = d.split(slices=2)
        bg.validate(res, folds)
    log = list(boundary.LOG)
    boundary.reset()
    objs = {}
    for c in log:
        if c['cls'] == 'pyBiogeme':
            objs.setdefault(c['obj'], []).append(c)
    traces = []
    for k, (oid, calls) in enumerate(sorted(objs.items())):
        main = k == 0
        events = []
        nunits = None
        for c in calls:
            a = c['args']
            e = dict(call=c['call'])
            if c['call'] == '__init__':
                e['nfree'] = int(a[0])
            elif c['call'] == 'setPanel':
                e['flag'] = bool(a[0])
            elif c['call'] == 'setDataMap':
                e['map'] = [[int(r[0]), int(r[1])] for r in a[0]['rows']]
                if nunits is None and panel:
                    nunits = len(e['map'])
            elif c['call'] == 'setData':
                cols = a[0]['columns']
                ridx = cols.index('rid')
                e['nrows'] = len(a[0]['rows'])
                e['rowids'] = [int(r[ridx]) for r in a[0]['rows']]
                if nunits is None and not panel:
                    nunits = e['nrows']
            elif c['call'] == 'setDraws':
                e['nunits'] = len(a[0])
            elif c['call'] == 'setExpressions':
                e['threads'] = int(a[1])
                e['weighted'] = len(a) == 3
            elif c['call'] == 'calculateLikelihood':
                e['nx'] = len(a[0])
            elif c['call'] == 'calculateLikelihoodAndDerivatives':
                e['nx'] = len(a[0])
                e['literals'] = [int(v) for v in list(a[2])]
            elif c['call'] == 'simulateSeveralFormulas':
                e['nformulas'] = len(a[0])
                e['nx'] = len(a[1])
                e['nrows'] = len(a[3]['rows'])
                e['nunits'] = int(a[5])
            events.append(e)
        traces.append(dict(tid=f'panel={panel},draws={draws},weighted={weighted}/object{k}', panel=bool(panel and True), needs_draws=bool(draws),
                           weighted=bool(weighted and main), nunits=int(nunits or 0), nformulas=(len(formulas) if main else 1), events=events))
    return traces


def validate(traces, timeout=600):
    work = tlc.scratch_dir('vb-eng-')
    try:
        path = os.path.join(work, 'traces.json')
        json.dump(traces, open(path, 'w'))
        res = tlc.run('Engine', 'SPECIFICATION TraceSpec\nINVARIANT Progress\n', workers=1, env={'TRACE_FILE': path}, timeout=timeout)
        return {o['tid']: o['verdict'] for o in res.emitted if isinstance(o, dict) and 'tid' in o}, res
    finally:
        shutil.rmtree(work, ignore_errors=True)
