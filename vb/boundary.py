"""Recording what crosses the Python <-> engine boundary, with no change to /repo:
`cythonbiogeme.cythonbiogeme.pyBiogeme` and `pyEvaluateOneExpression` are replaced by
forwarding proxies that log every call.  Also an independent parser of signature lines."""

from __future__ import annotations

import re

import numpy as np

LOG: list = []
_installed = False
_orig = {}


def _conv(x):
    try:
        import pandas as pd
    except Exception:  # pragma: no cover
        pd = None
    if pd is not None and isinstance(x, pd.DataFrame):
        return dict(columns=[str(c) for c in x.columns], rows=x.to_numpy(dtype=float).tolist(), index=[_conv(i) for i in x.index])
    if isinstance(x, np.ndarray):
        return x.tolist()
    if isinstance(x, np.generic):
        return x.item()
    if isinstance(x, bytes):
        return x.decode()
    if isinstance(x, (list, tuple)):
        return [_conv(v) for v in x]
    if isinstance(x, dict):
        return {str(k): _conv(v) for k, v in x.items()}
    return x


def _make_proxy(cls_name, real_cls):
    class Proxy:
        def __init__(self, *a, **k):
            object.__setattr__(self, '_real', real_cls(*a, **k))
            object.__setattr__(self, '_oid', len(LOG))
            LOG.append(dict(obj=self._oid, cls=cls_name, call='__init__', args=_conv(a), kwargs=_conv(k)))

        def __getattr__(self, name):
            target = getattr(self._real, name)
            if not callable(target):
                return target

            def fwd(*a, **k):
                entry = dict(obj=self._oid, cls=cls_name, call=name, args=_conv(a), kwargs=_conv(k))
                LOG.append(entry)
                try:
                    out = target(*a, **k)
                except BaseException as e:
                    entry['raised'] = f'{type(e).__name__}: {e}'[:300]
                    raise
                entry['result'] = _conv(out)
                return out

            return fwd

    Proxy.__name__ = cls_name
    return Proxy


def install():
    """Install the proxies (idempotent).  Must run before biogeme modules bind the classes
    -- they access them as attributes of the module `ee`, so late installation works too."""
    global _installed
    if _installed:
        return
    import cythonbiogeme.cythonbiogeme as ee

    for name in ('pyBiogeme', 'pyEvaluateOneExpression'):
        _orig[name] = getattr(ee, name)
        setattr(ee, name, _make_proxy(name, _orig[name]))
    _installed = True


def uninstall():
    global _installed
    if not _installed:
        return
    import cythonbiogeme.cythonbiogeme as ee

    for name, cls in _orig.items():
        setattr(ee, name, cls)
    _installed = False


def reset():
    LOG.clear()


# ------------------------------------------------------------------ signature parser
_HEAD = re.compile(r'^<(?P<cls>[^>]+)>\{(?P<id>\d+)\}(?P<rest>.*)$', re.S)


class SignatureError(Exception):
    pass


def parse_line(line) -> dict:
    """One signature line -> dict(cls, id, kids=[ids], + per-class fields).  Written from the
    documented formats (DESIGN appendix B.1), not from the code that produces them."""
    if isinstance(line, bytes):
        line = line.decode()
    m = _HEAD.match(line)
    if not m:
        raise SignatureError(f'no header: {line!r}')
    cls, oid, rest = m.group('cls'), int(m.group('id')), m.group('rest')
    out = dict(cls=cls, id=oid, kids=[], raw=line)
    if cls == 'Numeric':
        out['value'] = float(rest[1:])
        return out
    if cls == 'Beta':
        mm = re.match(r'^"(?P<name>.*)"\[(?P<status>\d+)\],(?P<elem>-?\d+),(?P<kind>-?\d+)$', rest, re.S)
        if not mm:
            raise SignatureError(f'bad Beta line {line!r}')
        out.update(name=mm.group('name'), status=int(mm.group('status')), elem=int(mm.group('elem')), kind=int(mm.group('kind')))
        return out
    if cls in ('Variable', 'bioDraws', 'RandomVariable', 'DefineVariable'):
        mm = re.match(r'^"(?P<name>.*)",(?P<elem>-?\d+),(?P<kind>-?\d+)$', rest, re.S)
        if not mm:
            raise SignatureError(f'bad elementary line {line!r}')
        out.update(name=mm.group('name'), elem=int(mm.group('elem')), kind=int(mm.group('kind')))
        return out
    if cls == 'PowerConstant':
        parts = rest[1:].split(',')
        out['kids'] = [int(parts[0])]
        out['exponent'] = float(parts[1])
        return out
    if cls in ('Derive', 'Integrate'):
        parts = rest[1:].split(',')
        out['kids'] = [int(parts[0])]
        out['index'] = int(parts[1])
        return out
    mm = re.match(r'^\((?P<n>\d+)\)(?P<tail>.*)$', rest, re.S)
    if not mm:
        raise SignatureError(f'no arity: {line!r}')
    n = int(mm.group('n'))
    tail = mm.group('tail')
    parts = tail[1:].split(',') if tail else []
    out['n'] = n
    if cls == 'BelongsTo':
        out['kids'] = [int(parts[0])]
        out['set'] = [float(x) for x in parts[1:]]
        if len(out['set']) != n:
            raise SignatureError(f'BelongsTo arity {line!r}')
        return out
    if cls == 'Elem':
        out['kids'] = [int(parts[0])]
        out['keys'] = []
        rest_parts = parts[1:]
        if len(rest_parts) != 2 * n:
            raise SignatureError(f'Elem arity {line!r}')
        for j in range(n):
            out['keys'].append(int(rest_parts[2 * j]))
            out['kids'].append(int(rest_parts[2 * j + 1]))
        return out
    if cls == 'ConditionalSum':
        if len(parts) != 2 * n:
            raise SignatureError(f'ConditionalSum arity {line!r}')
        out['kids'] = [int(x) for x in parts]
        return out
    if cls == 'bioLinearUtility':
        if len(parts) != 6 * n:
            raise SignatureError(f'bioLinearUtility arity {line!r}')
        out['terms'] = []
        for j in range(n):
            b_id, b_elem, b_name, v_id, v_elem, v_name = parts[6 * j : 6 * j + 6]
            out['kids'] += [int(b_id), int(v_id)]
            out['terms'].append(dict(beta_id=int(b_id), beta_elem=int(b_elem), beta_name=b_name,
                                     var_id=int(v_id), var_elem=int(v_elem), var_name=v_name))
        return out
    if cls in ('_bioLogLogit', '_bioLogLogitFullChoiceSet', 'LogLogit'):
        if len(parts) != 1 + 3 * n:
            raise SignatureError(f'logit arity {line!r}')
        out['kids'] = [int(parts[0])]
        out['keys'] = []
        out['util'] = []
        out['av'] = []
        for j in range(n):
            out['keys'].append(int(parts[1 + 3 * j]))
            out['util'].append(int(parts[2 + 3 * j]))
            out['av'].append(int(parts[3 + 3 * j]))
            out['kids'] += [int(parts[2 + 3 * j]), int(parts[3 + 3 * j])]
        return out
    # generic operator
    if len(parts) != n:
        raise SignatureError(f'arity mismatch {line!r}')
    out['kids'] = [int(x) for x in parts]
    return out


def parse_signature(sig) -> list[dict]:
    return [parse_line(l) for l in sig]


def renumber(lines: list[dict]) -> list[dict]:
    """Python ids exceed TLC's integers: renumber 1..n by first occurrence."""
    ids = {}
    for l in lines:
        ids.setdefault(l['id'], len(ids) + 1)
    out = []
    for l in lines:
        m = dict(l)
        m['id'] = ids[l['id']]
        try:
            m['kids'] = [ids[k] for k in l['kids']]
        except KeyError as e:
            raise SignatureError(f'child {e} used before being defined in {l["raw"]!r}')
        for fld in ('util', 'av'):
            if fld in m:
                m[fld] = [ids[k] for k in l[fld]]
        if 'terms' in m:
            m['terms'] = [dict(t, beta_id=ids[t['beta_id']], var_id=ids[t['var_id']]) for t in l['terms']]
        out.append(m)
    return out
