"""Instances of the Catalog specification (specs/Catalog.tla): one description of a catalog
structure, rendered both as a TLA+ constants module and as real biogeme objects.

A structure is a small formula DAG whose "cat" nodes are catalogs; the same description is
(a) turned into the constants of Catalog.tla -- TLC then computes every expected observable
(configurations, identifiers, values, hand-written trees, operator results) -- and
(b) built from the real Catalog / Controller classes, or, for the helper generators
(`segmentation_catalogs`, `generic_alt_specific_catalogs`), obtained FROM the library and
compared with what the documentation says they produce (the description written here).
"""

from __future__ import annotations

from dataclasses import dataclass, field


def tla_name(s: str) -> str:
    return '<<' + ', '.join(str(ord(c)) for c in s) + '>>'


def dec(seq) -> str:
    return ''.join(chr(c) for c in seq)


@dataclass
class Struct:
    label: str
    cols: list = field(default_factory=lambda: [('x', [1, 2, 3]), ('y', [0, 1, 2])])
    ctrls: list = field(default_factory=list)  # dict(name, alts, implicit)
    nodes: list = field(default_factory=list)  # dict(op, kids, v, name, how)
    betas: list = field(default_factory=list)  # (name, value)
    helper: object = None  # callable() -> {catalog name: real Catalog} for helper-generated structures
    features: list = field(default_factory=list)

    # ------------------------------------------------------------------ description
    def ctrl(self, name: str, alts: list, implicit: bool = False) -> int:
        self.ctrls.append(dict(name=name, alts=list(alts), implicit=implicit))
        return len(self.ctrls)

    def _add(self, op, kids=(), v=0, name='', **kw) -> int:
        self.nodes.append(dict(op=op, kids=list(kids), v=v, name=name, **kw))
        return len(self.nodes)

    def num(self, v: int) -> int:
        return self._add('num', v=v)

    def var(self, name: str) -> int:
        return self._add('var', v=[c[0] for c in self.cols].index(name) + 1)

    def beta(self, name: str, val: int) -> int:
        for k, (n, v) in enumerate(self.betas):
            if n == name:
                assert v == val
                return self._add('beta', v=k + 1)
        self.betas.append((name, val))
        return self._add('beta', v=len(self.betas))

    def plus(self, a, b):
        return self._add('plus', [a, b])

    def minus(self, a, b):
        return self._add('minus', [a, b])

    def times(self, a, b):
        return self._add('times', [a, b])

    def eq(self, a, b):
        return self._add('eq', [a, b])

    def msum(self, kids):
        return self._add('sum', kids)

    def elem(self, key, branches):
        return self._add('elem', [key] + list(branches))

    def cat(self, name: str, ctrl: int, members: list, how: str = 'list', order: list | None = None) -> int:
        """`members` are given in the order of the controller's alternatives; `order` (positions in that
        list) is the order in which THE CATALOG lists them (default: the same order)."""
        alts = self.ctrls[ctrl - 1]['alts']
        assert len(members) == len(alts)
        order = list(range(len(alts))) if order is None else list(order)
        assert sorted(order) == list(range(len(alts)))
        return self._add('cat', [members[j] for j in order], v=ctrl, name=name, how=how, names=[alts[j] for j in order])

    @property
    def nconf(self) -> int:
        n = 1
        for c in self.ctrls:
            n *= len(c['alts'])
        return n

    @property
    def nrows(self) -> int:
        return len(self.cols[0][1])

    # ------------------------------------------------------------------ TLA+
    def module(self, name: str = 'CatalogGen', dec_sign: int = -1, sev_dec_sign: int = -1, csels: list | None = None) -> str:
        sign = {-1: '0 - 1', 1: '1'}
        ct = ',\n    '.join(
            f'[name |-> {tla_name(c["name"])}, alts |-> <<{", ".join(tla_name(a) for a in c["alts"])}>>]' for c in self.ctrls
        )
        nd = ',\n    '.join(
            f'[op |-> "{n["op"]}", kids |-> <<{", ".join(str(k) for k in n["kids"])}>>, v |-> {n["v"]}, name |-> {tla_name(n["name"])}, '
            f'names |-> <<{", ".join(tla_name(a) for a in n.get("names", []))}>>]'
            for n in self.nodes
        )
        cs = ', '.join('<<' + ', '.join(('0 - 1' if v < 0 else str(v)) for v in sel) + '>>' for sel in (csels or []))
        cl = ',\n    '.join(f'[name |-> {tla_name(n)}, vals |-> <<{", ".join(str(v) for v in vals)}>>]' for n, vals in self.cols)
        bt = ',\n    '.join(f'[name |-> {tla_name(n)}, val |-> {v}]' for n, v in self.betas)
        return f'''---- MODULE {name} ----
EXTENDS Catalog
G_Ctrls == <<
    {ct} >>
G_Form == <<
    {nd} >>
G_Cols == <<
    {cl} >>
G_Betas == << {bt} >>
G_DecSign == {sign[dec_sign]}
G_SevDecSign == {sign[sev_dec_sign]}
G_CSelSeq == << {cs} >>
====
'''

    def cfg(self, invariants: list, *, record: bool, max_len: int = 2, max_step: int = 5, max_iter: int = 8,
            first_setconf: bool = True, spec: str = 'Spec', conf_len: int = 0) -> str:
        inv = '\n'.join(f'INVARIANT {i}' for i in invariants)
        return f'''SPECIFICATION {spec}
CONSTANTS
 Label = "{self.label}"
 Ctrls <- G_Ctrls
 Form <- G_Form
 Cols <- G_Cols
 Betas <- G_Betas
 NRows = {self.nrows}
 MaxStep = {max_step}
 MaxLen = {max_len}
 Record = {"TRUE" if record else "FALSE"}
 FirstSetConf = {"TRUE" if first_setconf else "FALSE"}
 MaxIter = {max_iter}
 DecSign <- G_DecSign
 SevDecSign <- G_SevDecSign
 CSelSeq <- G_CSelSeq
 CMaxLen = {conf_len}
{inv}
'''


MODEL_INVARIANTS = ['Valid', 'CountInv', 'IdsUnique', 'IdCanonical', 'Sync', 'SyncPos', 'ValueAgrees', 'Closure', 'IncDecInverse',
                    'PairInverse', 'SeveralOpposite', 'UnitMoves', 'IterOnce', 'IterProgress']


# ---------------------------------------------------------------------------------- real objects
class Real:
    """The real biogeme objects of a structure."""

    def __init__(self, st: Struct, mutate: str | None = None):
        import biogeme.expressions as ex
        from biogeme.catalog import Catalog
        from biogeme.controller import Controller
        from biogeme.expressions import NamedExpression

        self.st = st
        self.memo: dict[int, object] = {}
        self.ctrl_objs: dict[int, object] = {}
        self.mutate = mutate
        self.overrides = st.helper() if st.helper else {}
        self._ex, self._Catalog, self._Controller, self._Named = ex, Catalog, Controller, NamedExpression
        # build in index order (children first), skipping what lies below helper-provided catalogs
        need, stack = set(), [len(st.nodes)]
        while stack:
            i = stack.pop()
            if i in need:
                continue
            need.add(i)
            nd = st.nodes[i - 1]
            if not (nd['op'] == 'cat' and nd['name'] in self.overrides):
                stack.extend(nd['kids'])
        for i in sorted(need):
            self.build(i)
        self.expr = self.build(len(st.nodes))
        # every real catalog reachable from the root (through ALL members), by name
        self.catalogs: dict[str, list] = {}
        seen = set()
        stack = [self.expr]
        while stack:
            e = stack.pop()
            if id(e) in seen:
                continue
            seen.add(id(e))
            if isinstance(e, Catalog):
                self.catalogs.setdefault(e.name, []).append(e)
            stack.extend(e.children)
        self.controllers = {}
        for lst in self.catalogs.values():
            for c in lst:
                self.controllers.setdefault(c.controlled_by.controller_name, []).append(c.controlled_by)
        self.cc = self.expr.set_central_controller()

    def build(self, i: int):
        if i in self.memo:
            return self.memo[i]
        e = self._build(i)
        self.memo[i] = e
        return e

    def _build(self, i: int):
        ex = self._ex
        st = self.st
        n = st.nodes[i - 1]
        op = n['op']
        if op == 'num':
            return ex.Numeric(n['v'])
        if op == 'var':
            return ex.Variable(st.cols[n['v'] - 1][0])
        if op == 'beta':
            name, val = st.betas[n['v'] - 1]
            return ex.Beta(name, val, None, None, 0)
        if op == 'cat' and n['name'] in self.overrides:
            return self.overrides[n['name']]
        k = [self.build(j) for j in n['kids']]
        if op == 'plus':
            return k[0] + k[1]
        if op == 'minus':
            return k[0] - k[1]
        if op == 'times':
            return k[0] * k[1]
        if op == 'eq':
            return k[0] == k[1]
        if op == 'sum':
            return ex.bioMultSum(k)
        if op == 'elem':
            return ex.Elem({j: e for j, e in enumerate(k[1:], start=1)}, k[0])
        if op == 'cat':
            c = st.ctrls[n['v'] - 1]
            alts = c['alts']      # the controller's list
            names = n['names']    # the catalog's own list (the same names; possibly in another order)
            if self.mutate == 'swap-members' and not getattr(self, '_swapped', False) and len(k) >= 2:
                k = [k[1], k[0]] + k[2:]
                self._swapped = True
            ctrl = self.ctrl_objs.get(n['v'])
            if ctrl is None and not c['implicit']:
                ctrl = self._Controller(c['name'], alts)
                self.ctrl_objs[n['v']] = ctrl
            if n.get('how') == 'dict':
                cat = self._Catalog.from_dict(n['name'], dict(zip(names, k)), controlled_by=ctrl)
            else:
                cat = self._Catalog(n['name'], [self._Named(a, e) for a, e in zip(names, k)], controlled_by=ctrl)
            if ctrl is None:
                assert n['name'] == c['name'], 'an implicit controller carries the name of its first catalog'
                self.ctrl_objs[n['v']] = cat.controlled_by
            return cat
        raise KeyError(op)

    def beta_values(self) -> dict:
        return {n: float(v) for n, v in self.st.betas}


def handwritten(st: Struct, tree: dict):
    """The catalog-free biogeme expression denoted by a tree printed by the specification."""
    import biogeme.expressions as ex

    op = tree['op']
    if op == 'num':
        return ex.Numeric(tree['v'])
    if op == 'var':
        return ex.Variable(st.cols[tree['v'] - 1][0])
    if op == 'beta':
        name, val = st.betas[tree['v'] - 1]
        return ex.Beta(name, val, None, None, 0)
    k = [handwritten(st, t) for t in tree['kids']]
    if op == 'plus':
        return k[0] + k[1]
    if op == 'minus':
        return k[0] - k[1]
    if op == 'times':
        return k[0] * k[1]
    if op == 'eq':
        return k[0] == k[1]
    if op == 'sum':
        return ex.bioMultSum(k)
    if op == 'elem':
        return ex.Elem({j: e for j, e in enumerate(k[1:], start=1)}, k[0])
    raise KeyError(op)


def show_tree(st: Struct, tree: dict) -> str:
    op = tree['op']
    if op == 'num':
        return str(tree['v'])
    if op == 'var':
        return st.cols[tree['v'] - 1][0]
    if op == 'beta':
        return st.betas[tree['v'] - 1][0]
    k = [show_tree(st, t) for t in tree['kids']]
    sym = {'plus': '+', 'minus': '-', 'times': '*', 'eq': '=='}
    if op in sym:
        return f'({k[0]} {sym[op]} {k[1]})'
    return f'{op}(' + ', '.join(k) + ')'


def database(st: Struct):
    import pandas as pd
    import biogeme.database as db

    return db.Database('c16', pd.DataFrame({n: [float(v) for v in vals] for n, vals in st.cols}))


# ---------------------------------------------------------------------------------- the structures
def s_one() -> Struct:
    """One catalog, its own (implicit) controller."""
    s = Struct('one')
    c = s.ctrl('solo', ['first', 'second', 'third'], implicit=True)
    k = s.cat('solo', c, [s.num(7), s.plus(s.var('x'), s.num(20)), s.times(s.var('x'), s.var('y'))])
    s.plus(k, s.num(100))
    s.features = ['implicit-controller']
    return s


def s_two() -> Struct:
    """Two controllers whose names sort unlike their declaration order ('b10' < 'b2')."""
    s = Struct('two')
    c2 = s.ctrl('b2', ['lin', 'quad', 'cst'])
    c10 = s.ctrl('b10', ['yes', 'no'])
    x = s.var('x')
    k1 = s.cat('time', c2, [x, s.times(x, x), s.num(9)], how='dict')
    k2 = s.cat('cost', c10, [s.num(100), s.num(200)])
    s.plus(k1, k2)
    s.features = ['explicit-controllers', 'from_dict']
    return s


def s_three(sizes=(4, 2, 3), label='three') -> Struct:
    """Three controllers: names 'a', 'B', '_x' (sorted: B < _x < a)."""
    s = Struct(label)
    names = ['a', 'B', '_x']
    weights = [1, 10, 100]
    cats = []
    x = s.var('x')
    for nm, size, w in zip(names, sizes, weights):
        c = s.ctrl(nm, [f'{nm}{j}' for j in range(size)])
        # member 0 is x * w (x in {1,2,3}): on purpose it coincides with another member on some rows only
        members = [s.times(x, s.num(w))] + [s.num((j + 1) * w) for j in range(1, size)]
        cats.append(s.cat(f'K{nm}', c, members))
    s.msum(cats)
    s.features = ['three-controllers', 'bioMultSum']
    return s


def s_shared() -> Struct:
    """One controller governs two catalogs; a second, implicit controller governs two as well."""
    s = Struct('shared')
    k = s.ctrl('k', ['a', 'b', 'c'])
    m = s.ctrl('m1', ['p', 'q'], implicit=True)
    x, y = s.var('x'), s.var('y')
    a1 = s.cat('first', k, [s.num(1), s.num(2), x])
    a2 = s.cat('second', k, [s.num(10), y, s.num(30)])
    b1 = s.cat('m1', m, [s.num(100), s.num(200)])
    b2 = s.cat('m2', m, [s.num(1000), s.num(3000)])
    s.plus(s.plus(a1, s.times(a2, s.num(2))), s.minus(b2, b1))
    s.features = ['shared-controller', 'shared-implicit-controller']
    return s


def s_nested() -> Struct:
    """A catalog nested inside a member of another one; a third catalog nested in a member of the
    second level and governed by the OUTER controller; the inner catalog also occurs outside."""
    s = Struct('nested')
    co = s.ctrl('outer', ['plain', 'deep', 'other'])
    ci = s.ctrl('inner', ['u', 'v'])
    x = s.var('x')
    again = s.cat('again', co, [s.num(1), s.num(2), s.num(3)])  # governed by the outer controller, nested two levels down
    inner = s.cat('in', ci, [s.num(10), s.plus(again, s.num(20))])
    outer = s.cat('out', co, [s.num(5), s.times(inner, s.num(100)), s.times(x, s.num(7))])
    s.plus(outer, inner)  # the inner catalog object also occurs outside the outer one
    s.features = ['nested', 'nested-governed-by-ancestor', 'catalog-object-used-twice']
    return s


def s_hidden() -> Struct:
    """A catalog that occurs ONLY inside a member of another catalog that is not the first one (not the member selected
    when the central controller is built): its controller still spans the configurations."""
    s = Struct('hidden')
    co = s.ctrl('outer', ['plain', 'deep'])
    ci = s.ctrl('inner', ['u', 'v', 'w'])
    x = s.var('x')
    inner = s.cat('in', ci, [s.num(10), s.num(20), s.times(x, s.num(3))])
    outer = s.cat('out', co, [s.num(5), s.times(inner, s.num(100))])
    s.plus(outer, x)
    s.features = ['nested', 'nested-in-a-member-that-is-not-selected']
    return s


def s_elem() -> Struct:
    """Catalogs below Elem branches and as the Elem key."""
    s = Struct('elem')
    ck = s.ctrl('key', ['byx', 'const'])
    cb = s.ctrl('branch', ['lo', 'hi', 'mid'])
    x = s.var('x')
    key = s.cat('keycat', ck, [x, s.num(2)])
    br = s.cat('brcat', cb, [s.num(1), s.num(50), s.num(20)])
    s.elem(key, [br, s.times(br, s.num(2)), s.num(77)])
    s.features = ['Elem']
    return s


def _seg_member(s: Struct, beta: str, val_of, combo, segs):
    """segmented beta (documentation of biogeme.segmentation): beta + sum over the selected
    segmentations and their non-reference categories of beta_category * (variable == value)."""
    terms = [s.beta(beta, val_of(beta))]
    for keep, (var, mapping, ref) in zip(combo, segs):
        if not keep:
            continue
        for value, category in mapping.items():
            if category == ref:
                continue
            nm = f'{beta}_{category}'
            terms.append(s.times(s.beta(nm, val_of(nm)), s.eq(s.var(var), s.num(value))))
    return s.msum(terms)


def _combos(nseg: int, maximum: int):
    from itertools import product

    return [c for c in product([False, True], repeat=nseg) if sum(c) <= maximum]


def _combo_name(combo, segs) -> str:
    if not any(combo):
        return 'no_seg'
    return '-'.join(var for keep, (var, _, _) in zip(combo, segs) if keep)


class _Vals:
    """distinct small integer values for parameter names"""

    def __init__(self):
        self.d = {}

    def __call__(self, name):
        if name not in self.d:
            self.d[name] = 2 + 3 * len(self.d) + (len(self.d) % 2)
        return self.d[name]


SEGS = [('x', {1: 'one', 2: 'two', 3: 'three'}, 'one'), ('y', {0: 'zero', 1: 'uno', 2: 'due'}, 'uno')]


def s_seg(maximum: int = 2) -> Struct:
    """segmentation_catalogs: one controller named like the group, one catalog `segmented_<beta>` per
    parameter, one alternative per combination of at most `maximum` segmentations."""
    s = Struct(f'seg{maximum}')
    val = _Vals()
    combos = _combos(len(SEGS), maximum)
    c = s.ctrl('grp', [_combo_name(cb, SEGS) for cb in combos])
    cats = []
    for b in ['b1', 'b2']:
        cats.append(s.cat(f'segmented_{b}', c, [_seg_member(s, b, val, cb, SEGS) for cb in combos]))
    s.plus(s.times(cats[0], s.var('x')), s.times(cats[1], s.num(10)))

    def helper():
        from biogeme.catalog import segmentation_catalogs
        from biogeme.expressions import Beta, Variable
        from biogeme.segmentation import DiscreteSegmentationTuple

        segs = tuple(DiscreteSegmentationTuple(Variable(v) if k == 0 else v, dict(m), reference=(None if k == 0 else r))
                     for k, (v, m, r) in enumerate(SEGS))
        lst = segmentation_catalogs(generic_name='grp', beta_parameters=[Beta('b1', 0, None, None, 0), Beta('b2', 0, None, None, 0)],
                                    potential_segmentations=segs, maximum_number=maximum)
        return {c_.name: c_ for c_ in lst}

    s.helper = helper
    s.features = ['segmentation_catalogs', 'shared-controller']
    return s


def s_gas(with_seg: bool = False) -> Struct:
    """generic_alt_specific_catalogs: catalogs `<beta>_<alt>_gen_altspec` = (generic: beta | altspec: beta_alt), all governed
    by the controller `<group>_gen_altspec`; with segmentations, the members are the catalogs `segmented_<parameter>` governed by
    the controller `<group>`."""
    s = Struct('gas_seg' if with_seg else 'gas')
    val = _Vals()
    betas, alts = ['bt', 'bc'], ['car', 'bus']
    segs = SEGS[:1]
    if with_seg:
        combos = _combos(len(segs), 1)
        cseg = s.ctrl('coef', [_combo_name(cb, segs) for cb in combos])
    cga = s.ctrl('coef_gen_altspec', ['generic', 'altspec'])
    memo = {}

    def param(name):
        if name not in memo:
            if with_seg:
                memo[name] = s.cat(f'segmented_{name}', cseg, [_seg_member(s, name, val, cb, segs) for cb in combos])
            else:
                memo[name] = s.beta(name, val(name))
        return memo[name]

    terms = []
    weight = {'car': s.var('x'), 'bus': s.num(10)}
    for b in betas:
        for a in alts:
            k = s.cat(f'{b}_{a}_gen_altspec', cga, [param(b), param(f'{b}_{a}')])
            terms.append(s.times(k, weight[a]) if b == 'bt' else s.times(k, s.num(100 if a == 'car' else 1000)))
    s.msum(terms)

    def helper():
        from biogeme.catalog import generic_alt_specific_catalogs
        from biogeme.expressions import Beta
        from biogeme.segmentation import DiscreteSegmentationTuple

        ps = tuple(DiscreteSegmentationTuple(v, dict(m), reference=r) for v, m, r in segs) if with_seg else None
        res = generic_alt_specific_catalogs(generic_name='coef', beta_parameters=[Beta(b, 0, None, None, 0) for b in betas],
                                            alternatives=tuple(alts), potential_segmentations=ps, maximum_number=1)
        out = {}
        for d in res:
            for a, c_ in d.items():
                out[c_.name] = c_
        return out

    s.helper = helper
    s.features = ['generic_alt_specific_catalogs', 'shared-controller'] + (['nested', 'segmentation_catalogs'] if with_seg else [])
    return s


def s_order(kind: str) -> Struct:
    """Two catalogs governed by ONE controller and listing the same member names: in the same order
    (`same`, the well-formed control) or in different orders (`Catalog.from_dict` filled in another order,
    main constructor with two names exchanged, the misordered catalog built first / nested in a member of
    another catalog / governed by the implicit controller of the first catalog).  A second controller makes
    it a space of 6 configurations.  Every member has its own value on every row."""
    s = Struct('ord_' + kind)
    implicit = kind == 'implicit'
    k = s.ctrl('spec', ['lin', 'log', 'sq'], implicit=implicit)
    o = s.ctrl('other', ['off', 'on'])
    x, y = s.var('x'), s.var('y')
    order = {'same': None, 'dict': [2, 0, 1], 'list': [1, 0, 2], 'first': [1, 2, 0], 'nested': [2, 1, 0], 'implicit': [1, 2, 0]}[kind]
    m1 = [s.times(x, s.num(3)), s.num(50), s.plus(y, s.num(70))]
    m2 = [s.num(1000), s.times(x, s.num(2000)), s.num(9000)]
    if kind == 'first':   # the catalog that disagrees with the controller is the first one built
        a2 = s.cat('second', k, m2, how='dict', order=order)
        a1 = s.cat('first', k, m1)
    else:
        a1 = s.cat('spec' if implicit else 'first', k, m1)
        a2 = s.cat('second', k, m2, how=('list' if kind == 'list' else 'dict'), order=order)
    if kind == 'nested':
        b = s.cat('sw', o, [s.num(100000), s.plus(a2, s.num(200000))])
        s.plus(a1, b)
    else:
        b = s.cat('sw', o, [s.num(100000), s.num(200000)])
        s.plus(s.plus(a1, a2), b)
    s.features = ['member-order', 'shared-controller'] + (['misordered'] if order else ['same-order']) + \
                 (['nested'] if kind == 'nested' else []) + (['shared-implicit-controller'] if implicit else [])
    return s


def order_structures(tier: str) -> list:
    """Part (c): the first one is the well-formed control."""
    out = [s_order('same'), s_order('dict'), s_order('list')]
    if tier == 'thorough':
        out += [s_order('first'), s_order('nested'), s_order('implicit')]
    return out


def selections(st: Struct, tier: str) -> list:
    """Part (a): the selections a Configuration object is created with / assigned (one entry per controller of
    the structure, -1 = not mentioned).  quick: two full configurations differing in one controller, one
    differing in all, and two selections mentioning one controller only; thorough: every full and every
    one-controller selection."""
    from itertools import product

    sizes = [len(c['alts']) for c in st.ctrls]
    full = [list(f) for f in product(*[range(n) for n in sizes])]
    part = [[(v if c == d else -1) for d in range(len(sizes))] for c in range(len(sizes)) for v in range(sizes[c])]
    if tier == 'thorough':
        return full + part
    last = [n - 1 for n in sizes]
    one = [0] * len(sizes)
    one[0] = min(1, sizes[0] - 1)
    quick = [[0] * len(sizes), one, last, part[-1], part[0]]
    out = []
    for q in quick:
        if q not in out:
            out.append(q)
    return out


def structures(tier: str) -> list:
    out = [s_one(), s_two(), s_three(), s_shared(), s_nested(), s_hidden(), s_elem(), s_seg(2), s_gas(False), s_gas(True)]
    if tier == 'thorough':
        out += [s_three((4, 4, 4), 'three444'), s_three((1, 3, 2), 'three132'), s_seg(1)]
    return out
