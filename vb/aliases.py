"""C20: extraction of the alias structure of the real package (constants of Aliases.tla) and the
replay of what TLC emits against the real objects.

Nothing here decides a verdict on its own: the extraction only reports facts of the imported
package (who defines what, direct bases, the closure of each deprecation wrapper, how a wrapper
dispatches when probed); Aliases.tla computes the linearisations, the resolutions, the expected
replacement and the expected forwarding; the replay compares those expectations with what the real
attribute access / the real wrappers do.
"""

from __future__ import annotations

import importlib
import inspect
import pkgutil
import types
import warnings

from .tlc import MachineryError, tla_value

# Replacements whose name is NOT the old name re-spelt (read in the source: same signature, the
# docstring / role of the replacement is that of the old name).  Everything else must satisfy the
# spelling rule of Aliases.tla.
DOCUMENTED_RENAMES = {
    # function aliases
    ('segment_parameter', 'segmented_beta'),  # segmentation.py: "Obtain the segmented Beta from a unique function call"
    # keyword arguments
    ('parameter_file', 'parameters'),  # BIOGEME.__init__: ":param parameters: name of the .toml file ..."
    ('seed_param', 'seed'),  # BIOGEME.__init__: biogeme parameter "seed"
    ('bootstrap', 'run_bootstrap'),  # BIOGEME.estimate: ":param run_bootstrap: if True, bootstrapping is applied"
}


class Sentinel:
    def __init__(self, tag):
        self.tag = tag

    def __repr__(self):
        return f'<S:{self.tag}>'


def _unwrap_descriptor(o):
    if isinstance(o, (staticmethod, classmethod)):
        return o.__func__, type(o).__name__
    return o, 'plain'


def _in_package(o) -> bool:
    m = getattr(o, '__module__', None) or ''
    return m == 'biogeme' or m.startswith('biogeme.')


def _placeholder(owner: str, name: str, module: str = 'c20user', marker=None):
    def redefined(self, *a, **k):
        return marker

    redefined.__name__ = name
    redefined.__qualname__ = f'{owner}.{name}'
    redefined.__module__ = module
    return redefined


def cells(f) -> dict:
    if not getattr(f, '__closure__', None):
        return {}
    return dict(zip(f.__code__.co_freevars, f.__closure__))


def is_alias(f) -> bool:
    return inspect.isfunction(f) and bool(getattr(f, '__deprecated__', False))


def is_kwrenamer(f) -> bool:
    return inspect.isfunction(f) and 'obsolete_params' in getattr(f.__code__, 'co_freevars', ())


def captured_cell(w):
    c = cells(w)
    if 'new_func' in c:
        return c['new_func']
    for name, cell in c.items():  # other spelling of the decorator: the cell holding the advertised function
        v = cell.cell_contents
        if callable(v) and getattr(v, '__name__', None) == getattr(w, '__newname__', None) and name != 'old_func':
            return cell
    raise MachineryError(f'cannot find the captured replacement of wrapper {w.__qualname__}')


def probe_dispatch(w) -> str:
    """How does this wrapper reach the replacement?  Measured, not read: the captured function is
    replaced by a stub in the closure, the wrapper is called on a probe object that has a method
    with the advertised name.  'captured' = the closure's function ran; 'dynamic' = the probe's."""
    cell = captured_cell(w)
    orig = cell.cell_contents
    hits = []
    newname = w.__newname__

    def cap(*a, **k):
        hits.append('captured')

    cap.__name__ = newname
    probe_cls = type('Probe', (), {newname: lambda self, *a, **k: hits.append('dynamic')})
    cell.cell_contents = cap
    try:
        with warnings.catch_warnings():
            warnings.simplefilter('ignore')
            w(probe_cls())
    finally:
        cell.cell_contents = orig
    if hits == ['captured']:
        return 'captured'
    if hits == ['dynamic']:
        return 'dynamic'
    return 'none' if not hits else 'both'


class Model:
    """Facts of the imported package."""

    def __init__(self):
        import biogeme

        self.modules = []
        for m in pkgutil.walk_packages(biogeme.__path__, 'biogeme.'):
            try:
                self.modules.append(importlib.import_module(m.name))
            except Exception as e:  # a module that cannot be imported cannot expose an alias either
                self.import_errors = getattr(self, 'import_errors', []) + [(m.name, repr(e)[:200])]
        self.import_errors = getattr(self, 'import_errors', [])
        self.fid_of: dict[int, str] = {}
        self.obj_of: dict[str, object] = {}
        self.sid_of: dict[int, str] = {}  # id(class object) -> space id: classes are told apart by IDENTITY
        self.cls_of_sid: dict[str, type] = {}
        self.printed: dict[str, str] = {}  # space id -> the class's own name (__qualname__), not unique
        self.spaces: dict[str, object] = {}  # space id -> class or module
        self.is_module: dict[str, bool] = {}
        self.bases: dict[str, list[str]] = {}
        self.table: dict[str, dict[str, str]] = {}  # space -> name -> fid
        self.descr: dict[tuple[str, str], str] = {}
        self.fn: dict[str, dict] = {}
        self.kwmaps: list[dict] = []
        self._collect()

    # -- identities
    def space_id(self, o) -> str:
        """The id of a space.  A class is identified by the OBJECT: a second class object that prints
        the same module and qualified name (a namesake subclass, a module loaded twice) gets an id of
        its own (suffix #2, #3 ...); the name the class itself carries (__qualname__) is kept apart in
        self.printed (constant ClassName of the spec)."""
        if inspect.ismodule(o):
            return 'module ' + o.__name__
        sid = self.sid_of.get(id(o))
        if sid is None:
            base = f'{o.__module__}.{o.__qualname__}'
            sid, n = base, 1
            while sid in self.cls_of_sid:
                n += 1
                sid = f'{base} #{n}'
            self.sid_of[id(o)] = sid
            self.cls_of_sid[sid] = o  # (keeps the class alive: id() stays unique)
            self.printed[sid] = o.__qualname__
        return sid

    def fid(self, f) -> str:
        k = id(f)
        if k in self.fid_of:
            return self.fid_of[k]
        base = f"{getattr(f, '__module__', '?')}.{getattr(f, '__qualname__', getattr(f, '__name__', repr(f)))}"
        if is_alias(f):
            base += ' (alias)'
        name, n = base, 1
        while name in self.obj_of:
            n += 1
            name = f'{base} #{n}'
        self.fid_of[k] = name
        self.obj_of[name] = f
        return name

    # -- collection
    def _collect(self):
        classes = {}

        def add_class(c):
            sid = self.space_id(c)
            if sid in classes:
                return
            classes[sid] = c
            for v in list(vars(c).values()):
                if inspect.isclass(v) and _in_package(v):
                    add_class(v)

        for mod in self.modules:
            for o in list(vars(mod).values()):
                if inspect.isclass(o) and _in_package(o):
                    add_class(o)
        self.package_only = set(classes)
        # the receivers "subclasses that redefine the replacement": for every class that declares aliases, a
        # user-style subclass (made here, not part of the package) that redefines the advertised new names
        self.user_classes: dict[str, type] = {}
        for sid in sorted(classes):
            c = classes[sid]
            own = [_unwrap_descriptor(raw) for raw in vars(c).values()]
            news = sorted({f.__newname__ for f, d in own if is_alias(f) and d == 'plain'
                           and inspect.isfunction(_unwrap_descriptor(inspect.getattr_static(c, f.__newname__, None))[0])})
            if not news:
                continue
            qn = 'User_' + sid.replace('.', '_')
            body = {n: _placeholder(qn, n) for n in news}
            body['__module__'] = 'c20user'
            body['__qualname__'] = qn
            u = type('User_' + c.__name__, (c,), body)
            self.user_classes[self.space_id(u)] = u
        classes.update(self.user_classes)
        # ... and NAMESAKE subclasses: same __name__ and __qualname__ as the parent ("class Database(Database)",
        # "class Beta(Beta)"), declared in a user module (even ranks) or carrying the parent's __module__ as well (odd
        # ranks: nothing a class prints tells it from its parent, as after a module is loaded twice).  One for every
        # class that declares aliases and for every class that inherits aliases and itself overrides an advertised
        # name; it redefines EVERY advertised name visible on the parent (own or inherited).
        def visible_method_aliases(c):
            out = {}
            for k in c.__mro__:
                for n, raw in vars(k).items():
                    f, dsc = _unwrap_descriptor(raw)
                    if n not in out and is_alias(f) and dsc == 'plain' and inspect.getattr_static(c, n, None) is raw:
                        if inspect.isfunction(_unwrap_descriptor(inspect.getattr_static(c, f.__newname__, None))[0]):
                            out[n] = f.__newname__
            return out

        self.namesake_classes: dict[str, type] = {}
        self.namesake_parent: dict[str, str] = {}
        parents = [u.__bases__[0] for _, u in sorted(self.user_classes.items())]
        for sid in sorted(self.package_only):
            c = classes[sid]
            if c not in parents and any(inspect.isfunction(vars(c).get(new)) for new in visible_method_aliases(c).values()):
                parents.append(c)
        for rank, c in enumerate(parents):
            news = sorted(set(visible_method_aliases(c).values()))
            module = 'c20user' if rank % 2 == 0 else c.__module__
            body = {n: _placeholder(c.__qualname__, n, module, marker=f'<namesake {c.__qualname__}.{n}>') for n in news}
            body['__module__'] = module
            body['__qualname__'] = c.__qualname__
            t = type(c.__name__, (c,), body)
            if t.__name__ != c.__name__ or t.__qualname__ != c.__qualname__ or t is c:
                raise MachineryError(f'namesake subclass of {c!r} does not carry its name')
            tsid = self.space_id(t)
            self.namesake_classes[tsid] = t
            self.namesake_parent[tsid] = self.space_id(c)
        classes.update(self.namesake_classes)
        # closure under direct bases (external classes included: they take part in the linearisation)
        todo = list(classes.values())
        while todo:
            c = todo.pop()
            for b in c.__bases__:
                sid = self.space_id(b)
                if sid not in classes:
                    classes[sid] = b
                    todo.append(b)
        self.package_classes = {s for s, c in classes.items() if _in_package(c)}
        # first pass: names of interest = every function-valued name of a package class
        interest = set()
        for sid in self.package_classes:
            for n, raw in vars(classes[sid]).items():
                f, _ = _unwrap_descriptor(raw)
                if inspect.isfunction(f):
                    interest.add(n)
                    if is_alias(f):
                        interest.add(f.__newname__)
        for sid, c in classes.items():
            self.spaces[sid] = c
            self.is_module[sid] = False
            self.bases[sid] = [self.space_id(b) for b in c.__bases__]
            tab = {}
            for n, raw in vars(c).items():
                f, d = _unwrap_descriptor(raw)
                pkg = sid in self.package_classes
                if (pkg and inspect.isfunction(f)) or (not pkg and n in interest and callable(f)):
                    tab[n] = self._register(f, n)
                    self.descr[(sid, n)] = d
            self.table[sid] = tab
        # modules holding at least one alias, and modules declaring a class that declares one:
        # every function or class bound in the module
        homes = {classes[sid].__module__ for sid in self.package_classes
                 if any(self.fn[f]['kind'] == 'alias' for f in self.table[sid].values())}
        self.home: dict[str, str] = {}
        for mod in self.modules:
            if not any(is_alias(o) for o in vars(mod).values()) and mod.__name__ not in homes:
                continue
            sid = self.space_id(mod)
            self.spaces[sid] = mod
            self.is_module[sid] = True
            self.bases[sid] = []
            tab = {}
            for n, o in vars(mod).items():
                if inspect.isfunction(o) or inspect.isclass(o):
                    tab[n] = self._register(o, n)
                    self.descr[(sid, n)] = 'plain'
            self.table[sid] = tab
        for sid in self.package_classes:
            if sid in self.namesake_classes:
                continue  # made by the driver: no module body declares it
            msid = 'module ' + classes[sid].__module__
            if msid in self.spaces:
                self.home[sid] = msid
        # keyword renaming maps (each wrapper once, wherever it is bound)
        seen = set()
        for sid, tab in self.table.items():
            for n, fid in tab.items():
                f = self.obj_of[fid]
                if is_kwrenamer(f) and id(f) not in seen:
                    seen.add(id(f))
                    c = cells(f)
                    inner = c['func'].cell_contents
                    sig = inspect.signature(inner)
                    self.kwmaps.append(
                        dict(
                            space=sid,
                            name=n,
                            fid=fid,
                            map=dict(c['obsolete_params'].cell_contents),
                            params=[p.name for p in sig.parameters.values() if p.kind in (p.POSITIONAL_OR_KEYWORD, p.KEYWORD_ONLY)],
                            varkw=any(p.kind == p.VAR_KEYWORD for p in sig.parameters.values()),
                        )
                    )

    def _register(self, f, bound_name: str) -> str:
        fid = self.fid(f)
        if fid in self.fn:
            return fid
        if is_alias(f):
            cap = captured_cell(f).cell_contents
            rec = dict(kind='alias', own=f.__name__, newname=f.__newname__, captured=None, dispatch=probe_dispatch(f),
                       method='.' in f.__qualname__.split('<locals>.')[-1])
            self.fn[fid] = rec
            rec['captured'] = self._register(cap, getattr(cap, '__name__', '?'))
        else:
            self.fn[fid] = dict(kind='fun', own=getattr(f, '__name__', bound_name), newname='', captured=fid, dispatch='captured',
                                method=False)
        return fid

    # -- statistics
    def alias_bindings(self):
        return [(s, n) for s, t in self.table.items() for n, fid in t.items() if self.fn[fid]['kind'] == 'alias']

    # -- model for TLC
    def to_dict(self) -> dict:
        """The extracted facts, JSON-ready (read by AliasesModel.tla)."""
        kws = []
        for k in self.kwmaps:
            for pos, (old, new) in enumerate(k['map'].items(), 1):
                kws.append(dict(fid=k['fid'], space=k['space'], fname=k['name'], old=old, new=new or '', drop=not new,
                                params=list(k['params']), varkw=k['varkw'], pos=pos))
        d = dict(
            spaces=sorted(self.spaces),
            modules=sorted(s for s in self.spaces if self.is_module[s]),
            bases={s: list(b) for s, b in self.bases.items() if b},
            table={s: dict(t) for s, t in self.table.items() if t},
            static=sorted([s, n] for (s, n), k in self.descr.items() if k == 'staticmethod'),
            home=dict(self.home),
            fn={fid: dict(kind=r['kind'], own=r['own'], newname=r['newname'], captured=r['captured'], dispatch=r['dispatch'])
                for fid, r in self.fn.items()},
            renames=[list(p) for p in sorted(DOCUMENTED_RENAMES)],
            kwrenames=kws,
            cname={s: (self.printed.get(s, s)) for s in self.spaces},
        )
        return d


def spelling(d: dict) -> dict:
    names = {'zz_other'}
    for t in d['table'].values():
        names |= set(t)
    for r in d['fn'].values():
        names |= {r['newname'], r['own']} - {''}
    for k in d['kwrenames']:
        names |= {k['old'], k['new']} - {''}
        names |= set(k['params'])
    for a, b in d['renames']:
        names |= {a, b}
    return {n: [ord(ch) for ch in n] for n in sorted(names)}


def run_tlc(d: dict, invariants: list[str], *, timeout: int = 600):
    """Model-check Aliases on the model dictionary d (possibly mutated by a negative control)."""
    import json
    import os
    from . import tlc

    d = dict(d)
    d['spelling'] = spelling(d)
    work = tlc.scratch_dir('vb-c20-')
    path = os.path.join(work, 'model.json')
    try:
        with open(path, 'w') as f:
            json.dump(d, f)
        return tlc.run('AliasesModel', cfg(invariants), workers=1, timeout=timeout, env={'ALIASES_MODEL': path})
    finally:
        import shutil

        shutil.rmtree(work, ignore_errors=True)


CFG = '''SPECIFICATION Spec
CONSTANTS
 Spaces <- G_Spaces
 Modules <- G_Modules
 Bases <- G_Bases
 Table <- G_Table
 Static <- G_Static
 Home <- G_Home
 Fn <- G_Fn
 Spelling <- G_Spelling
 Renames <- G_Renames
 KwRenames <- G_KwRenames
 ClassName <- G_ClassName
'''


def cfg(invariants: list[str]) -> str:
    return CFG + ''.join(f'INVARIANT {i}\n' for i in invariants)


# ------------------------------------------------------------------------------------------------
# replay of resolution records: spies
# ------------------------------------------------------------------------------------------------


def blank_instance(cls):
    """An instance of exactly `cls` on which no user code ran (attribute resolution is all we need)."""
    saved = None
    if getattr(cls, '__abstractmethods__', None):
        saved = cls.__abstractmethods__
        cls.__abstractmethods__ = frozenset()
    try:
        try:
            return object.__new__(cls)
        except TypeError:
            for base, arg in ((BaseException, ()), (tuple, ((),)), (str, ('',)), (int, (0,)), (float, (0.0,)), (dict, ()), (list, ())):
                if issubclass(cls, base):
                    return base.__new__(cls, *arg)
            raise
    finally:
        if saved is not None:
            cls.__abstractmethods__ = saved


def _lookup(model: Model, space_id: str, name: str):
    """Python's own resolution of `name` for an instance of the class (or in the module)."""
    space = model.spaces[space_id]
    if model.is_module[space_id]:
        return vars(space).get(name), 'plain'
    return _unwrap_descriptor(inspect.getattr_static(space, name, None))


SHAPES = 4


def _shape(k: int):
    a = [Sentinel(f'a{i}') for i in range(5)]
    kw = {'key': Sentinel('k1'), 'other': None}
    return [(tuple(a[:2]), {'key': kw['key']}), ((), {}), ((), kw), (tuple(a), {})][k % SHAPES]


def spy_pair(model: Model, rec: dict, shape: int = 0) -> dict:
    """One (receiver space, alias) pair emitted by TLC.  rec carries the spec's expectations:
    alias_definer, passes_receiver, new_space (where "use <new> instead" is followed),
    expected_definer (the space whose dictionary supplies the new name there), expected_fid.
    The function the spec expects to run is replaced by a recording stub IN THE DICTIONARY OF THE
    EXPECTED DEFINER, the function captured by the wrapper by another stub IN THE CLOSURE; the old
    and the new name are then called with the same sentinel arguments.  No biogeme code other than
    the wrapper runs.  Returns dict(ok, problems, calls)."""
    space = model.spaces[rec['space']]
    modulesp = model.is_module[rec['space']]
    problems = []
    alias, newname = rec['alias'], rec['newname']
    wrapper, descr = _lookup(model, rec['space'], alias)
    if not is_alias(wrapper):
        return dict(ok=False, problems=[dict(what='not a deprecation wrapper', got=repr(wrapper))], calls=0)
    # 1. the spec's resolution against Python's own attribute lookup
    if not modulesp:
        adef = model.spaces.get(rec['alias_definer'])
        if adef is None or _unwrap_descriptor(vars(adef).get(alias))[0] is not wrapper:
            problems.append(dict(what='alias definer', spec=rec['alias_definer'], python=getattr(wrapper, '__qualname__', None)))
    passes = (not modulesp) and descr != 'staticmethod'
    if passes != rec['passes_receiver']:
        problems.append(dict(what='calling convention of the binding', spec=rec['passes_receiver'], python=passes))
    cell = captured_cell(wrapper)
    captured = cell.cell_contents
    log = []
    ret_new, ret_cap = Sentinel('ret-new'), Sentinel('ret-captured')

    def s_new(*a, **k):
        log.append(('new', a, dict(k)))
        return ret_new

    def s_cap(*a, **k):
        log.append(('captured', a, dict(k)))
        return ret_cap

    s_new.__name__ = s_cap.__name__ = newname
    pos, kws = _shape(shape)
    inst = None if modulesp else blank_instance(space)
    before = None if inst is None else dict(getattr(inst, '__dict__', {}))
    target = space if modulesp else inst

    def call(obj, name):
        with warnings.catch_warnings(record=True) as wl:
            warnings.simplefilter('always')
            try:
                got = getattr(obj, name)(*pos, **kws)
            except Exception as e:  # noqa
                got = e
        out, log[:] = list(log), []
        return got, out, list(wl)

    if rec['new_space'] == '!missing':
        # the spec finds nothing the receiver could use instead: show what the old name does
        cell.cell_contents = s_cap
        try:
            got_old, old_log, wl = call(target, alias)
        finally:
            cell.cell_contents = captured
        problems.append(
            dict(
                what='the advertised replacement cannot be reached from the receiver',
                python_has_it=_lookup(model, rec['space'], newname)[0] is not None,
                old_name_forwards=[(w, len(a)) for w, a, _ in old_log],
                receiver_passed=bool(old_log and old_log[0][1] and old_log[0][1][0] is inst),
                captured=model.fid_of.get(id(captured), getattr(captured, '__qualname__', '?')),
            )
        )
        return dict(ok=False, problems=problems, calls=1)
    new_space = model.spaces[rec['new_space']]
    real_new, new_descr = _lookup(model, rec['new_space'], newname)
    exp_owner = model.spaces.get(rec['expected_definer'])
    if exp_owner is None or newname not in vars(exp_owner):
        problems.append(dict(what='expected definer does not define the new name', spec=rec['expected_definer']))
        return dict(ok=False, problems=problems, calls=0)
    raw_saved = vars(exp_owner)[newname]
    exp_obj = _unwrap_descriptor(raw_saved)[0]
    if exp_obj is not real_new:
        problems.append(dict(what='resolution of the new name', spec=rec['expected_definer'], python=getattr(real_new, '__qualname__', None)))
    if model.fid_of.get(id(exp_obj)) != rec['expected_fid']:
        problems.append(dict(what='function identity', spec=rec['expected_fid'], python=model.fid_of.get(id(exp_obj))))
    new_target = target if new_space is space else new_space
    setattr(exp_owner, newname, staticmethod(s_new) if isinstance(raw_saved, staticmethod) else s_new)
    cell.cell_contents = s_cap
    try:
        got_old, old_log, wl = call(target, alias)
        got_new, new_log, wl_new = call(new_target, newname)
    finally:
        cell.cell_contents = captured
        setattr(exp_owner, newname, raw_saved)
    if vars(exp_owner)[newname] is not raw_saved or cell.cell_contents is not captured:
        raise MachineryError('spies not removed')
    want = (((inst,) if rec['passes_receiver'] else ()) + pos, kws)
    ident = lambda a, k: (tuple(id(x) for x in a), {n: id(v) for n, v in k.items()})  # noqa: E731
    # the new name itself reaches the stub exactly once, silently, with these arguments (sanity of the set-up)
    if [x[0] for x in new_log] != ['new'] or got_new is not ret_new or wl_new or ident(*new_log[0][1:]) != ident(*want):
        problems.append(dict(what='the new name does not run the function the spec expects', got=repr(new_log)[:300], result=repr(got_new)[:200]))
        return dict(ok=False, problems=problems, calls=2)
    if isinstance(got_old, Exception):
        problems.append(dict(what='old name raised', error=repr(got_old)[:200]))
    if len(old_log) != 1:
        problems.append(dict(what='number of forwarded calls', got=[x[0] for x in old_log]))
    else:
        which, a, k = old_log[0]
        if which == 'captured' and captured is not real_new:
            problems.append(
                dict(
                    what='the old name runs the captured function, the new name runs another one',
                    old_runs=model.fid_of.get(id(captured), getattr(captured, '__qualname__', repr(captured))),
                    new_runs=model.fid_of.get(id(real_new), getattr(real_new, '__qualname__', repr(real_new))),
                )
            )
        if ident(a, k) != ident(*want):
            problems.append(dict(what='forwarded arguments differ', got=repr((a, k)), want=repr(want)))
        if got_old is not (ret_new if which == 'new' else ret_cap):
            problems.append(dict(what="result is not the replacement's result", got=repr(got_old)[:200]))
    dep = [w for w in wl if issubclass(w.category, DeprecationWarning)]
    if len(wl) != 1 or len(dep) != 1:
        problems.append(dict(what='warnings', got=[(w.category.__name__, str(w.message)) for w in wl]))
    else:
        msg = str(dep[0].message)
        toks = [t.rstrip('.') for t in msg.replace(';', ' ').replace(',', ' ').split()]
        if alias not in toks or newname not in toks:
            problems.append(dict(what='warning does not name old and new', got=msg))
    if inst is not None and dict(getattr(inst, '__dict__', {})) != before:
        problems.append(dict(what='receiver modified by the wrapper', got=sorted(getattr(inst, '__dict__', {}))))
    return dict(ok=not problems, problems=problems, calls=2)


# ------------------------------------------------------------------------------------------------
# replay of keyword-renaming cases
# ------------------------------------------------------------------------------------------------


def kw_case(model: Model, rec: dict, wrapper=None) -> dict:
    """rec: fid, given (sequence of [name, value-number]), forwarded_options (set of sequences
    of [name, value-number]), warnings (number).  The wrapped function is replaced by a stub in
    the wrapper's closure; positional arguments are two sentinels.  The keywords are given in the
    order of rec['given'] (Python hands **kwargs over in call order).  `wrapper`: another wrapper
    with the same closure layout (negative controls)."""
    w = wrapper if wrapper is not None else model.obj_of[rec['fid']]
    cell = cells(w)['func']
    inner = cell.cell_contents
    vals = {1: Sentinel('v1'), 2: Sentinel('v2'), 3: None, 4: Sentinel('v4'), 5: Sentinel('v5'), 6: Sentinel('v6')}
    log = []
    ret = Sentinel('ret')

    def stub(*a, **k):
        log.append((a, dict(k)))
        return ret

    p1, p2 = Sentinel('p1'), Sentinel('p2')
    kwargs = {n: vals[v] for n, v in rec['given']}
    if list(kwargs) != [n for n, _ in rec['given']]:
        raise MachineryError(f"keyword case with a repeated keyword: {rec['given']}")
    cell.cell_contents = stub
    try:
        with warnings.catch_warnings(record=True) as wl:
            warnings.simplefilter('always')
            got = w(p1, p2, **kwargs)
    finally:
        cell.cell_contents = inner
    problems = []
    if len(log) != 1:
        return dict(ok=False, problems=[dict(what='wrapped function called', times=len(log))])
    a, k = log[0]
    if len(a) != 2 or a[0] is not p1 or a[1] is not p2:
        problems.append(dict(what='positional arguments changed', got=repr(a)))
    options = [{n: vals[v] for n, v in opt} for opt in rec['forwarded_options']]
    if not any(set(k) == set(o) and all(k[n] is o[n] for n in o) for o in options):
        problems.append(dict(what='forwarded keywords', got=repr(k), want_one_of=repr(options)))
    if got is not ret:
        problems.append(dict(what='result', got=repr(got)))
    dep = [x for x in wl if issubclass(x.category, DeprecationWarning)]
    if len(wl) != rec['warnings'] or len(dep) != rec['warnings']:
        problems.append(dict(what='warnings', got=[str(x.message) for x in wl], want=rec['warnings']))
    for x in dep:
        if not any(f"'{n}'" in str(x.message) for n in rec['obsolete_given']):
            problems.append(dict(what='warning does not name the obsolete keyword', got=str(x.message)))
    return dict(ok=not problems, problems=problems)


# ------------------------------------------------------------------------------------------------
# faulty wrappers for the negative controls (what a wrong library could look like)
# ------------------------------------------------------------------------------------------------


def name_dispatching_wrapper(w, owner):
    """A deprecation wrapper that recognises "its own" class BY NAME: instances of a class called
    like `owner` are served with the captured function, the new name is looked up on the object
    only for classes of another name.  Right for every subclass but a namesake."""
    import functools

    new_func = captured_cell(w).cell_contents
    old_name, owner_name = w.__name__, owner.__name__

    @functools.wraps(w)
    def wrapper(*args, **kwargs):
        warnings.warn(f'{old_name} is deprecated; use {new_func.__name__} instead.', DeprecationWarning, stacklevel=2)
        if args and type(args[0]).__name__ != owner_name:
            return getattr(args[0], new_func.__name__)(*args[1:], **kwargs)
        return new_func(*args, **kwargs)

    wrapper.__deprecated__ = True
    wrapper.__newname__ = w.__newname__
    return wrapper


def stopping_kw_wrapper(w):
    """A keyword-renaming wrapper that stops reading the keywords once it has met an ignored one
    (everything given AFTER it is lost).  Same closure layout as the real one."""
    import functools

    c = cells(w)
    obsolete_params, func = c['obsolete_params'].cell_contents, c['func'].cell_contents

    @functools.wraps(func)
    def wrapper(*args, **kwargs):
        processed = {}
        for name, value in kwargs.items():
            if name in obsolete_params:
                new_name = obsolete_params[name]
                warnings.warn(f"Parameter '{name}' is deprecated" + (f"; use '{new_name}={value}' instead." if new_name else ' and is ignored.'),
                              DeprecationWarning, stacklevel=2)
                if not new_name:
                    break
                processed[new_name] = value
            else:
                processed[name] = value
        return func(*args, **processed)

    return wrapper
