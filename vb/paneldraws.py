"""Replay of PanelDraws.tla behaviours into the real Database / BIOGEME (properties C09 and C10)."""

from __future__ import annotations

from fractions import Fraction as F

import numpy as np

from . import boundary
from .exprenv import tla_name
from .rt import close, forked

NAME_A, NAME_B = 'zeta', 'alpha'      # appearance order: zeta then alpha; sorted order: alpha < zeta
TYPE_A, TYPE_B = 'TA', 'TB'
CODE = {TYPE_A: 1, TYPE_B: 2}
BVAL = 2
XVALS = [1, 3, 2, 2, 1, 3]      # positive: the trajectory operator multiplies through exp(sum(log)), it is meant for probabilities


def module(id_pool, max_len, rs, formulas, panel_modes):
    def sset(xs, q=True):
        return '{' + ', '.join((f'"{x}"' if q else str(x)) for x in xs) + '}'

    return f'''---- MODULE PDGen ----
EXTENDS PanelDraws
G_XVals == <<{", ".join(str(x) if x >= 0 else f"(0 - {-x})" for x in XVALS)}>>
G_VarA == [name |-> {tla_name(NAME_A)}, type |-> "{TYPE_A}"]
G_VarB == [name |-> {tla_name(NAME_B)}, type |-> "{TYPE_B}"]
G_TypeCode == [t \\in {{"{TYPE_A}", "{TYPE_B}"}} |-> IF t = "{TYPE_A}" THEN {CODE[TYPE_A]} ELSE {CODE[TYPE_B]}]
G_IdPool == {sset(id_pool, False)}
G_Rs == {sset(rs, False)}
G_Formulas == {sset(formulas)}
G_PanelModes == {sset(["TRUE" if p else "FALSE" for p in panel_modes], False)}
====
'''


def cfg(max_len):
    return f'''SPECIFICATION Spec
CONSTANTS
 IdPool <- G_IdPool
 MaxLen = {max_len}
 XVals <- G_XVals
 Rs <- G_Rs
 Formulas <- G_Formulas
 VarA <- G_VarA
 VarB <- G_VarB
 TypeCode <- G_TypeCode
 B = {BVAL}
 PanelModes <- G_PanelModes
INVARIANT MapSound
INVARIANT SortSound
INVARIANT EmitInv
'''


def gen(code):
    def g(sample_size, number_of_draws):
        return np.array([[float(code + ((2 * u + r) % 5)) for r in range(number_of_draws)] for u in range(sample_size)])

    return g


def index_labels(ids):
    """row labels of the input table: default, with gaps, or in reverse (chosen from the ids, deterministic)"""
    n = len(ids)
    pattern = (sum(int(i) for i in ids) + n) % 3
    if pattern == 0:
        return list(range(n))
    if pattern == 1:
        return [10 + 3 * k for k in range(n)]
    return [n - 1 - k for k in range(n)]


def make_db(ids, xs):
    import pandas as pd
    import biogeme.database as db

    df = pd.DataFrame({'id': [float(i) for i in ids], 'x': [float(x) for x in xs]}, index=index_labels(ids))
    d = db.Database('pd', df)
    d.set_random_number_generators({TYPE_A: (gen(CODE[TYPE_A]), 'deterministic A'), TYPE_B: (gen(CODE[TYPE_B]), 'deterministic B')})
    return d


def make_formula(formula, panel):
    import biogeme.expressions as ex

    b = ex.Beta('b', float(BVAL), None, None, 0)
    x = ex.Variable('x')
    A = ex.bioDraws(NAME_A, TYPE_A)
    Bv = ex.bioDraws(NAME_B, TYPE_B)
    if formula == 'one':
        f = b * x + A
    elif formula == 'two':
        f = A * x + b * Bv
    elif formula == 'prod':
        f = A * Bv + x
    else:
        f = b * x + 1
    if panel:
        f = ex.PanelLikelihoodTrajectory(f)
    if formula != 'none':
        f = ex.MonteCarlo(f)
    return f


def evaluate(ids, xs, rec):
    """Run the real library on the table (ids, xs); -> dict of observations (or raises)."""
    import biogeme.biogeme as bio
    from biogeme.exceptions import BiogemeError

    panel, R, formula = rec['panel'], rec['R'], rec['formula']
    out = {}
    d = make_db(ids, xs)
    if panel:
        try:
            d.panel('id')
            out['panel_accepted'] = True
        except BiogemeError as e:
            out['panel_accepted'] = False
            out['panel_error'] = str(e)[:100]
            return out
        out['map'] = [[float(i), int(r[0]), int(r[1])] for i, r in zip(d.individualMap.index, d.individualMap.to_numpy())]
        out['sorted'] = [[float(a), float(b)] for a, b in d.data[['id', 'x']].to_numpy()]
        out['sample_size'] = int(d.get_sample_size())
    else:
        out['sample_size'] = int(d.get_sample_size())
    boundary.install()
    boundary.reset()
    f = make_formula(formula, panel)
    bg = bio.BIOGEME(d, f, number_of_draws=R)
    bg.generate_html = False
    bg.generate_pickle = False
    bg.save_iterations = False
    sim = bg.simulate({nm: float(BVAL) for nm in bg.free_beta_names})
    out['simulate_index'] = [float(i) for i in sim.index]
    out['simulate'] = [float(v) for v in sim['log_like']]
    xvec = [float(BVAL)] * len(bg.free_beta_names)
    out['likelihood'] = float(bg.calculate_likelihood(xvec, scaled=False))
    out['likelihood_scaled'] = float(bg.calculate_likelihood(xvec, scaled=True))
    calls = list(boundary.LOG)
    out['boundary'] = dict(
        setPanel=[c['args'] for c in calls if c['call'] == 'setPanel'],
        setDataMap=[c['args'][0]['rows'] for c in calls if c['call'] == 'setDataMap'][:1],
        setData=[c['args'][0]['rows'] for c in calls if c['call'] == 'setData'][:1],
        setDraws=[c['args'][0] for c in calls if c['call'] == 'setDraws'][:1],
    )
    boundary.reset()
    # direct evaluation of a fresh formula on a fresh database
    d2 = make_db(ids, xs)
    if panel:
        d2.panel('id')
    f2 = make_formula(formula, panel)
    out['get_value_c'] = [float(v) for v in f2.get_value_c(database=d2, number_of_draws=R, prepare_ids=True)]
    return out


def permuted(ids, xs):
    """another order of the same panel: individuals' blocks reversed, rows inside each block reversed"""
    blocks = []
    for i, x in zip(ids, xs):
        if blocks and blocks[-1][0] == i:
            blocks[-1][1].append(x)
        else:
            blocks.append((i, [x]))
    ids2, xs2 = [], []
    for i, b in reversed(blocks):
        for x in reversed(b):
            ids2.append(i)
            xs2.append(x)
    return ids2, xs2


def replay(rec):
    mism = []
    n = 0
    ids, xs = rec['ids'], rec['xs']
    want = [float(F(v[0], v[1])) for v in rec['values']]
    st, obs = forked(evaluate, ids, xs, rec, timeout=120)
    n += 1
    if st != 'ok':
        return dict(mismatches=[dict(what=f'evaluation {st}', error=obs)], n=n)
    if rec['panel']:
        if obs['panel_accepted'] != rec['contiguous']:
            mism.append(dict(what='panel accepted iff contiguous', got=obs['panel_accepted'], want=rec['contiguous']))
            return dict(mismatches=mism, n=n)
        if not rec['contiguous']:
            return dict(mismatches=mism, n=n)
        wmap = [[float(m[0]), m[1], m[2]] for m in rec['map']]
        if obs['map'] != wmap:
            mism.append(dict(what='individualMap', got=obs['map'], want=wmap))
        wsorted = [[float(a), float(b)] for a, b in rec['sorted']]
        if obs['sorted'] != wsorted:
            mism.append(dict(what='sorted data', got=obs['sorted'], want=wsorted))
        if obs['simulate_index'] != [m[0] for m in wmap]:
            mism.append(dict(what='simulate index = individuals', got=obs['simulate_index'], want=[m[0] for m in wmap]))
    if obs['sample_size'] != rec['units']:
        mism.append(dict(what='sample size', got=obs['sample_size'], want=rec['units']))
    tol = 1e-12
    for key in ('simulate', 'get_value_c'):
        got = obs[key]
        if len(got) != len(want) or any(not close(g, w, rel=tol) for g, w in zip(got, want)):
            mism.append(dict(what=key, got=got, want=want))
    if not close(obs['likelihood'], sum(want), rel=tol):
        mism.append(dict(what='calculate_likelihood = sum over units', got=obs['likelihood'], want=sum(want)))
    if not close(obs['likelihood_scaled'], sum(want) / rec['units'], rel=tol):
        mism.append(dict(what='scaled likelihood = sum / number of units', got=obs['likelihood_scaled'], want=sum(want) / rec['units']))
    bd = obs['boundary']
    if rec['panel']:
        if bd['setPanel'] != [[True]]:
            mism.append(dict(what='boundary setPanel', got=bd['setPanel']))
        if not bd['setDataMap'] or [[int(a), int(b)] for a, b in bd['setDataMap'][0]] != [[m[1], m[2]] for m in rec['map']]:
            mism.append(dict(what='boundary setDataMap', got=bd['setDataMap'], want=[[m[1], m[2]] for m in rec['map']]))
        if not bd['setData'] or bd['setData'][0] != [[float(a), float(b)] for a, b in rec['sorted']]:
            mism.append(dict(what='boundary setData (sorted)', got=bd['setData']))
    else:
        if bd['setPanel'] or bd['setDataMap']:
            mism.append(dict(what='boundary: panel calls on non-panel data', got=[bd['setPanel'], bd['setDataMap']]))
    if rec['formula'] != 'none':
        wt = [[[float(v) for v in r] for r in u] for u in rec['table']]
        if not bd['setDraws'] or bd['setDraws'][0] != wt:
            mism.append(dict(what='boundary setDraws table [unit][draw][variable by name rank]', got=bd['setDraws'][:1], want=wt))
    elif bd['setDraws']:
        mism.append(dict(what='boundary: draws set for a formula without draws'))
    # a history: the table is edited AFTER it was declared panel (one individual removed); the map handed to the engine
    # must be the one of the table as it is now
    if rec['panel'] and rec['formula'] == 'none' and len(rec['map']) >= 2:
        def after_remove():
            import biogeme.biogeme as bio
            import biogeme.expressions as ex

            d3 = make_db(ids, xs)
            d3.panel('id')
            d3.remove(ex.Variable('id') == float(rec['map'][0][0]))
            f3 = make_formula('none', True)
            # either entry point may be the FIRST one to see the edited table
            if (len(ids) + sum(ids)) % 2 == 0:
                direct = [float(v) for v in f3.get_value_c(database=d3, number_of_draws=rec['R'], prepare_ids=True)]
                bg3 = bio.BIOGEME(d3, make_formula('none', True), number_of_draws=rec['R'])
                like = float(bg3.calculate_likelihood([float(BVAL)], scaled=False))
            else:
                bg3 = bio.BIOGEME(d3, make_formula('none', True), number_of_draws=rec['R'])
                like = float(bg3.calculate_likelihood([float(BVAL)], scaled=False))
                direct = [float(v) for v in f3.get_value_c(database=d3, number_of_draws=rec['R'], prepare_ids=True)]
            return direct, like, int(d3.get_sample_size())

        st3, obs3 = forked(after_remove, timeout=120)
        n += 1
        rest = want[1:]
        if st3 != 'ok':
            mism.append(dict(what='evaluation after panel() then remove() of one individual', error=obs3))
        else:
            if len(obs3[0]) != len(rest) or any(not close(g, w, rel=tol) for g, w in zip(obs3[0], rest)):
                mism.append(dict(what='get_value_c after panel() then remove() of one individual', got=obs3[0], want=rest))
            if not close(obs3[1], sum(rest), rel=tol):
                mism.append(dict(what='likelihood after panel() then remove() of one individual', got=obs3[1], want=sum(rest)))
            if obs3[2] != len(rest):
                mism.append(dict(what='sample size after panel() then remove() of one individual', got=obs3[2], want=len(rest)))
    # invariance under the order of individuals and of the rows of one individual (panel)
    if rec['panel'] and len(ids) > 1:
        ids2, xs2 = permuted(ids, xs)
        if (ids2, xs2) != (ids, xs):
            st2, obs2 = forked(evaluate, ids2, xs2, rec, timeout=120)
            n += 1
            if st2 != 'ok' or not obs2.get('panel_accepted', False):
                mism.append(dict(what='permuted table not evaluated', error=obs2))
            else:
                by_id = dict(zip([m[0] for m in rec['map']], want))
                got = dict(zip(obs2['simulate_index'], obs2['simulate']))
                if set(got) != set(float(k) for k in by_id) or any(not close(got[float(k)], v, rel=tol) for k, v in by_id.items()):
                    mism.append(dict(what='values depend on the order of individuals / rows', got=got, want=by_id, ids=ids2, xs=xs2))
    return dict(mismatches=mism, n=n)
