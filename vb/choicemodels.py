"""C05 / C06: the choice models of biogeme.models against specs/ChoiceModels.tla.

The specification generates cases (labels, nest structure, parameters, utilities V_i = ln a_i,
availability) and prints each with the expected probability of every alternative (exact rational or
term), the generating function G and its partial derivatives.  This module

* describes the model instances of a tier (constants of the specification), writes the generated
  root module / cfg and runs TLC (one JVM per family, concurrently);
* replays every case into the real model functions -- through a database whose rows are the
  observations of one structure (utilities log(Variable)), and through plain Numeric expressions --
  and compares (c05_group / c05_numeric / ord_case for C05, c06_group for C06).
"""

from __future__ import annotations

import itertools
import math
import threading
from fractions import Fraction as F

from . import terms, tlc
from .exprenv import tla_q
from .rt import close

TOL_EXACT = 1e-12
TOL_TERM = 1e-9
TOL_SAME = 1e-13   # two ways of writing the same model (tuple syntax / nest objects)
SHIFTS = (3, 4)

MODEL_INVARIANTS = ['ProbUnit', 'SumOne', 'ZeroUnavail', 'PositiveAvail', 'ShiftInvariant', 'MevTheorem', 'Decomposition',
                    'Euler', 'DerivativeExact', 'ReduceToSimpler', 'ScaleOne', 'OrdSorted']

L2, L3, L4 = (5, 2), (7, 1, 4), (12, 3, 7, 5)
L2B, L3B, L4B = (2, 9), (1, 4, 8), (3, 11, 6, 20)
MUS = ('1', '2', '3/2')
ALL_PAIRS = [(x, y) for x in MUS for y in MUS]
ROWS = [('0', '0'), ('1', '0'), ('0', '1'), ('1/2', '1/2')]


def _full(j):
    return [tuple(v) for v in itertools.product((1, 2, 3, 4), repeat=j)]


def runs(tier: str, kinds=None) -> list[dict]:
    """The TLC runs of a tier: name, kinds, constants (python values)."""
    q = tier == 'quick'
    base = dict(ShiftCs=SHIFTS, NlMuPairs=ALL_PAIRS, CnlMuPairs=ALL_PAIRS, TopMus=('1', '2'), AlphaRows=ROWS, GVals=('1/2', '1', '3'),
                OrdLabelSeqs=[(2, 9), (1, 3, 8), (4, 1, 7, 2)], OrdRs=('1',), OrdT1s=('1',), OrdRatios=('1',),
                PrbXs=('0',), PrbT1s=('0',), PrbDiffs=('0',), LabelSeqs=[L2], AVecs=[(1, 2)])
    out = []

    def add(name, kinds_, workers, **kw):
        c = dict(base)
        c.update(kw)
        out.append(dict(name=name, kinds=kinds_, consts=c, workers=workers))

    add('logit', ['logit'], 2, LabelSeqs=[L2, L3, L4] if q else [L2, L3, L4, L2B, L3B, L4B], AVecs=_full(2) + _full(3) + _full(4))
    add('mev', ['mev'], 2, LabelSeqs=[L2, L3, L4],
        AVecs=[(1, 2), (3, 4), (1, 2, 2), (3, 4, 1), (1, 2, 2, 4)] if q else
        _full(2) + [(1, 2, 2), (3, 4, 1), (2, 3, 1), (4, 4, 3), (1, 1, 1), (1, 2, 2, 4), (3, 4, 2, 1), (2, 1, 3, 3), (4, 4, 4, 1)])
    add('ordered', ['ologit', 'oprobit'], 2,
        OrdLabelSeqs=[(2, 9), (1, 3, 8), (4, 1, 7, 2)],
        OrdRs=('1/2', '1', '3') if q else ('1/3', '1/2', '1', '2', '3', '4'),
        OrdT1s=('1/2', '2') if q else ('1/4', '1/2', '1', '2'),
        OrdRatios=('1', '3/2', '2') if q else ('1', '3/2', '2', '4'),
        PrbXs=('-1', '0', '1/2') if q else ('-2', '-1', '0', '1/2', '1', '3'),
        PrbT1s=('-1/2', '1') if q else ('-1', '-1/2', '0', '1'),
        PrbDiffs=('0', '1/2', '2') if q else ('0', '1/2', '1', '2'))
    add('nl', ['nl'], 6, LabelSeqs=[L2, L3, L4],
        AVecs=[(1, 2), (3, 4), (1, 2, 2), (3, 4, 1), (1, 2, 2, 4)] if q else
        _full(2) + [(1, 2, 2), (3, 4, 1), (2, 3, 1), (4, 4, 3), (1, 1, 1), (2, 2, 1), (4, 1, 4), (3, 3, 4), (2, 4, 4), (1, 3, 2)]
        + [(1, 2, 2, 4), (3, 4, 2, 1), (2, 1, 3, 3), (4, 4, 4, 1), (1, 1, 1, 1), (2, 4, 4, 3), (4, 3, 1, 2), (2, 2, 1, 4)])
    add('cnl', ['cnl'], 6, LabelSeqs=[L2, L3],
        AVecs=[(1, 2), (3, 4), (1, 2, 2), (3, 4, 1)] if q else
        _full(2) + [(1, 2, 2), (3, 4, 1), (2, 3, 1), (4, 4, 3), (1, 1, 1), (2, 2, 1), (4, 1, 4), (1, 3, 2)])
    add('cnl4', ['cnl'], 6, LabelSeqs=[L4],
        CnlMuPairs=[('1', '1'), ('2', '1'), ('1', '2'), ('2', '3/2')] if q else ALL_PAIRS,
        TopMus=('1',) if q else ('1', '2'),
        AVecs=[(1, 2, 2, 4)] if q else [(1, 2, 2, 4), (3, 4, 2, 1)])
    if kinds is not None:
        out = [r for r in out if set(r['kinds']) & set(kinds)]
    return out


# ------------------------------------------------------------------------------------ TLC side
def _q(x) -> str:
    return tla_q(F(x))


def _seq(xs, f=str) -> str:
    return '<<' + ', '.join(f(x) for x in xs) + '>>'


def _set(xs, f=str) -> str:
    return '{' + ', '.join(f(x) for x in xs) + '}'


Q_SETS = ('TopMus', 'GVals', 'OrdRs', 'OrdT1s', 'OrdRatios', 'PrbXs', 'PrbT1s', 'PrbDiffs')
DEFINED = ('Kinds', 'LabelSeqs', 'AVecs', 'NlMuPairs', 'CnlMuPairs', 'AlphaRows', 'ShiftCs', 'OrdLabelSeqs') + Q_SETS


def module(run: dict, name: str = 'MCChoice') -> str:
    c = run['consts']
    lines = [f'---- MODULE {name} ----', 'EXTENDS ChoiceModels']
    lines.append('G_Kinds == ' + _set(run['kinds'], lambda k: f'"{k}"'))
    for k in ('LabelSeqs', 'AVecs', 'OrdLabelSeqs'):
        lines.append(f'G_{k} == ' + _set(c[k], _seq))
    for k in ('NlMuPairs', 'CnlMuPairs', 'AlphaRows'):
        lines.append(f'G_{k} == ' + _set(c[k], lambda p: _seq(p, _q)))
    lines.append('G_ShiftCs == ' + _set(c['ShiftCs']))
    for k in Q_SETS:
        lines.append(f'G_{k} == ' + _set(c[k], _q))
    lines.append('====')
    return '\n'.join(lines) + '\n'


def cfg(invariants, mutation: str = 'none', emit: bool = True) -> str:
    out = ['SPECIFICATION Spec', 'CONSTANTS', f' Mutation = "{mutation}"']
    out += [f' {k} <- G_{k}' for k in DEFINED]
    out += [f'INVARIANT {i}' for i in invariants]
    if emit:
        out.append('INVARIANT Emit')
    return '\n'.join(out) + '\n'


def expected_count(run: dict) -> int:
    """Number of finished cases the generator of the specification must produce (counted here
    independently, to notice a TLC run that lost part of its output)."""
    c = run['consts']
    one = F(1)
    n = 0
    navec = {j: sum(1 for a in c['AVecs'] if len(a) == j) for j in (2, 3, 4)}
    nobs = {j: navec[j] * (2 ** j - 1) for j in (2, 3, 4)}
    for kind in run['kinds']:
        if kind in ('ologit', 'oprobit'):
            xs, t1, d = (c['OrdRs'], c['OrdT1s'], c['OrdRatios']) if kind == 'ologit' else (c['PrbXs'], c['PrbT1s'], c['PrbDiffs'])
            for ls in c['OrdLabelSeqs']:
                n += len(xs) * len(t1) * len(d) ** (len(ls) - 2)
            continue
        for ls in c['LabelSeqs']:
            j = len(ls)
            if kind == 'logit':
                n += nobs[j]
            elif kind == 'mev':
                n += len(c['GVals']) ** j * nobs[j]
            else:
                rows = [r for r in ROWS if r != ('1/2', '1/2')] if kind == 'nl' else list(c['AlphaRows'])
                pairs = c['NlMuPairs'] if kind == 'nl' else c['CnlMuPairs']
                for al in itertools.product(rows, repeat=j):
                    used = [any(F(r[m]) != 0 for r in al) for m in (0, 1)]
                    if kind == 'nl':
                        first1 = next((i for i, r in enumerate(al) if F(r[0]) != 0), None)
                        first2 = next((i for i, r in enumerate(al) if F(r[1]) != 0), None)
                        if first2 is not None and (first1 is None or first1 > first2):
                            continue
                    fit = sum(1 for p in pairs if all(used[m] or F(p[m]) == one for m in (0, 1)))
                    n += fit * len(c['TopMus']) * nobs[j]
    return n


def run_models(chk, tier: str, kinds=None, invariants=None) -> dict:
    """Run TLC on every family of the tier (concurrently).  -> {run name: [records]}"""
    todo = runs(tier, kinds)
    res: dict = {}

    def go(run):
        for attempt in range(3):   # a JVM killed from outside leaves neither a verdict nor an error: retry
            r = tlc.run('MCChoice', cfg(invariants or MODEL_INVARIANTS), extra_modules={'MCChoice': module(run)},
                        workers=run['workers'], timeout=2400, heap='3g')
            res[run['name']] = r
            if r.error is None or 'Error:' in (r.error or ''):
                break

    ths = [threading.Thread(target=go, args=(run,)) for run in todo]
    for t in ths:
        t.start()
    for t in ths:
        t.join()
    emitted = {}
    for run in todo:
        r = res[run['name']]
        chk.add_tlc(f'ChoiceModels {run["name"]} ({", ".join(run["kinds"])}): {", ".join(invariants or MODEL_INVARIANTS)}', r)
        want = expected_count(run)
        if len(r.emitted) != want:
            raise tlc.MachineryError(f'run {run["name"]}: {len(r.emitted)} cases emitted, {want} expected: {r.raw[-1500:]}')
        emitted[run['name']] = r.emitted
        r.raw = ''
    return emitted


def run_mutant(run: dict, mutation: str, invariants) -> tlc.TlcResult:
    return tlc.run('MCChoice', cfg(invariants, mutation=mutation, emit=False), extra_modules={'MCChoice': module(run)},
                   workers=2, timeout=900, heap='2g')


# ------------------------------------------------------------------------------------ values of the specification
def fr(q) -> F:
    return F(q[0], q[1])


def expand(t, refs):
    """Substitute the named intermediate sums (App("ref", k)) of an emitted term."""
    if isinstance(t, list):
        return t
    if t['f'] == 'ref':
        return expand(refs[t['a'][0][0] - 1], refs)
    return {'f': t['f'], 'a': [expand(x, refs) for x in t['a']]}


def val(t, refs=None) -> float:
    return float(terms.ev(expand(t, refs) if refs is not None else t))


def vals(ts, refs=None) -> list:
    return [val(t, refs) for t in ts]


def struct_key(r) -> str:
    return repr((r['kind'], r['labels'], r.get('alpha'), r.get('mus'), r.get('mu'), r.get('gi')))


def groups(recs, max_rows: int = 400) -> list:
    """Cases of one structure (they differ in utilities and availability only) are replayed together."""
    by: dict = {}
    for r in recs:
        by.setdefault(struct_key(r), []).append(r)
    out = []
    for g in by.values():
        for k in range(0, len(g), max_rows):
            out.append(g[k:k + max_rows])
    return out


def oracle_check(r) -> list:
    """Where TLC could not decide (irrational terms) the driver evaluates the specification's own
    identities numerically: sum to one, unit interval, MEV theorem from G and G_i, reduction."""
    bad = []
    refs = r.get('refs')
    p = vals(r['p'], refs)
    if abs(sum(p) - 1.0) > 1e-12 or min(p) < 0 or max(p) > 1 + 1e-15:
        bad.append(('spec-sum', p))
    if r['kind'] == 'nl':
        g = val(r['g'], refs)
        dg = vals(r['dg'], refs)
        mu = float(fr(r['mu']))
        for i, a in enumerate(r['a']):
            if r['av'][i] and abs(a * dg[i] / (mu * g) - p[i]) > 1e-12:
                bad.append(('spec-mev', i, a * dg[i] / (mu * g), p[i]))
    if r.get('red', 'none') != 'none':
        rp = vals(r['redp'], refs)
        if max(abs(x - y) for x, y in zip(rp, p)) > 1e-12:
            bad.append(('spec-reduction', rp, p))
    return bad


# ------------------------------------------------------------------------------------ real objects
def preload():
    import numpy  # noqa
    import pandas  # noqa
    import biogeme.database  # noqa
    import biogeme.expressions  # noqa
    import biogeme.models  # noqa
    import biogeme.nests  # noqa


def _db(cols: dict, name='c05'):
    import pandas as pd
    import biogeme.database as db

    return db.Database(name, pd.DataFrame({k: [float(v) for v in vs] for k, vs in cols.items()}))


def _eval(e, database=None, betas=None):
    import numpy as np

    return np.asarray(e.get_value_c(database=database, betas=betas, prepare_ids=True), dtype=float)


def nl_members(r):
    """[(mu_m, [labels])] of the used nests, in nest order."""
    labels = r['labels']
    out = []
    for m in (0, 1):
        mem = [labels[i] for i in range(len(labels)) if fr(r['alpha'][i][m]) != 0]
        if mem:
            out.append((fr(r['mus'][m]), mem))
    return out


def nl_nests(r, syntax: str, param=float):
    from biogeme.nests import NestsForNestedLogit, OneNestForNestedLogit

    mem = nl_members(r)
    if syntax == 'tuple':
        return tuple((param(mu), list(alts)) for mu, alts in mem)
    return NestsForNestedLogit(
        choice_set=list(r['labels']),
        tuple_of_nests=tuple(OneNestForNestedLogit(nest_param=param(mu), list_of_alternatives=list(alts), name=f'n{k}')
                             for k, (mu, alts) in enumerate(mem)))


def cnl_nests(r, syntax: str, zeros: bool = False, param=float):
    """zeros: alternatives of some nest are listed in every nest, with alpha = 0.0 where they do not belong
    (the way the examples of the documentation write it); otherwise they are left out."""
    from biogeme.nests import NestsForCrossNestedLogit, OneNestForCrossNestedLogit

    labels = r['labels']
    nested = [i for i in range(len(labels)) if any(fr(x) != 0 for x in r['alpha'][i])]
    spec = []
    for m in (0, 1):
        al = {labels[i]: float(fr(r['alpha'][i][m])) for i in nested if zeros or fr(r['alpha'][i][m]) != 0}
        if any(v != 0 for v in al.values()):
            spec.append((fr(r['mus'][m]), al))
    if syntax == 'tuple':
        return tuple((param(mu), dict(al)) for mu, al in spec)
    return NestsForCrossNestedLogit(
        choice_set=list(labels),
        tuple_of_nests=tuple(OneNestForCrossNestedLogit(nest_param=param(mu), dict_of_alpha=dict(al), name=f'n{k}')
                             for k, (mu, al) in enumerate(spec)))


def variants(r, V, av, what: str = 'c05', tuple_param=float, scale=float) -> list:
    """(name, family, is_log, builder(choice) -> expression).  `family` pairs a probability function with
    its logarithm; within one structure all variants of a kind must give the same probabilities."""
    import biogeme.models as M
    from biogeme.expressions import Beta, Numeric, log

    kind = r['kind']
    out = []
    if kind == 'logit':
        out.append(('logit', 'logit', False, lambda ch: M.logit(V, av, ch)))
        out.append(('loglogit', 'logit', True, lambda ch: M.loglogit(V, av, ch)))
    elif kind == 'mev':
        lg = {lab: log(Numeric(float(fr(g)))) for lab, g in zip(r['labels'], r['gi'])}
        out.append(('mev', 'mev', False, lambda ch: M.mev(V, lg, av, ch)))
        out.append(('logmev', 'mev', True, lambda ch: M.logmev(V, lg, av, ch)))
    elif kind == 'nl':
        mu1 = fr(r['mu']) == 1
        mu = scale(float(fr(r['mu'])))
        k = itertools.count()
        beta = lambda x: Beta(f'mu_nest_{next(k)}', float(x), None, None, 0)  # noqa
        # C05 looks at values: one way of writing the nests per function (C06 compares the ways with each other)
        styles = [('objects', 'objects', float, ('nested', 'lognested') if mu1 else ('nested_mev_mu', 'lognested_mev_mu')),
                  ('tuple', 'tuple', float, ('nested_mev_mu', 'lognested_mev_mu') if mu1 else ()),
                  ('objects+Beta', 'objects', beta, ('nested', 'lognested_mev_mu') if mu1 else ('nested_mev_mu',))]
        if what == 'c06':
            styles = [('objects', 'objects', float, None), ('tuple', 'tuple', tuple_param, None)]
        for sname, syn, param, sel in styles:
            def mk(fn, syn=syn, param=param, scaled=False):
                if scaled:
                    return lambda ch: fn(V, av, nl_nests(r, syn, param), ch, mu)
                return lambda ch: fn(V, av, nl_nests(r, syn, param), ch)
            cand = []
            if mu1:
                cand.append((f'nested[{sname}]', f'nested[{sname}]', False, mk(M.nested)))
                cand.append((f'lognested[{sname}]', f'nested[{sname}]', True, mk(M.lognested)))
            cand.append((f'nested_mev_mu[{sname}]', f'nested_mev_mu[{sname}]', False, mk(M.nested_mev_mu, scaled=True)))
            cand.append((f'lognested_mev_mu[{sname}]', f'nested_mev_mu[{sname}]', True, mk(M.lognested_mev_mu, scaled=True)))
            out += [c for c in cand if sel is None or base_name(c[0]) in sel]
    elif kind == 'cnl':
        mu1 = fr(r['mu']) == 1
        mu = scale(float(fr(r['mu'])))
        styles = [('objects+zeros', 'objects', True, ('cnl', 'logcnl') if mu1 else ('cnlmu', 'logcnlmu')),
                  ('objects', 'objects', False, ('cnlmu', 'logcnlmu') if mu1 else ()),
                  ('tuple', 'tuple', False, ('cnl',) if mu1 else ('cnlmu',))]
        if what == 'c06':
            styles = [('objects', 'objects', False, None), ('objects+zeros', 'objects', True, None), ('tuple', 'tuple', False, None)]
        for sname, syn, zeros, sel in styles:
            def mk(fn, syn=syn, zeros=zeros, scaled=False):
                if scaled:
                    return lambda ch: fn(V, av, cnl_nests(r, syn, zeros), ch, mu)
                return lambda ch: fn(V, av, cnl_nests(r, syn, zeros), ch)
            cand = []
            if mu1:
                cand.append((f'cnl[{sname}]', f'cnl[{sname}]', False, mk(M.cnl)))
                cand.append((f'logcnl[{sname}]', f'cnl[{sname}]', True, mk(M.logcnl)))
            cand.append((f'cnlmu[{sname}]', f'cnlmu[{sname}]', False, mk(M.cnlmu, scaled=True)))
            cand.append((f'logcnlmu[{sname}]', f'cnlmu[{sname}]', True, mk(M.logcnlmu, scaled=True)))
            out += [c for c in cand if sel is None or base_name(c[0]) in sel]
    return out


def base_name(vname: str) -> str:
    return vname.split('[')[0]


def facts_of(r, fn: str, clause: str, **kw) -> dict:
    """What a known-finding pattern may look at."""
    feats = []
    if r['kind'] in ('nl', 'cnl'):
        alone = [i for i in range(len(r['labels'])) if all(fr(x) == 0 for x in r['alpha'][i])]
        if alone:
            feats.append('alone')
        if len(alone) == len(r['labels']):
            feats.append('no-nest')
        if any(not r['av'][i] for i in range(len(r['labels']))):
            feats.append('unavailable')
        for m in (0, 1):
            mem = [i for i in range(len(r['labels'])) if fr(r['alpha'][i][m]) != 0]
            if mem and not any(r['av'][i] for i in mem):
                feats.append('empty-nest')
    d = dict(kind=r['kind'], function=fn, clause=clause, features=sorted(set(feats)))
    d.update(kw)
    return d


def describe(r) -> dict:
    d = dict(kind=r['kind'], labels=r['labels'])
    if 'a' in r:
        d.update(a=r['a'], av=r['av'])
    if r['kind'] in ('nl', 'cnl'):
        d.update(alpha=[[str(fr(x)) for x in row] for row in r['alpha']], mus=[str(fr(x)) for x in r['mus']], mu=str(fr(r['mu'])))
    if r['kind'] == 'mev':
        d.update(G_i=[str(fr(x)) for x in r['gi']])
    if r['kind'] in ('ologit', 'oprobit'):
        d.update(x=str(fr(r['x'])), thresholds=[str(fr(t)) for t in r['ts']])
    return d


class Collector:
    def __init__(self):
        self.mism = []
        self.n = 0          # comparisons made
        self.evals = 0      # engine evaluations (expression x database)
        self.per_key: dict = {}

    def bad(self, key, r, facts, **detail):
        k = self.per_key.get(key, 0)
        self.per_key[key] = k + 1
        if k < 5:   # a few examples per clause and group are enough
            self.mism.append(dict(key=key, facts=facts, detail=dict(case=describe(r), **detail)))

    def result(self, **kw):
        return dict(mism=self.mism, n=self.n, evals=self.evals, counts=self.per_key, **kw)


def _logclose(lg, p, tol):
    """lg = ln p ?  (ln 0 = -inf)"""
    if p == 0.0:
        return lg == -math.inf
    return close(lg, math.log(p), rel=tol)


# ------------------------------------------------------------------------------------ C05
def _obs_database(group, shifts=(), name='c05'):
    """One row per (constant c, observation, chosen alternative): columns a_<label> = c a_i, v_<label>, choice."""
    labels = group[0]['labels']
    cols = {f'a_{lab}': [] for lab in labels}
    cols.update({f'v_{lab}': [] for lab in labels})
    cols['choice'] = []
    for c in (1,) + tuple(shifts):
        for r in group:
            for ch in labels:
                for i, lab in enumerate(labels):
                    cols[f'a_{lab}'].append(c * r['a'][i])
                    cols[f'v_{lab}'].append(r['av'][i])
                cols['choice'].append(ch)
    return _db(cols, name)


def c05_group(group, corrupt=None, only=None) -> dict:
    """All observations of one structure through a database (the chosen alternative is a column, so that
    one evaluation gives the probability of every alternative of every observation): values, unit
    interval, sum, zero when unavailable, invariance under a -> c a, log* = ln(*), all-available cases
    also with av = None."""
    import numpy as np
    from biogeme.expressions import Variable, log

    col = Collector()
    r0 = group[0]
    kind, labels = r0['kind'], r0['labels']
    J = len(labels)
    shifts = SHIFTS if kind in ('logit', 'nl', 'cnl') else ()
    nb = len(group)
    db = _obs_database(group, shifts)
    V = {lab: log(Variable(f'a_{lab}')) for lab in labels}
    # availabilities are keyed by alternative: the dictionary is written in ANOTHER key order than the utilities
    av = {lab: Variable(f'v_{lab}') for lab in reversed(labels)}
    choice = Variable('choice')
    want = [vals(r['p'], r.get('refs')) for r in group]
    if corrupt is not None:
        want = [corrupt(w) for w in want]
    full = [k for k, r in enumerate(group) if all(r['av'])]

    def run(vs, tag=''):
        out = {}
        for vname, fam, is_log, build in vs:
            if only is not None and base_name(vname) not in only:
                continue
            try:
                out[vname] = _eval(build(choice), db).reshape(1 + len(shifts), nb, J)   # [constant, observation, alternative]
            except Exception as e:  # noqa  (the process is abandoned: the engine keeps a sticky error state)
                raise RuntimeError(f'{vname}{tag} on {describe(r0)}: {type(e).__name__}: {e}')
            col.evals += 1
        return out

    vlist = variants(r0, V, av)
    got = run(vlist)
    got_none = run([v for v in variants(r0, V, None) if '[' not in v[0] or v[0].endswith('[objects]') or v[0].endswith('[objects+zeros]')],
                   ' (availability None)') if full else {}
    is_log_of = {v[0]: v[2] for v in vlist}
    prob_of: dict = {}   # base probability function -> one evaluated variant of it
    for vname, fam, is_log, _ in vlist:
        if vname in got and not is_log:
            prob_of.setdefault(base_name(fam), vname)

    for vname, fam, is_log, _ in vlist:
        if vname not in got:
            continue
        fn = base_name(vname)
        arr = got[vname]
        for k, r in enumerate(group):
            tol = TOL_EXACT if r['exact'] else TOL_TERM
            v = arr[0, k]
            w = want[k]
            if is_log:
                col.n += J
                for i in range(J):
                    if not _logclose(v[i], w[i], tol):
                        col.bad(f'{kind}:{fn}:value', r, facts_of(r, fn, 'value', variant=vname), alternative=labels[i],
                                got=float(v[i]), want_ln_of=w[i])
                if base_name(fam) in prob_of:
                    pv = got[prob_of[base_name(fam)]][0, k]
                    col.n += J
                    for i in range(J):
                        if not _logclose(v[i], pv[i], tol):
                            col.bad(f'{kind}:{fn}:log-of-probability', r, facts_of(r, fn, 'log', variant=vname), alternative=labels[i],
                                    log_function=float(v[i]), probability_function=float(pv[i]), probability_variant=prob_of[base_name(fam)])
                continue
            col.n += 3 * J + 1
            for i in range(J):
                if not close(v[i], w[i], rel=tol):
                    col.bad(f'{kind}:{fn}:value', r, facts_of(r, fn, 'value', variant=vname), alternative=labels[i], got=float(v[i]),
                            want=w[i], expected_term=terms.show(expand(r['p'][i], r.get('refs'))) if not r['exact'] else str(w[i]))
                if not (0.0 <= v[i] <= 1.0 + 1e-12):
                    col.bad(f'{kind}:{fn}:unit-interval', r, facts_of(r, fn, 'unit', variant=vname), alternative=labels[i], got=float(v[i]))
                if not r['av'][i] and v[i] != 0.0:
                    col.bad(f'{kind}:{fn}:zero-when-unavailable', r, facts_of(r, fn, 'zero', variant=vname), alternative=labels[i],
                            got=float(v[i]))
            if not close(float(v.sum()), 1.0, rel=TOL_EXACT):
                col.bad(f'{kind}:{fn}:sum-to-one', r, facts_of(r, fn, 'sum', variant=vname), got=[float(x) for x in v])
            for s, c in enumerate(shifts):
                vs = arr[s + 1, k]
                col.n += J
                if not all(close(vs[i], v[i], rel=tol) for i in range(J)):
                    col.bad(f'{kind}:{fn}:shift-invariance', r, facts_of(r, fn, 'shift', variant=vname), constant=f'ln {c}',
                            got=[float(x) for x in vs], base=[float(x) for x in v])
    for vname, arr in got_none.items():
        fn = base_name(vname)
        for k in full:
            r = group[k]
            tol = TOL_EXACT if r['exact'] else TOL_TERM
            col.n += J
            for i in range(J):
                x = arr[0, k, i]
                ok = _logclose(x, want[k][i], tol) if is_log_of[vname] else close(x, want[k][i], rel=tol)
                if not ok:
                    col.bad(f'{kind}:{fn}:value-availability-None', r, facts_of(r, fn, 'value-none', variant=vname),
                            alternative=labels[i], got=float(x), want=want[k][i])
    sample = None
    if got:
        vname = next(iter(got))
        k = next((k for k, r in enumerate(group) if sum(r['av']) >= 2 and len(set(r['a'])) > 1), 0)
        sample = dict(case=describe(group[k]), function=vname,
                      expected=[terms.show(expand(t, group[k].get('refs'))) if group[k]['exact'] else want[k][i]
                                for i, t in enumerate(group[k]['p'])],
                      observed=[float(x) for x in got[vname][0, k]])
    oracle = [(describe(r), b) for r in group for b in oracle_check(r)]
    return col.result(cases=len(group), sample=sample, oracle=oracle[:3], inexact=sum(1 for r in group if not r['exact']))


def c05_numeric(r) -> dict:
    """One case with plain numbers: V_i = log(Numeric(a_i)), availability Numeric(0/1), chosen alternative
    Numeric(label), no database; the scale of nested_mev_mu / cnlmu is a free parameter."""
    from biogeme.expressions import Beta, Numeric, log

    col = Collector()
    labels = r['labels']
    J = len(labels)
    V = {lab: log(Numeric(float(a))) for lab, a in zip(labels, r['a'])}
    av = {lab: Numeric(int(x)) for lab, x in reversed(list(zip(labels, r['av'])))}
    want = vals(r['p'], r.get('refs'))
    tol = TOL_EXACT if r['exact'] else TOL_TERM
    for vname, fam, is_log, build in variants(r, V, av, what='c06', scale=lambda x: Beta('mu_scale', x, None, None, 0)):
        if '[' in vname and not vname.endswith('[objects]'):
            continue
        fn = base_name(vname)
        try:
            v = [float(_eval(build(Numeric(lab)))) for lab in labels]
        except Exception as e:  # noqa
            raise RuntimeError(f'{vname} on {describe(r)}: {type(e).__name__}: {e}')
        col.evals += J
        col.n += J + 1
        for i in range(J):
            ok = _logclose(v[i], want[i], tol) if is_log else close(v[i], want[i], rel=tol)
            if not ok:
                col.bad(f'{r["kind"]}:{fn}:value-numeric', r, facts_of(r, fn, 'value-numeric', variant=vname), alternative=labels[i],
                        got=v[i], want=want[i])
        if not is_log and not close(sum(v), 1.0, rel=TOL_EXACT):
            col.bad(f'{r["kind"]}:{fn}:sum-to-one-numeric', r, facts_of(r, fn, 'sum-numeric', variant=vname), got=v)
    return col.result(cases=1)


def ord_case(r, corrupt=None) -> dict:
    """Ordered logit / probit: every category of one case."""
    from biogeme.expressions import Beta, Numeric, log
    import biogeme.models as M

    col = Collector()
    labels = r['labels']
    K = len(labels)
    x = fr(r['x'])
    ts = [fr(t) for t in r['ts']]
    if r['kind'] == 'ologit':   # the specification works with e^x and e^tau
        xe = log(Numeric(float(x)))
        taus = [math.log(float(t)) for t in ts]
        fn = M.ordered_logit
    else:
        xe = Numeric(float(x))
        taus = [float(t) for t in ts]
        fn = M.ordered_probit
    tau = Beta('tau1', taus[0], None, None, 0)
    betas = {f'tau1_diff_{labels[k]}': taus[k] - taus[k - 1] for k in range(1, K - 1)}
    want = vals(r['p'])
    if corrupt is not None:
        want = corrupt(want)
    tol = TOL_EXACT if r['exact'] else TOL_TERM
    name = fn.__name__
    try:
        probs = fn(continuous_value=xe, list_of_discrete_values=list(labels), tau_parameter=tau)
        if list(probs) != list(labels):
            col.bad(f'{r["kind"]}:{name}:categories', r, dict(kind=r['kind'], function=name, clause='categories', features=[]),
                    got=list(probs))
        v = [float(_eval(probs[lab], betas=betas)) for lab in labels]
    except Exception as e:  # noqa
        raise RuntimeError(f'{name} on {describe(r)}: {type(e).__name__}: {e}')
    col.evals += K
    col.n += 2 * K + 1
    f = dict(kind=r['kind'], function=name, features=['equal-thresholds'] if len(set(ts)) < len(ts) else [])
    for k in range(K):
        if not close(v[k], want[k], rel=tol):
            col.bad(f'{r["kind"]}:{name}:value', r, dict(f, clause='value'), category=labels[k], got=v[k], want=want[k])
        if not (-1e-15 <= v[k] <= 1.0 + 1e-12):
            col.bad(f'{r["kind"]}:{name}:unit-interval', r, dict(f, clause='unit'), category=labels[k], got=v[k])
    if not close(sum(v), 1.0, rel=TOL_EXACT):
        col.bad(f'{r["kind"]}:{name}:sum-to-one', r, dict(f, clause='sum'), got=v)
    return col.result(cases=1, sample=dict(case=describe(r), function=name, expected=[terms.show(t) for t in r['p']], observed=v))


# ------------------------------------------------------------------------------------ C06
def buggy_generating(util, availability, nests):
    """The generating function as it stood before the repair (an alternative alone contributes its
    utility instead of exp(utility)); used as negative control on a repaired tree."""
    from biogeme.expressions import ConditionalSum, ConditionalTermTuple, Numeric, bioMultSum, exp

    terms_ = []
    for m in nests:
        if availability is None:
            the_sum = bioMultSum([exp(m.nest_param * util[i]) for i in m.list_of_alternatives])
        else:
            the_sum = ConditionalSum([ConditionalTermTuple(condition=availability[i] != Numeric(0), term=exp(m.nest_param * util[i]))
                                      for i in m.list_of_alternatives])
        terms_.append(the_sum ** (1.0 / m.nest_param))
    for i in nests.alone:
        terms_.append(util[i])
    return bioMultSum(terms_)


def c06_group(group, generating=None, corrupt_dg=None, tuple_param=float, nl_of=None, parts=('reductions', 'generating')) -> dict:
    """One structure of a nested / cross-nested logit:
    reductions (code against code, and against the specification's reduced model), scale one, tuple
    syntax = nest objects; for the nested logit the generating function, its gradient (engine) and the
    published terms ln dG/dy_i."""
    import numpy as np
    import biogeme.models as M
    from biogeme.expressions import Beta, Numeric, Variable, log

    col = Collector()
    r0 = group[0]
    kind, labels = r0['kind'], r0['labels']
    J = len(labels)
    mu = float(fr(r0['mu']))
    sample = None

    def ev_all(build, db):
        """-> [alternative, observation]"""
        try:
            out = _eval(build(Variable('choice')), db).reshape(len(group), J).T
        except Exception as e:  # noqa
            raise RuntimeError(f'{describe(r0)}: {type(e).__name__}: {e}')
        col.evals += 1
        return out

    def same(key, clause, fa, a, fb, b, tol_of):
        """a, b: [alternative, row]"""
        for k, r in enumerate(group):
            col.n += J
            tol = tol_of(r)
            for i in range(J):
                x, y = a[i, k], b[i, k]
                ok = (x == y) or close(x, y, rel=tol)
                if not ok:
                    col.bad(f'{kind}:{key}', r, facts_of(r, fa, clause, other=fb), alternative=labels[i], **{fa: float(x), fb: float(y)})

    if 'reductions' in parts:
        db = _obs_database(group, name='c06')
        V = {lab: log(Variable(f'a_{lab}')) for lab in labels}
        av = {lab: Variable(f'v_{lab}') for lab in reversed(labels)}
        got = {vname: ev_all(build, db) for vname, fam, is_log, build in variants(r0, V, av, what='c06', tuple_param=tuple_param)}
        tol_term = lambda r: TOL_EXACT if r['exact'] else TOL_TERM  # noqa
        tol_same = lambda r: TOL_SAME  # noqa
        names = sorted({base_name(v) for v in got})
        # legacy tuple syntax = nest objects (and, for the CNL, zero allocations written or left out)
        for fn in names:
            for other in ('tuple', 'objects+zeros'):
                if f'{fn}[{other}]' in got:
                    same(f'{fn}:{other}-vs-objects', 'syntax', f'{fn}[objects]', got[f'{fn}[objects]'], f'{fn}[{other}]', got[f'{fn}[{other}]'],
                         tol_same)
        # explicit scale one = no scale
        if mu == 1.0:
            for plain, scaled in (('nested', 'nested_mev_mu'), ('lognested', 'lognested_mev_mu'), ('cnl', 'cnlmu'), ('logcnl', 'logcnlmu')):
                if f'{plain}[objects]' in got:
                    same(f'{scaled}:scale-one', 'scale-one', f'{scaled}(mu=1)', got[f'{scaled}[objects]'], plain, got[f'{plain}[objects]'],
                         tol_term)
        # reductions
        red = r0['red']
        if red == 'logit':
            lg = ev_all(lambda ch: M.logit(V, av, ch), db)
            llg = ev_all(lambda ch: M.loglogit(V, av, ch), db)
            same('nested:all-nest-parameters-one', 'reduce-logit', 'nested', got['nested[objects]'], 'logit', lg, tol_term)
            same('lognested:all-nest-parameters-one', 'reduce-logit', 'lognested', got['lognested[objects]'], 'loglogit', llg, tol_term)
            same('nested_mev_mu:all-nest-parameters-one', 'reduce-logit', 'nested_mev_mu', got['nested_mev_mu[objects]'], 'logit', lg, tol_term)
        if red == 'nl':
            nests = (nl_of or (lambda r: nl_nests(r, 'objects')))(r0)
            if mu == 1.0:
                nv = ev_all(lambda ch: M.nested(V, av, nests, ch), db)
                same('cnl:one-nest-per-alternative', 'reduce-nl', 'cnl', got['cnl[objects]'], 'nested', nv, tol_term)
                same('cnl:one-nest-per-alternative', 'reduce-nl', 'cnl[objects+zeros]', got['cnl[objects+zeros]'], 'nested', nv, tol_term)
                lnv = ev_all(lambda ch: M.lognested(V, av, nests, ch), db)
                same('logcnl:one-nest-per-alternative', 'reduce-nl', 'logcnl', got['logcnl[objects]'], 'lognested', lnv, tol_term)
            nmv = ev_all(lambda ch: M.nested_mev_mu(V, av, nests, ch, mu), db)
            same('cnlmu:one-nest-per-alternative', 'reduce-nl', 'cnlmu', got['cnlmu[objects]'], 'nested_mev_mu', nmv, tol_term)
            same('cnlmu:one-nest-per-alternative', 'reduce-nl', 'cnlmu[objects+zeros]', got['cnlmu[objects+zeros]'], 'nested_mev_mu', nmv, tol_term)
        if red != 'none':
            # ... and both sides agree with the model the specification reduces to
            main = 'nested_mev_mu[objects]' if kind == 'nl' else 'cnlmu[objects]'
            for k, r in enumerate(group):
                rp = vals(r['redp'], r.get('refs'))
                col.n += J
                for i in range(J):
                    if not close(got[main][i, k], rp[i], rel=tol_term(r)):
                        col.bad(f'{kind}:{base_name(main)}:reduced-model-value', r, facts_of(r, base_name(main), 'reduce-value'),
                                alternative=labels[i], got=float(got[main][i, k]), reduced_model=rp[i])
        k = next((k for k, r in enumerate(group) if sum(r['av']) >= 2 and len(set(r['a'])) > 1), 0)
        sample = dict(case=describe(group[k]), reduces_to=red,
                      **{v: [float(x) for x in got[v][:, k]] for v in list(got)[:4]})

    if 'generating' in parts and kind == 'nl':
        gen = generating or M.get_mev_generating_for_nested
        patterns = sorted({tuple(r['av']) for r in group})
        dbav = _db({f'v_{lab}': [p[i] for p in patterns] for i, lab in enumerate(labels)}, name='c06av')
        y = {lab: Beta(f'y_{lab}', 1.0, None, None, 0) for lab in labels}
        Vy = {lab: log(y[lab]) for lab in labels}
        avv = {lab: Variable(f'v_{lab}') for lab in labels}
        nests = nl_nests(r0, 'objects')
        mems = nl_members(r0)
        try:
            G = gen(Vy, avv, nests)
            lg1 = M.get_mev_for_nested(Vy, avv, nests)
            lgm = M.get_mev_for_nested_mu(Vy, avv, nests, mu)
            # G_mu(y) = G_1[mu_m / mu](y^mu): the published (scale-free) generating function, rescaled
            from biogeme.nests import NestsForNestedLogit, OneNestForNestedLogit
            rescaled = NestsForNestedLogit(choice_set=list(labels), tuple_of_nests=tuple(
                OneNestForNestedLogit(nest_param=float(m / fr(r0['mu'])), list_of_alternatives=list(alts), name=f'n{k}')
                for k, (m, alts) in enumerate(mems)))
            Gmu = gen({lab: mu * Vy[lab] for lab in labels}, avv, rescaled)
            if set(lg1) != set(labels) or set(lgm) != set(labels):
                col.bad('nl:get_mev_for_nested:keys', r0, facts_of(r0, 'get_mev_for_nested', 'keys'), got=sorted(lg1), want=sorted(labels))
        except Exception as e:  # noqa
            raise RuntimeError(f'generating function of {describe(r0)}: {type(e).__name__}: {e}')
        by_a: dict = {}
        for r in group:
            by_a.setdefault(tuple(r['a']), {})[tuple(r['av'])] = r
        for a, recs in by_a.items():
            betas = {f'y_{lab}': float(a[i]) for i, lab in enumerate(labels)}
            try:
                og = G.get_value_and_derivatives(betas=betas, database=dbav, gradient=True, hessian=False, bhhh=False, aggregation=False,
                                                 prepare_ids=True, named_results=True)
                ogm = Gmu.get_value_and_derivatives(betas=betas, database=dbav, gradient=True, hessian=False, bhhh=False,
                                                    aggregation=False, prepare_ids=True, named_results=True)
                t1 = {lab: _eval(lg1[lab], dbav, betas) for lab in labels}
                tm = {lab: _eval(lgm[lab], dbav, betas) for lab in labels}
            except Exception as e:  # noqa
                raise RuntimeError(f'generating function of {describe(r0)} at y={a}: {type(e).__name__}: {e}')
            col.evals += 2 + 2 * J
            for row, pat in enumerate(patterns):
                r = recs.get(pat)
                if r is None:
                    continue
                tol = TOL_EXACT if all(isinstance(t, list) for t in r['dg']) else TOL_TERM
                refs = r['refs']
                want_g = val(r['g'], refs)
                want_dg = vals(r['dg'], refs)
                if corrupt_dg is not None:
                    want_dg = corrupt_dg(want_dg)
                grad = {nm: float(x) for nm, x in og.gradients[row].items()}
                grad_m = {nm: float(x) for nm, x in ogm.gradients[row].items()}
                feats = facts_of(r, 'get_mev_generating_for_nested', 'generating')
                if mu == 1.0:
                    col.n += 1
                    if not close(float(og.functions[row]), want_g, rel=tol):
                        col.bad('nl:get_mev_generating_for_nested:value', r, dict(feats, clause='G-value'),
                                got=float(og.functions[row]), want=want_g, G=terms.show(expand(r['g'], refs)))
                col.n += 1
                if not close(float(ogm.functions[row]), want_g, rel=tol):
                    col.bad('nl:get_mev_generating_for_nested:value-rescaled', r, dict(feats, clause='G-value-rescaled'),
                            got=float(ogm.functions[row]), want=want_g, G=terms.show(expand(r['g'], refs)))
                for i, lab in enumerate(labels):
                    if not r['av'][i]:
                        # G does not depend on an unavailable alternative
                        col.n += 1
                        if grad.get(f'y_{lab}', 0.0) != 0.0 and mu == 1.0:
                            col.bad('nl:get_mev_generating_for_nested:unavailable-derivative', r, dict(feats, clause='dG-unavailable'),
                                    alternative=lab, dG_dy=grad[f'y_{lab}'])
                        continue
                    alone = all(fr(x) == 0 for x in r['alpha'][i])
                    pos = 'alone' if alone else 'nested'
                    pub_m = math.exp(float(tm[lab][row]))
                    col.n += 2
                    # the published terms against the derivative the specification states ...
                    if not close(pub_m, want_dg[i], rel=tol):
                        col.bad('nl:get_mev_for_nested_mu:term-vs-specification', r,
                                dict(facts_of(r, 'get_mev_for_nested_mu', 'dG-spec'), position=pos), alternative=lab,
                                exp_of_term=pub_m, dG_dy=want_dg[i], dG_dy_term=terms.show(expand(r['dg'][i], refs)))
                    # ... and against the derivative of the published generating function (engine gradient)
                    if not close(pub_m, grad_m.get(f'y_{lab}', 0.0), rel=TOL_TERM):
                        col.bad('nl:get_mev_for_nested_mu:term-vs-gradient-of-G', r,
                                dict(facts_of(r, 'get_mev_for_nested_mu', 'dG-gradient'), position=pos), alternative=lab,
                                exp_of_term=pub_m, gradient_of_published_G=grad_m.get(f'y_{lab}', 0.0), specification=want_dg[i])
                    if mu == 1.0:
                        pub = math.exp(float(t1[lab][row]))
                        col.n += 2
                        if not close(pub, want_dg[i], rel=tol):
                            col.bad('nl:get_mev_for_nested:term-vs-specification', r,
                                    dict(facts_of(r, 'get_mev_for_nested', 'dG-spec'), position=pos), alternative=lab,
                                    exp_of_term=pub, dG_dy=want_dg[i], dG_dy_term=terms.show(expand(r['dg'][i], refs)))
                        if not close(pub, grad.get(f'y_{lab}', 0.0), rel=TOL_TERM):
                            col.bad('nl:get_mev_for_nested:term-vs-gradient-of-G', r,
                                    dict(facts_of(r, 'get_mev_for_nested', 'dG-gradient'), position=pos), alternative=lab,
                                    exp_of_term=pub, gradient_of_published_G=grad.get(f'y_{lab}', 0.0), specification=want_dg[i])
                if sample is not None and 'G' not in sample and mu == 1.0 and sum(r['av']) >= 2:
                    sample.update(G=dict(case=describe(r), G_expected=terms.show(expand(r['g'], refs)), G_observed=float(og.functions[row]),
                                         dG_expected=want_dg, gradient_observed=[grad.get(f'y_{lab}') for lab in labels],
                                         exp_of_published_terms=[math.exp(float(t1[lab][row])) for lab in labels]))
    return col.result(cases=len(group), sample=sample, inexact=sum(1 for r in group if not r['exact']))


# ------------------------------------------------------------------------------------ reporting
def report(chk, label: str, items, results, samples: dict | None = None) -> dict:
    """Replay results -> counts / violations of the check.  -> statistics of this batch."""
    stat = dict(items=len(items), cases=0, comparisons=0, engine_evaluations=0, mismatching_comparisons={}, inexact_cases=0)
    if samples is not None and items:   # a sample from the middle of the enumeration (the first structures are the degenerate ones)
        st, v = results[(2 * len(items)) // 3]
        if st == 'ok' and v.get('sample'):
            samples[label] = v['sample']
    for item, (st, v) in zip(items, results):
        first = item[0] if isinstance(item, list) else item
        if st != 'ok':
            chk.violation(f'{label}:replay-{st}', dict(case=describe(first), error=v),
                          match=dict(kind=first['kind'], clause='exception', features=facts_of(first, '', '')['features']
                                     if first['kind'] in ('nl', 'cnl') else []))
            continue
        if v.get('oracle'):
            raise tlc.MachineryError(f'the specification disagrees with itself numerically: {v["oracle"]}')
        stat['cases'] += v['cases']
        stat['comparisons'] += v['n']
        stat['engine_evaluations'] += v['evals']
        stat['inexact_cases'] += v.get('inexact', 0)
        chk.replayed += v['cases']
        chk.count(None, v['n'])
        for k, c in v['counts'].items():
            stat['mismatching_comparisons'][k] = stat['mismatching_comparisons'].get(k, 0) + c
        for m in v['mism']:
            chk.violation(m['key'], m['detail'], match=m['facts'])
        if samples is not None and v.get('sample') and label not in samples:
            samples[label] = v['sample']
    return stat
