"""C05 / C06: the choice models of biogeme.models against specs/ChoiceModels.tla.

The specification generates cases (labels, nest structure, parameters, utilities V_i = ln a_i,
availability) and prints each with the expected probability of every alternative (exact rational or
term), the generating function G and its partial derivatives.  This module

* describes the model instances of a tier (constants of the specification), writes the generated
  root module / cfg and runs TLC (one JVM per family, concurrently);
* replays every case into the real model functions -- through a database whose rows are the
  observations of one structure (utilities log(Variable)), and through plain Numeric expressions --
  and compares (c05_group / c05_numeric / ord_case for C05, c06_group for C06).
"""

from __future__ import annotations

import itertools
import math
import threading
from fractions import Fraction as F

from . import terms, tlc
from .exprenv import tla_q
from .rt import close

TOL_EXACT = 1e-12
TOL_TERM = 1e-9
TOL_SAME = 1e-13   # two ways of writing the same model (tuple syntax / nest objects)
SHIFTS = (3, 4)

MODEL_INVARIANTS = ['ProbUnit', 'SumOne', 'ZeroUnavail', 'PositiveAvail', 'ShiftInvariant', 'MevTheorem', 'Decomposition',
                    'Euler', 'DerivativeExact', 'ReduceToSimpler', 'ScaleOne', 'OrdSorted', 'NamesIrrelevant', 'Memoryless']

L2, L3, L4 = (5, 2), (7, 1, 4), (12, 3, 7, 5)
L2B, L3B, L4B = (2, 9), (1, 4, 8), (3, 11, 6, 20)
MUS = ('1', '2', '3/2')
ALL_PAIRS = [(x, y) for x in MUS for y in MUS]
QUICK_PAIRS = [('1', '1'), ('2', '1'), ('1', '3/2'), ('3/2', '2'), ('2', '2')]
ROWS = [('0', '0'), ('1', '0'), ('0', '1'), ('1/2', '1/2')]
# Ways of naming the two nest objects ('' = no name given: the library gives a default name, 'nest_<position>' or the like).
# The first one is the naming of the plain replay; 'clash': the first nest is given the name that is the usual default name of the second.
NAMINGS = {'distinct': ('n0', 'n1'), 'unnamed': ('', ''), 'same': ('N', 'N'), 'clash': ('nest_2', '')}
BASE_NAMING = 'distinct'
NAMING_OF = {v: k for k, v in NAMINGS.items()}


def _full(j):
    return [tuple(v) for v in itertools.product((1, 2, 3, 4), repeat=j)]


def runs(tier: str, kinds=None) -> list[dict]:
    """The TLC runs of a tier: name, kinds, constants (python values)."""
    q = tier == 'quick'
    base = dict(ShiftCs=SHIFTS, NlMuPairs=ALL_PAIRS, CnlMuPairs=ALL_PAIRS, TopMus=('1', '2'), AlphaRows=ROWS, GVals=('1/2', '1', '3'),
                OrdLabelSeqs=[(2, 9), (1, 3, 8), (4, 1, 7, 2), (4, 3, 2, 1)], OrdRs=('1',), OrdT1s=('1',), OrdRatios=('1',),
                PrbXs=('0',), PrbT1s=('0',), PrbDiffs=('0',), LabelSeqs=[L2], AVecs=[(1, 2)], Steps=1, Namings=list(NAMINGS.values()))
    out = []

    def add(name, kinds_, workers, **kw):
        c = dict(base)
        c.update(kw)
        out.append(dict(name=name, kinds=kinds_, consts=c, workers=workers))

    add('logit', ['logit'], 2, LabelSeqs=[L2, L3, L4] if q else [L2, L3, L4, L2B, L3B, L4B], AVecs=_full(2) + _full(3) + _full(4))
    add('mev', ['mev'], 2, LabelSeqs=[L2, L3, L4],
        AVecs=[(1, 2), (3, 4), (1, 2, 2), (3, 4, 1), (1, 2, 2, 4)] if q else
        _full(2) + [(1, 2, 2), (3, 4, 1), (2, 3, 1), (4, 4, 3), (1, 1, 1), (1, 2, 2, 4), (3, 4, 2, 1), (2, 1, 3, 3), (4, 4, 4, 1)])
    add('ordered', ['ologit', 'oprobit'], 2,
        OrdLabelSeqs=[(2, 9), (1, 3, 8), (4, 1, 7, 2), (4, 3, 2, 1)],
        OrdRs=('1/2', '1', '3') if q else ('1/3', '1/2', '1', '2', '3', '4'),
        OrdT1s=('1/2', '2') if q else ('1/4', '1/2', '1', '2'),
        OrdRatios=('1', '3/2', '2') if q else ('1', '3/2', '2', '4'),
        PrbXs=('-1', '0', '1/2') if q else ('-2', '-1', '0', '1/2', '1', '3'),
        PrbT1s=('-1/2', '1') if q else ('-1', '-1/2', '0', '1'),
        PrbDiffs=('0', '1/2', '2') if q else ('0', '1/2', '1', '2'))
    add('nl', ['nl'], 6, LabelSeqs=[L2, L3, L4], NlMuPairs=QUICK_PAIRS if q else ALL_PAIRS,
        AVecs=[(1, 2), (3, 4), (1, 2, 2), (3, 4, 1), (1, 2, 2, 4)] if q else
        _full(2) + [(1, 2, 2), (3, 4, 1), (2, 3, 1), (4, 4, 3), (1, 1, 1), (2, 2, 1), (4, 1, 4), (3, 3, 4), (2, 4, 4), (1, 3, 2)]
        + [(1, 2, 2, 4), (3, 4, 2, 1), (2, 1, 3, 3), (4, 4, 4, 1), (1, 1, 1, 1), (2, 4, 4, 3), (4, 3, 1, 2), (2, 2, 1, 4)])
    # quick: five of the nine pairs of nest parameters (each value with each other one, equal and different), so that the
    # replays under the other namings of the nests and after modifications of the dictionaries fit into the same time
    add('cnl', ['cnl'], 6, LabelSeqs=[L2, L3], CnlMuPairs=QUICK_PAIRS if q else ALL_PAIRS,
        AVecs=[(1, 2), (3, 4), (1, 2, 2), (3, 4, 1)] if q else
        _full(2) + [(1, 2, 2), (3, 4, 1), (2, 3, 1), (4, 4, 3), (1, 1, 1), (2, 2, 1), (4, 1, 4), (1, 3, 2)])
    add('cnl4', ['cnl'], 6, LabelSeqs=[L4],
        CnlMuPairs=[('1', '2'), ('2', '3/2')] if q else ALL_PAIRS,
        TopMus=('1',) if q else ('1', '2'),
        AVecs=[(1, 2, 2, 4), (3, 4, 2, 1)])
    # two-step behaviours (Steps = 2): a second construction from the same, modified objects
    add('session', ['nl', 'cnl', 'mev'], 4, Steps=2, LabelSeqs=[L3],
        AVecs=[(1, 2, 2)] if q else [(1, 2, 2), (3, 4, 1)],
        NlMuPairs=[('2', '3/2')] if q else [('2', '1'), ('2', '3/2')], CnlMuPairs=[('2', '3/2')] if q else [('2', '1'), ('1', '3/2'), ('3/2', '2')],
        AlphaRows=[('0', '0'), ('1', '0'), ('1/2', '1/2')], TopMus=('1',) if q else ('1', '2'),
        GVals=('1/2', '3'))
    if kinds is not None:
        out = [r for r in out if set(r['kinds']) & set(kinds)]
    return out


# ------------------------------------------------------------------------------------ TLC side
def _q(x) -> str:
    return tla_q(F(x))


def _seq(xs, f=str) -> str:
    return '<<' + ', '.join(f(x) for x in xs) + '>>'


def _set(xs, f=str) -> str:
    return '{' + ', '.join(f(x) for x in xs) + '}'


Q_SETS = ('TopMus', 'GVals', 'OrdRs', 'OrdT1s', 'OrdRatios', 'PrbXs', 'PrbT1s', 'PrbDiffs')
DEFINED = ('Kinds', 'LabelSeqs', 'AVecs', 'NlMuPairs', 'CnlMuPairs', 'AlphaRows', 'ShiftCs', 'OrdLabelSeqs', 'Namings') + Q_SETS


def module(run: dict, name: str = 'MCChoice') -> str:
    c = run['consts']
    lines = [f'---- MODULE {name} ----', 'EXTENDS ChoiceModels']
    lines.append('G_Kinds == ' + _set(run['kinds'], lambda k: f'"{k}"'))
    for k in ('LabelSeqs', 'AVecs', 'OrdLabelSeqs'):
        lines.append(f'G_{k} == ' + _set(c[k], _seq))
    for k in ('NlMuPairs', 'CnlMuPairs', 'AlphaRows'):
        lines.append(f'G_{k} == ' + _set(c[k], lambda p: _seq(p, _q)))
    lines.append('G_ShiftCs == ' + _set(c['ShiftCs']))
    lines.append('G_Namings == ' + _set(c.get('Namings', list(NAMINGS.values())), lambda nm: _seq(nm, lambda x: f'"{x}"')))
    for k in Q_SETS:
        lines.append(f'G_{k} == ' + _set(c[k], _q))
    lines.append('====')
    return '\n'.join(lines) + '\n'


def cfg(invariants, mutation: str = 'none', emit: bool = True, steps: int = 1) -> str:
    out = ['SPECIFICATION Spec', 'CONSTANTS', f' Mutation = "{mutation}"', f' Steps = {steps}']
    out += [f' {k} <- G_{k}' for k in DEFINED]
    out += [f'INVARIANT {i}' for i in invariants]
    if emit:
        out.append('INVARIANT Emit')
    return '\n'.join(out) + '\n'


def expected_count(run: dict) -> int:
    """Number of finished cases the generator of the specification must produce (counted here
    independently, to notice a TLC run that lost part of its output)."""
    c = run['consts']
    one = F(1)
    n = 0
    navec = {j: sum(1 for a in c['AVecs'] if len(a) == j) for j in (2, 3, 4)}
    nobs = {j: navec[j] * (2 ** j - 1) for j in (2, 3, 4)}
    if c.get('Steps', 1) == 2:
        # every observation is followed by each other argument: one utility replaced (3 J), all utilities replaced by
        # another vector of AVecs that differs in more than one entry, any other availability pattern (2^J - 2)
        for j in (2, 3, 4):
            per = 0
            for a in (a for a in c['AVecs'] if len(a) == j):
                far = sum(1 for b in c['AVecs'] if len(b) == j and sum(1 for x, y in zip(a, b) if x != y) > 1)
                per += (2 ** j - 1) * (1 + 3 * j + far + 2 ** j - 2)
            nobs[j] = per
    for kind in run['kinds']:
        if kind in ('ologit', 'oprobit'):
            xs, t1, d = (c['OrdRs'], c['OrdT1s'], c['OrdRatios']) if kind == 'ologit' else (c['PrbXs'], c['PrbT1s'], c['PrbDiffs'])
            for ls in c['OrdLabelSeqs']:
                n += len(xs) * len(t1) * len(d) ** (len(ls) - 2)
            continue
        for ls in c['LabelSeqs']:
            j = len(ls)
            if kind == 'logit':
                n += nobs[j]
            elif kind == 'mev':
                n += len(c['GVals']) ** j * nobs[j]
            else:
                rows = [r for r in ROWS if r != ('1/2', '1/2')] if kind == 'nl' else list(c['AlphaRows'])
                pairs = c['NlMuPairs'] if kind == 'nl' else c['CnlMuPairs']
                for al in itertools.product(rows, repeat=j):
                    used = [any(F(r[m]) != 0 for r in al) for m in (0, 1)]
                    if kind == 'nl':
                        first1 = next((i for i, r in enumerate(al) if F(r[0]) != 0), None)
                        first2 = next((i for i, r in enumerate(al) if F(r[1]) != 0), None)
                        if first2 is not None and (first1 is None or first1 > first2):
                            continue
                    fit = sum(1 for p in pairs if all(used[m] or F(p[m]) == one for m in (0, 1)))
                    n += fit * len(c['TopMus']) * nobs[j]
    return n


def run_models(chk, tier: str, kinds=None, invariants=None, skip=()) -> dict:
    """Run TLC on every family of the tier (concurrently).  -> {run name: [records]}"""
    todo = [r for r in runs(tier, kinds) if r['name'] not in skip]
    res: dict = {}

    def go(run):
        for attempt in range(3):   # a JVM killed from outside leaves neither a verdict nor an error: retry
            r = tlc.run('MCChoice', cfg(invariants or MODEL_INVARIANTS, steps=run['consts'].get('Steps', 1)),
                        extra_modules={'MCChoice': module(run)}, workers=run['workers'], timeout=2400, heap='3g')
            res[run['name']] = r
            if r.error is None or 'Error:' in (r.error or ''):
                break

    ths = [threading.Thread(target=go, args=(run,)) for run in todo]
    for t in ths:
        t.start()
    for t in ths:
        t.join()
    emitted = {}
    for run in todo:
        r = res[run['name']]
        chk.add_tlc(f'ChoiceModels {run["name"]} ({", ".join(run["kinds"])}): {", ".join(invariants or MODEL_INVARIANTS)}', r)
        want = expected_count(run)
        if len(r.emitted) != want:
            raise tlc.MachineryError(f'run {run["name"]}: {len(r.emitted)} cases emitted, {want} expected: {r.raw[-1500:]}')
        emitted[run['name']] = r.emitted
        r.raw = ''
    return emitted


def together(jobs: dict) -> dict:
    """Run the TLC jobs {name: callable} of the negative controls at the same time (one JVM each).  -> {name: result}"""
    out: dict = {}

    def go(name, fn):
        try:
            out[name] = fn()
        except BaseException as e:  # noqa
            out[name] = e

    ths = [threading.Thread(target=go, args=kv) for kv in jobs.items()]
    for t in ths:
        t.start()
    for t in ths:
        t.join()
    for name, r in out.items():
        if isinstance(r, BaseException):
            raise r
    return out


def run_mutant(run: dict, mutation: str, invariants) -> tlc.TlcResult:
    return tlc.run('MCChoice', cfg(invariants, mutation=mutation, emit=False, steps=run['consts'].get('Steps', 1)),
                   extra_modules={'MCChoice': module(run)}, workers=2, timeout=900, heap='2g')


# ------------------------------------------------------------------------------------ values of the specification
def fr(q) -> F:
    return F(q[0], q[1])


def expand(t, refs):
    """Substitute the named intermediate sums (App("ref", k)) of an emitted term."""
    if isinstance(t, list):
        return t
    if t['f'] == 'ref':
        return expand(refs[t['a'][0][0] - 1], refs)
    return {'f': t['f'], 'a': [expand(x, refs) for x in t['a']]}


def val(t, refs=None) -> float:
    return float(terms.ev(expand(t, refs) if refs is not None else t))


def vals(ts, refs=None) -> list:
    return [val(t, refs) for t in ts]


def struct_key(r) -> str:
    return repr((r['kind'], r['labels'], r.get('alpha'), r.get('mus'), r.get('mu'), r.get('gi')))


def groups(recs, max_rows: int = 400) -> list:
    """Cases of one structure (they differ in utilities and availability only) are replayed together."""
    by: dict = {}
    for r in recs:
        by.setdefault(struct_key(r), []).append(r)
    out = []
    for g in by.values():
        for k in range(0, len(g), max_rows):
            out.append(g[k:k + max_rows])
    return out


def oracle_check(r) -> list:
    """Where TLC could not decide (irrational terms) the driver evaluates the specification's own
    identities numerically: sum to one, unit interval, MEV theorem from G and G_i, reduction."""
    bad = []
    refs = r.get('refs')
    p = vals(r['p'], refs)
    if abs(sum(p) - 1.0) > 1e-12 or min(p) < 0 or max(p) > 1 + 1e-15:
        bad.append(('spec-sum', p))
    if r['kind'] == 'nl':
        g = val(r['g'], refs)
        dg = vals(r['dg'], refs)
        mu = float(fr(r['mu']))
        for i, a in enumerate(r['a']):
            if r['av'][i] and abs(a * dg[i] / (mu * g) - p[i]) > 1e-12:
                bad.append(('spec-mev', i, a * dg[i] / (mu * g), p[i]))
    if r.get('red', 'none') != 'none':
        rp = vals(r['redp'], refs)
        if max(abs(x - y) for x, y in zip(rp, p)) > 1e-12:
            bad.append(('spec-reduction', rp, p))
    return bad


# ------------------------------------------------------------------------------------ real objects
def preload():
    import numpy  # noqa
    import pandas  # noqa
    import biogeme.database  # noqa
    import biogeme.expressions  # noqa
    import biogeme.models  # noqa
    import biogeme.nests  # noqa


def _db(cols: dict, name='c05'):
    import pandas as pd
    import biogeme.database as db

    return db.Database(name, pd.DataFrame({k: [float(v) for v in vs] for k, vs in cols.items()}))


def _eval(e, database=None, betas=None):
    import numpy as np

    return np.asarray(e.get_value_c(database=database, betas=betas, prepare_ids=True), dtype=float)


def nl_members(r):
    """[(mu_m, [labels])] of the used nests, in nest order."""
    labels = r['labels']
    out = []
    for m in (0, 1):
        mem = [labels[i] for i in range(len(labels)) if fr(r['alpha'][i][m]) != 0]
        if mem:
            out.append((fr(r['mus'][m]), mem))
    return out


def lib_names(naming) -> list:
    """Names handed to the two nest objects (None = no name given), by nest of the specification."""
    pair = NAMINGS[naming] if isinstance(naming, str) else naming
    return [x or None for x in pair]


def nl_nests(r, syntax: str, param=float, naming=BASE_NAMING):
    from biogeme.nests import NestsForNestedLogit, OneNestForNestedLogit

    names = lib_names(naming)
    mem = [(m, fr(r['mus'][m]), [r['labels'][i] for i in range(len(r['labels'])) if fr(r['alpha'][i][m]) != 0]) for m in (0, 1)]
    mem = [x for x in mem if x[2]]
    if syntax == 'tuple':
        return tuple((param(mu), list(alts)) for m, mu, alts in mem)
    return NestsForNestedLogit(
        choice_set=list(r['labels']),
        tuple_of_nests=tuple(OneNestForNestedLogit(nest_param=param(mu), list_of_alternatives=list(alts), name=names[m])
                             for m, mu, alts in mem))


def cnl_nests(r, syntax: str, zeros: bool = False, param=float, naming=BASE_NAMING):
    """zeros: alternatives of some nest are listed in every nest, with alpha = 0.0 where they do not belong
    (the way the examples of the documentation write it); otherwise they are left out."""
    from biogeme.nests import NestsForCrossNestedLogit, OneNestForCrossNestedLogit

    names = lib_names(naming)
    labels = r['labels']
    nested = [i for i in range(len(labels)) if any(fr(x) != 0 for x in r['alpha'][i])]
    spec = []
    for m in (0, 1):
        al = {labels[i]: float(fr(r['alpha'][i][m])) for i in nested if zeros or fr(r['alpha'][i][m]) != 0}
        if any(v != 0 for v in al.values()):
            spec.append((m, fr(r['mus'][m]), al))
    if syntax == 'tuple':
        return tuple((param(mu), dict(al)) for m, mu, al in spec)
    return NestsForCrossNestedLogit(
        choice_set=list(labels),
        tuple_of_nests=tuple(OneNestForCrossNestedLogit(nest_param=param(mu), dict_of_alpha=dict(al), name=names[m])
                             for m, mu, al in spec))


def variants(r, V, av, what: str = 'c05', tuple_param=float, scale=float, naming=BASE_NAMING, cache=None) -> list:
    """(name, family, is_log, builder(choice) -> expression).  `family` pairs a probability function with
    its logarithm; within one structure all variants of a kind must give the same probabilities.
    The builders read V and av when they are CALLED (a dictionary modified in the meantime gives another model).
    `naming`: names given to the nest objects.  `cache`: a dictionary keeping the nests of each way of writing
    them, so that every model function -- and every later construction -- gets the SAME nests object."""
    import biogeme.models as M
    from biogeme.expressions import Beta, Numeric, log

    kind = r['kind']
    out = []

    def kept(key, make):
        if cache is None:
            return make()
        if key not in cache:
            cache[key] = make()
        return cache[key]
    if kind == 'logit':
        out.append(('logit', 'logit', False, lambda ch: M.logit(V, av, ch)))
        out.append(('loglogit', 'logit', True, lambda ch: M.loglogit(V, av, ch)))
    elif kind == 'mev':
        lg = {lab: log(Numeric(float(fr(g)))) for lab, g in zip(r['labels'], r['gi'])}
        out.append(('mev', 'mev', False, lambda ch: M.mev(V, lg, av, ch)))
        out.append(('logmev', 'mev', True, lambda ch: M.logmev(V, lg, av, ch)))
    elif kind == 'nl':
        mu1 = fr(r['mu']) == 1
        mu = scale(float(fr(r['mu'])))
        k = itertools.count()
        beta = lambda x: Beta(f'mu_nest_{next(k)}', float(x), None, None, 0)  # noqa
        # C05 looks at values: one way of writing the nests per function (C06 compares the ways with each other)
        styles = [('objects', 'objects', float, ('nested', 'lognested') if mu1 else ('nested_mev_mu', 'lognested_mev_mu')),
                  ('tuple', 'tuple', float, ('nested_mev_mu', 'lognested_mev_mu') if mu1 else ()),
                  ('objects+Beta', 'objects', beta, ('nested', 'lognested_mev_mu') if mu1 else ('nested_mev_mu',))]
        if what == 'c06':
            styles = [('objects', 'objects', float, None), ('tuple', 'tuple', tuple_param, None)]
        for sname, syn, param, sel in styles:
            def mk(fn, syn=syn, param=param, scaled=False, sname=sname):
                nests = lambda: kept((sname, naming), lambda: nl_nests(r, syn, param, naming))  # noqa
                if scaled:
                    return lambda ch: fn(V, av, nests(), ch, mu)
                return lambda ch: fn(V, av, nests(), ch)
            cand = []
            if mu1:
                cand.append((f'nested[{sname}]', f'nested[{sname}]', False, mk(M.nested)))
                cand.append((f'lognested[{sname}]', f'nested[{sname}]', True, mk(M.lognested)))
            cand.append((f'nested_mev_mu[{sname}]', f'nested_mev_mu[{sname}]', False, mk(M.nested_mev_mu, scaled=True)))
            cand.append((f'lognested_mev_mu[{sname}]', f'nested_mev_mu[{sname}]', True, mk(M.lognested_mev_mu, scaled=True)))
            out += [c for c in cand if sel is None or base_name(c[0]) in sel]
    elif kind == 'cnl':
        mu1 = fr(r['mu']) == 1
        mu = scale(float(fr(r['mu'])))
        styles = [('objects+zeros', 'objects', True, ('cnl', 'logcnl') if mu1 else ('cnlmu', 'logcnlmu')),
                  ('objects', 'objects', False, ('cnlmu', 'logcnlmu') if mu1 else ()),
                  ('tuple', 'tuple', False, ('cnl',) if mu1 else ('cnlmu',))]
        if what == 'c06':
            styles = [('objects', 'objects', False, None), ('objects+zeros', 'objects', True, None), ('tuple', 'tuple', False, None)]
        for sname, syn, zeros, sel in styles:
            def mk(fn, syn=syn, zeros=zeros, scaled=False, sname=sname):
                nests = lambda: kept((sname, naming), lambda: cnl_nests(r, syn, zeros, naming=naming))  # noqa
                if scaled:
                    return lambda ch: fn(V, av, nests(), ch, mu)
                return lambda ch: fn(V, av, nests(), ch)
            cand = []
            if mu1:
                cand.append((f'cnl[{sname}]', f'cnl[{sname}]', False, mk(M.cnl)))
                cand.append((f'logcnl[{sname}]', f'cnl[{sname}]', True, mk(M.logcnl)))
            cand.append((f'cnlmu[{sname}]', f'cnlmu[{sname}]', False, mk(M.cnlmu, scaled=True)))
            cand.append((f'logcnlmu[{sname}]', f'cnlmu[{sname}]', True, mk(M.logcnlmu, scaled=True)))
            out += [c for c in cand if sel is None or base_name(c[0]) in sel]
    return out


def base_name(vname: str) -> str:
    return vname.split('[')[0]


def facts_of(r, fn: str, clause: str, **kw) -> dict:
    """What a known-finding pattern may look at."""
    feats = []
    if r['kind'] in ('nl', 'cnl'):
        alone = [i for i in range(len(r['labels'])) if all(fr(x) == 0 for x in r['alpha'][i])]
        if alone:
            feats.append('alone')
        if len(alone) == len(r['labels']):
            feats.append('no-nest')
        if any(not r['av'][i] for i in range(len(r['labels']))):
            feats.append('unavailable')
        for m in (0, 1):
            mem = [i for i in range(len(r['labels'])) if fr(r['alpha'][i][m]) != 0]
            if mem and not any(r['av'][i] for i in mem):
                feats.append('empty-nest')
    d = dict(kind=r['kind'], function=fn, clause=clause, features=sorted(set(feats)))
    d.update(kw)
    return d


def describe(r) -> dict:
    d = dict(kind=r['kind'], labels=r['labels'])
    if 'a' in r:
        d.update(a=r['a'], av=r['av'])
    if r['kind'] in ('nl', 'cnl'):
        d.update(alpha=[[str(fr(x)) for x in row] for row in r['alpha']], mus=[str(fr(x)) for x in r['mus']], mu=str(fr(r['mu'])))
    if r['kind'] == 'mev':
        d.update(G_i=[str(fr(x)) for x in r['gi']])
    if r['kind'] in ('ologit', 'oprobit'):
        d.update(x=str(fr(r['x'])), thresholds=[str(fr(t)) for t in r['ts']])
    return d


class Collector:
    def __init__(self):
        self.mism = []
        self.n = 0          # comparisons made
        self.evals = 0      # engine evaluations (expression x database)
        self.per_key: dict = {}

    def bad(self, key, r, facts, **detail):
        k = self.per_key.get(key, 0)
        self.per_key[key] = k + 1
        if k < 5:   # a few examples per clause and group are enough
            self.mism.append(dict(key=key, facts=facts, detail=dict(case=describe(r), **detail)))

    def result(self, **kw):
        return dict(mism=self.mism, n=self.n, evals=self.evals, counts=self.per_key, **kw)


def _logclose(lg, p, tol):
    """lg = ln p ?  (ln 0 = -inf)"""
    if p == 0.0:
        return lg == -math.inf
    return close(lg, math.log(p), rel=tol)


# ------------------------------------------------------------------------------------ C05
def _obs_database(group, shifts=(), name='c05'):
    """One row per (constant c, observation, chosen alternative): columns a_<label> = c a_i, v_<label>, choice."""
    labels = group[0]['labels']
    cols = {f'a_{lab}': [] for lab in labels}
    cols.update({f'v_{lab}': [] for lab in labels})
    cols['choice'] = []
    for c in (1,) + tuple(shifts):
        for r in group:
            for ch in labels:
                for i, lab in enumerate(labels):
                    cols[f'a_{lab}'].append(c * r['a'][i])
                    cols[f'v_{lab}'].append(r['av'][i])
                cols['choice'].append(ch)
    return _db(cols, name)


# The replays of the other namings are spread over the steps of a history (a session on the SAME objects):
#   step 0  utilities a_k, availabilities v_k            every function, plain naming (with the constants c a)
#   step 1  the utility dictionary modified in place     -> the arguments of the partner case (a', v)
#   step 2  the availability dictionary modified in place -> the arguments of the partner case (a', v')
# (step, naming) evaluated for each model function written with nest objects.  At every step the model is BUILT
# for every naming, so that each nests object has seen the earlier arguments before it is evaluated.
PLANS = {
    # (quick: the nests object of 'unnamed' is also the one evaluated at step 0 with availability None)
    'quick': dict(prob=[(1, 'unnamed'), (2, 'same'), (2, 'clash')], log=[(1, 'same'), (2, 'unnamed'), (1, 'clash')], log_pick=1,
                  again=[]),
    'thorough': dict(prob=[(1, 'unnamed'), (1, 'clash'), (2, 'same'), (2, 'clash'), (2, 'unnamed')],
                     log=[(1, 'same'), (2, 'unnamed'), (2, 'clash')], log_pick=3, again=[(1, 'distinct'), (2, 'distinct')]),
}
SESSION_STYLES = ('objects', 'objects+zeros')


def _crc(x) -> int:
    import zlib

    return zlib.crc32(repr(x).encode())


def _partners(group):
    """Cyclic successors inside one structure: next utility vector, next availability pattern.
    -> (avecs, pats, index of (a, av)), in the order of the emission."""
    avecs, pats, idx = [], [], {}
    for k, r in enumerate(group):
        a, v = tuple(r['a']), tuple(r['av'])
        if a not in avecs:
            avecs.append(a)
        if v not in pats:
            pats.append(v)
        idx[(a, v)] = k
    return avecs, pats, idx


def _session_database(group, name='c05s'):
    """Rows (observation, chosen alternative); a_/v_: the case itself, b_: the next utility vector of the
    structure, w_: the next availability pattern.  -> database, arguments of every row at steps 0, 1, 2."""
    labels = group[0]['labels']
    avecs, pats, idx = _partners(group)
    nxt_a = {a: avecs[(i + 1) % len(avecs)] for i, a in enumerate(avecs)}
    nxt_v = {v: pats[(i + 1) % len(pats)] for i, v in enumerate(pats)}
    cols = {f'{c}_{lab}': [] for c in 'avbw' for lab in labels}
    cols['choice'] = []
    args = {0: [], 1: [], 2: []}
    for r in group:
        a, v = tuple(r['a']), tuple(r['av'])
        b, w = nxt_a[a], nxt_v[v]
        args[0].append(idx.get((a, v)))
        args[1].append(idx.get((b, v)))
        args[2].append(idx.get((b, w)))
        for ch in labels:
            for i, lab in enumerate(labels):
                cols[f'a_{lab}'].append(a[i])
                cols[f'v_{lab}'].append(v[i])
                cols[f'b_{lab}'].append(b[i])
                cols[f'w_{lab}'].append(w[i])
            cols['choice'].append(ch)
    return _db(cols, name), args


def c05_group(group, corrupt=None, only=None, plan='quick') -> dict:
    """All observations of one structure through a database (the chosen alternative is a column, so that
    one evaluation gives the probability of every alternative of every observation): values, unit
    interval, sum, zero when unavailable, invariance under a -> c a, log* = ln(*), all-available cases
    also with av = None.
    Then the history on the same objects (one utility dictionary, one availability dictionary, one nests
    object per naming): the dictionaries are modified in place, the models are built again and evaluated --
    under the other namings of the nest objects --; expected: the specification's value of the CURRENT arguments."""
    import numpy as np
    from biogeme.exceptions import BiogemeError
    from biogeme.expressions import Numeric, Variable, log

    col = Collector()
    r0 = group[0]
    kind, labels = r0['kind'], r0['labels']
    J = len(labels)
    shifts = SHIFTS if kind in ('logit', 'nl', 'cnl') else ()
    nb = len(group)
    db = _obs_database(group, shifts)
    # ONE dictionary of utilities and ONE dictionary of availabilities for everything that follows
    V = {lab: log(Variable(f'a_{lab}')) for lab in labels}
    # availabilities are keyed by alternative: the dictionary is written in ANOTHER key order than the utilities
    av = {lab: Variable(f'v_{lab}') for lab in reversed(labels)}
    choice = Variable('choice')
    want = [vals(r['p'], r.get('refs')) for r in group]
    if corrupt is not None:
        want = [corrupt(w) for w in want]
    full = [k for k, r in enumerate(group) if all(r['av'])]
    cache: dict = {}     # way of writing the nests x naming -> THE nests object

    def run(vs, tag='', database=db, shape=None):
        out = {}
        for vname, fam, is_log, build in vs:
            if only is not None and base_name(vname) not in only:
                continue
            try:
                out[vname] = _eval(build(choice), database).reshape(shape or (1 + len(shifts), nb, J))   # [constant, observation, alternative]
            except Exception as e:  # noqa  (the process is abandoned: the engine keeps a sticky error state)
                raise RuntimeError(f'{vname}{tag} on {describe(r0)}: {type(e).__name__}: {e}')
            col.evals += 1
        return out

    vlist = variants(r0, V, av, cache=cache)
    got = run(vlist)
    got_none = run([v for v in variants(r0, V, None, naming='unnamed', cache=cache)
                    if '[' not in v[0] or v[0].endswith('[objects]') or v[0].endswith('[objects+zeros]')],
                   ' (availability None)') if full else {}
    is_log_of = {v[0]: v[2] for v in vlist}
    prob_of: dict = {}   # base probability function -> one evaluated variant of it
    for vname, fam, is_log, _ in vlist:
        if vname in got and not is_log:
            prob_of.setdefault(base_name(fam), vname)

    for vname, fam, is_log, _ in vlist:
        if vname not in got:
            continue
        fn = base_name(vname)
        arr = got[vname]
        for k, r in enumerate(group):
            tol = TOL_EXACT if r['exact'] else TOL_TERM
            v = arr[0, k]
            w = want[k]
            if is_log:
                col.n += J
                for i in range(J):
                    if not _logclose(v[i], w[i], tol):
                        col.bad(f'{kind}:{fn}:value', r, facts_of(r, fn, 'value', variant=vname), alternative=labels[i],
                                got=float(v[i]), want_ln_of=w[i])
                if base_name(fam) in prob_of:
                    pv = got[prob_of[base_name(fam)]][0, k]
                    col.n += J
                    for i in range(J):
                        if not _logclose(v[i], pv[i], tol):
                            col.bad(f'{kind}:{fn}:log-of-probability', r, facts_of(r, fn, 'log', variant=vname), alternative=labels[i],
                                    log_function=float(v[i]), probability_function=float(pv[i]), probability_variant=prob_of[base_name(fam)])
                continue
            col.n += 3 * J + 1
            for i in range(J):
                if not close(v[i], w[i], rel=tol):
                    col.bad(f'{kind}:{fn}:value', r, facts_of(r, fn, 'value', variant=vname), alternative=labels[i], got=float(v[i]),
                            want=w[i], expected_term=terms.show(expand(r['p'][i], r.get('refs'))) if not r['exact'] else str(w[i]))
                if not (0.0 <= v[i] <= 1.0 + 1e-12):
                    col.bad(f'{kind}:{fn}:unit-interval', r, facts_of(r, fn, 'unit', variant=vname), alternative=labels[i], got=float(v[i]))
                if not r['av'][i] and v[i] != 0.0:
                    col.bad(f'{kind}:{fn}:zero-when-unavailable', r, facts_of(r, fn, 'zero', variant=vname), alternative=labels[i],
                            got=float(v[i]))
            if not close(float(v.sum()), 1.0, rel=TOL_EXACT):
                col.bad(f'{kind}:{fn}:sum-to-one', r, facts_of(r, fn, 'sum', variant=vname), got=[float(x) for x in v])
            for s, c in enumerate(shifts):
                vs = arr[s + 1, k]
                col.n += J
                if not all(close(vs[i], v[i], rel=tol) for i in range(J)):
                    col.bad(f'{kind}:{fn}:shift-invariance', r, facts_of(r, fn, 'shift', variant=vname), constant=f'ln {c}',
                            got=[float(x) for x in vs], base=[float(x) for x in v])
    for vname, arr in got_none.items():
        fn = base_name(vname)
        for k in full:
            r = group[k]
            tol = TOL_EXACT if r['exact'] else TOL_TERM
            col.n += J
            for i in range(J):
                x = arr[0, k, i]
                ok = _logclose(x, want[k][i], tol) if is_log_of[vname] else close(x, want[k][i], rel=tol)
                if not ok:
                    col.bad(f'{kind}:{fn}:value-availability-None', r, facts_of(r, fn, 'value-none', variant=vname, naming='unnamed'),
                            alternative=labels[i], got=float(x), want=want[k][i])

    # ---------------------------------------------------------------- history on the same objects, other namings
    hist = dict(evaluations=0, rows=0, rows_with_other_arguments=0, refused={}, namings={})
    if kind in ('nl', 'cnl', 'mev') and (only is None):
        pl = PLANS[plan]
        spec_namings = [NAMING_OF[tuple(x)] for x in r0.get('namings', [])] if kind != 'mev' else [BASE_NAMING]
        if kind != 'mev' and set(spec_namings) != set(NAMINGS):
            raise tlc.MachineryError(f'namings of the specification {r0.get("namings")} are not the ones of the driver')
        sdb, args = _session_database(group)
        want_s = want
        sess = [v for v in vlist if kind == 'mev' or any(v[0].endswith(f'[{st}]') for st in SESSION_STYLES)]
        builders = {BASE_NAMING: {v[0]: v for v in sess}}
        for nm in spec_namings:
            if nm != BASE_NAMING:
                builders[nm] = {v[0]: v for v in variants(r0, V, av, naming=nm, cache=cache) if v[0] in builders[BASE_NAMING]}
        refused: dict = {}

        def construct(nm, vname):
            """The model of the current content of V and av, with the nests object of the naming."""
            if nm in refused:
                return None
            try:
                return builders[nm][vname][3](choice)
            except BiogemeError as e:   # the library may refuse a naming -- with its own error type
                refused[nm] = str(e)[:200]
                return None
            except Exception as e:  # noqa
                raise RuntimeError(f'{vname} with nests named {NAMINGS[nm]} on {describe(r0)}: {type(e).__name__}: {e}')

        def evaluate(e, what_):
            try:
                out = _eval(e, sdb).reshape(nb, J)
            except Exception as ex:  # noqa
                raise RuntimeError(f'{what_} on {describe(r0)}: {type(ex).__name__}: {ex}')
            col.evals += 1
            hist['evaluations'] += 1
            return out

        def fresh(vname, nm, step):
            """The same arguments written from scratch: new dictionaries, a new nests object (to tell a naming that
            matters from a construction that remembers)."""
            Vf = {lab: log(Variable(f'{"a" if step == 0 else "b"}_{lab}')) for lab in labels}
            avf = {lab: Variable(f'{"w" if step == 2 else "v"}_{lab}') for lab in reversed(labels)}
            b = {v[0]: v for v in variants(r0, Vf, avf, naming=nm)}[vname]
            return evaluate(b[3](choice), f'{vname} (fresh objects, nests named {NAMINGS[nm]})')

        def todo(vname, is_log):
            if kind == 'mev':
                return [(1, BASE_NAMING), (2, BASE_NAMING)]
            if not is_log:
                first = next(v[0] for v in sess if not v[2])
                return pl['prob'] + (pl['again'] if vname == first else [])
            k0 = _crc((struct_key(r0), vname))
            return [pl['log'][(k0 + j) % len(pl['log'])] for j in range(pl['log_pick'])]

        plan_of = {v[0]: todo(v[0], v[2]) for v in sess}
        for step in (0, 1, 2):
            if step == 1:    # the SAME dictionary of utilities gets other expressions
                for lab in labels:
                    V[lab] = log(Variable(f'b_{lab}'))
            if step == 2:    # the SAME dictionary of availabilities gets other expressions
                for lab in labels:
                    av[lab] = Variable(f'w_{lab}')
            for vname, fam, is_log, _ in sess:
                for nm in builders:
                    if step == 0 and nm == BASE_NAMING:
                        continue    # built and evaluated above
                    e = construct(nm, vname)
                    if e is None or (step, nm) not in plan_of[vname]:
                        continue
                    fn = base_name(vname)
                    arr = evaluate(e, f'{vname} at step {step}, nests named {NAMINGS[nm]}')
                    hist['namings'][nm] = hist['namings'].get(nm, 0) + 1
                    wrong = []
                    for k, r in enumerate(group):
                        j = args[step][k]
                        if j is None:
                            continue
                        hist['rows'] += 1
                        hist['rows_with_other_arguments'] += int(j != k)
                        rj = group[j]
                        tol = TOL_EXACT if rj['exact'] else TOL_TERM
                        col.n += J
                        for i in range(J):
                            x, w = arr[k, i], want_s[j][i]
                            ok = (_logclose(x, w, tol) if is_log else close(x, w, rel=tol)) and (rj['av'][i] or x == (-math.inf if is_log else 0.0))
                            if not ok:
                                wrong.append((k, j, i, float(x), w))
                    if not wrong:
                        continue
                    # a naming that matters, or a construction that remembers?  the same arguments from new objects decide
                    fr_arr = fresh(vname, nm, step)
                    for k, j, i, x, w in wrong[:5]:
                        same_fresh = fr_arr[k, i] == x or close(fr_arr[k, i], x, rel=TOL_SAME)
                        clause = 'naming' if same_fresh and nm != BASE_NAMING else ('value' if same_fresh else 'history')
                        col.bad(f'{kind}:{fn}:value-{"under-naming" if clause == "naming" else "after-modification" if clause == "history" else "session"}',
                                group[j], facts_of(group[j], fn, clause, variant=vname, naming=nm, step=step),
                                alternative=labels[i], got=x, **{'want_ln_of' if is_log else 'want': w},
                                nests_named=NAMINGS[nm], step=step, same_arguments_from_new_objects=float(fr_arr[k, i]),
                                history=[dict(step=0, a=group[k]['a'], av=group[k]['av'])]
                                + ([dict(step=1, modified='utilities', a=group[args[1][k]]['a'] if args[1][k] is not None else None)] if step >= 1 else [])
                                + ([dict(step=2, modified='availabilities', av=group[j]['av'])] if step >= 2 else []))
                    col.per_key[f'{kind}:{fn}:session-mismatches'] = col.per_key.get(f'{kind}:{fn}:session-mismatches', 0) + len(wrong)
        hist['refused'] = refused
    sample = None
    if got:
        vname = next(iter(got))
        k = next((k for k, r in enumerate(group) if sum(r['av']) >= 2 and len(set(r['a'])) > 1), 0)
        sample = dict(case=describe(group[k]), function=vname,
                      expected=[terms.show(expand(t, group[k].get('refs'))) if group[k]['exact'] else want[k][i]
                                for i, t in enumerate(group[k]['p'])],
                      observed=[float(x) for x in got[vname][0, k]])
    oracle = [(describe(r), b) for r in group for b in oracle_check(r)]
    return col.result(cases=len(group), sample=sample, oracle=oracle[:3], inexact=sum(1 for r in group if not r['exact']), history=hist)


def session_items(recs) -> list:
    """The two-step behaviours of TLC (Steps = 2), by structure: {'first': one-step cases, 'steps': two-step cases}."""
    by: dict = {}
    for r in recs:
        d = by.setdefault(struct_key(r), dict(first=[], steps=[]))
        d['steps' if 'first' in r else 'first'].append(r)
    return [d for d in by.values() if d['steps']]


def session_group(item, only_kind=None) -> dict:
    """Two-step behaviours of one structure, as TLC printed them: Build(first); modify ONE dictionary in place
    (one entry / all entries of the utilities, one entry / all entries of the availabilities); Build again with
    the same dictionaries and the same nests object.  Each kind of modification is its own session (own
    objects); rows = behaviours x chosen alternative.  Expected after the first construction: the one-step
    case of the same arguments; after the second: the `p` of the two-step behaviour."""
    from biogeme.expressions import Variable, log

    col = Collector()
    steps = item['steps']
    r0 = steps[0]
    kind, labels = r0['kind'], r0['labels']
    J = len(labels)
    first_p = {(tuple(r['a']), tuple(r['av'])): r for r in item['first']}
    sessions: dict = {}
    for r in steps:
        a1, v1 = r['first']['a'], r['first']['av']
        du = [i for i in range(J) if a1[i] != r['a'][i]]
        dv = [i for i in range(J) if v1[i] != r['av'][i]]
        if bool(du) == bool(dv):
            raise tlc.MachineryError(f'two-step behaviour that modifies both dictionaries or none: {r}')
        key = ('utility', du[0]) if len(du) == 1 else ('utilities', -1) if du else ('availability', dv[0]) if len(dv) == 1 else ('availabilities', -1)
        sessions.setdefault(key, []).append(r)
    namings = sorted(NAMINGS) if kind != 'mev' else [BASE_NAMING]
    stat = dict(sessions=0, behaviours=0, by_modification={})
    for sn, ((what_, i), rows) in enumerate(sorted(sessions.items())):
        nm = namings[(sn + _crc(struct_key(r0))) % len(namings)]
        cols = {f'{c}_{lab}': [] for c in 'avbw' for lab in labels}
        cols['choice'] = []
        for r in rows:
            for ch in labels:
                for j, lab in enumerate(labels):
                    cols[f'a_{lab}'].append(r['first']['a'][j])
                    cols[f'v_{lab}'].append(r['first']['av'][j])
                    cols[f'b_{lab}'].append(r['a'][j])
                    cols[f'w_{lab}'].append(r['av'][j])
                cols['choice'].append(ch)
        db = _db(cols, 'c05t')
        V = {lab: log(Variable(f'a_{lab}')) for lab in labels}
        av = {lab: Variable(f'v_{lab}') for lab in reversed(labels)}
        choice = Variable('choice')
        cache: dict = {}
        mu1 = kind != 'mev' and fr(r0['mu']) == 1
        sess = [v for v in variants(r0, V, av, what='c06', naming=nm, cache=cache)
                if kind == 'mev' or (v[0].endswith('[objects]') and not (mu1 and base_name(v[0]) in ('lognested_mev_mu', 'logcnlmu')))]
        stat['sessions'] += 1
        stat['behaviours'] += len(rows)
        stat['by_modification'][what_] = stat['by_modification'].get(what_, 0) + len(rows)
        for step in (0, 1):
            if step == 1:
                if what_ == 'utility':
                    V[labels[i]] = log(Variable(f'b_{labels[i]}'))
                elif what_ == 'utilities':
                    for lab in labels:
                        V[lab] = log(Variable(f'b_{lab}'))
                elif what_ == 'availability':
                    av[labels[i]] = Variable(f'w_{labels[i]}')
                else:
                    for lab in labels:
                        av[lab] = Variable(f'w_{lab}')
            for vname, fam, is_log, build in sess:
                fn = base_name(vname)
                try:
                    arr = _eval(build(choice), db).reshape(len(rows), J)
                except Exception as e:  # noqa
                    raise RuntimeError(f'{vname}, step {step} of the session "{what_}" on {describe(r0)}: {type(e).__name__}: {e}')
                col.evals += 1
                for k, r in enumerate(rows):
                    exp_r = r if step == 1 else first_p.get((tuple(r['first']['a']), tuple(r['first']['av'])))
                    if exp_r is None:
                        raise tlc.MachineryError(f'no one-step case for the first arguments of {r}')
                    w = vals(exp_r['p'], exp_r.get('refs'))
                    tol = TOL_EXACT if exp_r['exact'] else TOL_TERM
                    col.n += J
                    for j in range(J):
                        x = arr[k, j]
                        ok = (_logclose(x, w[j], tol) if is_log else close(x, w[j], rel=tol)) and (exp_r['av'][j] or x == (-math.inf if is_log else 0.0))
                        if not ok:
                            col.bad(f'{kind}:{fn}:two-step:{"first" if step == 0 else "second"}-construction', exp_r,
                                    facts_of(exp_r, fn, 'two-step', variant=vname, naming=nm, step=step, modification=what_),
                                    alternative=labels[j], got=float(x), **{'want_ln_of' if is_log else 'want': w[j]},
                                    first=r['first'], modification=what_ if i < 0 else f'{what_} of alternative {labels[i]}',
                                    nests_named=NAMINGS[nm])
    k = len(steps) // 2
    sample = dict(two_step_behaviour=dict(first=steps[k]['first'], second=describe(steps[k])),
                  expected_after_second_construction=[terms.show(expand(t, steps[k].get('refs'))) for t in steps[k]['p']])
    return col.result(cases=len(steps), sample=sample, inexact=sum(1 for r in steps if not r['exact']), sessions=stat)


def c05_numeric(r) -> dict:
    """One case with plain numbers: V_i = log(Numeric(a_i)), availability Numeric(0/1), chosen alternative
    Numeric(label), no database; the scale of nested_mev_mu / cnlmu is a free parameter."""
    from biogeme.expressions import Beta, Numeric, log

    col = Collector()
    labels = r['labels']
    J = len(labels)
    V = {lab: log(Numeric(float(a))) for lab, a in zip(labels, r['a'])}
    # ONE expression object per availability value, shared by the alternatives that have it (users write CAR_AV once)
    shared_av = {0: Numeric(0), 1: Numeric(1)}
    av = {lab: shared_av[int(x)] for lab, x in reversed(list(zip(labels, r['av'])))}
    want = vals(r['p'], r.get('refs'))
    tol = TOL_EXACT if r['exact'] else TOL_TERM
    for vname, fam, is_log, build in variants(r, V, av, what='c06', scale=lambda x: Beta('mu_scale', x, None, None, 0)):
        if '[' in vname and not vname.endswith('[objects]'):
            continue
        fn = base_name(vname)
        try:
            v = [float(_eval(build(Numeric(lab)))) for lab in labels]
        except Exception as e:  # noqa
            raise RuntimeError(f'{vname} on {describe(r)}: {type(e).__name__}: {e}')
        col.evals += J
        col.n += J + 1
        for i in range(J):
            ok = _logclose(v[i], want[i], tol) if is_log else close(v[i], want[i], rel=tol)
            if not ok:
                col.bad(f'{r["kind"]}:{fn}:value-numeric', r, facts_of(r, fn, 'value-numeric', variant=vname), alternative=labels[i],
                        got=v[i], want=want[i])
        if not is_log and not close(sum(v), 1.0, rel=TOL_EXACT):
            col.bad(f'{r["kind"]}:{fn}:sum-to-one-numeric', r, facts_of(r, fn, 'sum-numeric', variant=vname), got=v)
    return col.result(cases=1)


def c05_neutral_start(r) -> dict:
    """The model is a function of the values it is EVALUATED at, not of the starting values its parameters carried
    when it was built: every scale, nest parameter and (non-zero) allocation parameter is a free parameter whose
    starting value is neutral (1 for scales and nest parameters, 0 for allocation parameters) and whose real value is
    given in a dictionary at evaluation time."""
    import biogeme.models as M
    from biogeme.expressions import Beta, Numeric, log
    from biogeme.nests import (NestsForCrossNestedLogit, NestsForNestedLogit, OneNestForCrossNestedLogit,
                               OneNestForNestedLogit)

    col = Collector()
    if r['kind'] not in ('nl', 'cnl'):
        return col.result(cases=0)
    labels = r['labels']
    J = len(labels)
    V = {lab: log(Numeric(float(a))) for lab, a in zip(labels, r['a'])}
    av = {lab: Numeric(int(x)) for lab, x in reversed(list(zip(labels, r['av'])))}
    want = vals(r['p'], r.get('refs'))
    tol = TOL_EXACT if r['exact'] else TOL_TERM
    real = {}

    def par_(name, value, neutral):
        real[name] = float(value)
        return Beta(name, neutral, None, None, 0)

    mu_real = fr(r['mu'])
    mu = par_('mu_scale', mu_real, 1.0)
    fns = []
    if r['kind'] == 'nl':
        mem = [(m, fr(r['mus'][m]), [labels[i] for i in range(J) if fr(r['alpha'][i][m]) != 0]) for m in (0, 1)]
        mem = [x for x in mem if x[2]]
        nests = NestsForNestedLogit(choice_set=list(labels), tuple_of_nests=tuple(
            OneNestForNestedLogit(nest_param=par_(f'mu_nest_{m}', v, 1.0), list_of_alternatives=list(alts), name=f'n{m}') for m, v, alts in mem))
        fns = [('nested_mev_mu', False, lambda ch: M.nested_mev_mu(V, av, nests, ch, mu)),
               ('lognested_mev_mu', True, lambda ch: M.lognested_mev_mu(V, av, nests, ch, mu))]
        if mu_real == 1:
            fns += [('nested', False, lambda ch: M.nested(V, av, nests, ch)), ('lognested', True, lambda ch: M.lognested(V, av, nests, ch))]
    else:
        nested = [i for i in range(J) if any(fr(x) != 0 for x in r['alpha'][i])]
        spec = []
        for m in (0, 1):
            al = {labels[i]: par_(f'alpha_{m}_{i}', fr(r['alpha'][i][m]), 0.0) for i in nested if fr(r['alpha'][i][m]) != 0}
            if al:
                spec.append((m, fr(r['mus'][m]), al))
        nests = NestsForCrossNestedLogit(choice_set=list(labels), tuple_of_nests=tuple(
            OneNestForCrossNestedLogit(nest_param=par_(f'mu_nest_{m}', v, 1.0), dict_of_alpha=dict(al), name=f'n{m}') for m, v, al in spec))
        fns = [('cnlmu', False, lambda ch: M.cnlmu(V, av, nests, ch, mu)), ('logcnlmu', True, lambda ch: M.logcnlmu(V, av, nests, ch, mu))]
        if mu_real == 1:
            fns += [('cnl', False, lambda ch: M.cnl(V, av, nests, ch)), ('logcnl', True, lambda ch: M.logcnl(V, av, nests, ch))]
    for fn, is_log, build in fns:
        try:
            v = []
            for lab in labels:
                e = build(Numeric(lab))
                v.append(float(_eval(e, betas={k: x for k, x in real.items() if k in e.get_beta_values()})))
        except Exception as e:  # noqa
            raise RuntimeError(f'{fn} (neutral starting values) on {describe(r)}: {type(e).__name__}: {e}')
        col.evals += J
        col.n += J
        for i in range(J):
            ok = _logclose(v[i], want[i], tol) if is_log else close(v[i], want[i], rel=tol)
            if not ok:
                col.bad(f'{r["kind"]}:{fn}:value-at-given-parameters', r, facts_of(r, fn, 'value-neutral-start'), alternative=labels[i],
                        got=v[i], want=want[i], evaluated_at=real)
    return col.result(cases=1)


def ord_case(r, corrupt=None) -> dict:
    """Ordered logit / probit: every category of one case."""
    from biogeme.expressions import Beta, Numeric, log
    import biogeme.models as M

    col = Collector()
    labels = r['labels']
    K = len(labels)
    x = fr(r['x'])
    ts = [fr(t) for t in r['ts']]
    if r['kind'] == 'ologit':   # the specification works with e^x and e^tau
        xe = log(Numeric(float(x)))
        taus = [math.log(float(t)) for t in ts]
        fn = M.ordered_logit
    else:
        xe = Numeric(float(x))
        taus = [float(t) for t in ts]
        fn = M.ordered_probit
    tau = Beta('tau1', taus[0], None, None, 0)
    betas = {f'tau1_diff_{labels[k]}': taus[k] - taus[k - 1] for k in range(1, K - 1)}
    want = vals(r['p'])
    if corrupt is not None:
        want = corrupt(want)
    tol = TOL_EXACT if r['exact'] else TOL_TERM
    name = fn.__name__
    try:
        probs = fn(continuous_value=xe, list_of_discrete_values=list(labels), tau_parameter=tau)
        if list(probs) != list(labels):
            col.bad(f'{r["kind"]}:{name}:categories', r, dict(kind=r['kind'], function=name, clause='categories', features=[]),
                    got=list(probs))
        v = [float(_eval(probs[lab], betas=betas)) for lab in labels]
    except Exception as e:  # noqa
        raise RuntimeError(f'{name} on {describe(r)}: {type(e).__name__}: {e}')
    col.evals += K
    col.n += 2 * K + 1
    f = dict(kind=r['kind'], function=name, features=['equal-thresholds'] if len(set(ts)) < len(ts) else [])
    for k in range(K):
        if not close(v[k], want[k], rel=tol):
            col.bad(f'{r["kind"]}:{name}:value', r, dict(f, clause='value'), category=labels[k], got=v[k], want=want[k])
        if not (-1e-15 <= v[k] <= 1.0 + 1e-12):
            col.bad(f'{r["kind"]}:{name}:unit-interval', r, dict(f, clause='unit'), category=labels[k], got=v[k])
    if not close(sum(v), 1.0, rel=TOL_EXACT):
        col.bad(f'{r["kind"]}:{name}:sum-to-one', r, dict(f, clause='sum'), got=v)
    return col.result(cases=1, sample=dict(case=describe(r), function=name, expected=[terms.show(t) for t in r['p']], observed=v))


# ------------------------------------------------------------------------------------ C06
def buggy_generating(util, availability, nests):
    """The generating function as it stood before the repair (an alternative alone contributes its
    utility instead of exp(utility)); used as negative control on a repaired tree."""
    from biogeme.expressions import ConditionalSum, ConditionalTermTuple, Numeric, bioMultSum, exp

    terms_ = []
    for m in nests:
        if availability is None:
            the_sum = bioMultSum([exp(m.nest_param * util[i]) for i in m.list_of_alternatives])
        else:
            the_sum = ConditionalSum([ConditionalTermTuple(condition=availability[i] != Numeric(0), term=exp(m.nest_param * util[i]))
                                      for i in m.list_of_alternatives])
        terms_.append(the_sum ** (1.0 / m.nest_param))
    for i in nests.alone:
        terms_.append(util[i])
    return bioMultSum(terms_)


def c06_group(group, generating=None, corrupt_dg=None, tuple_param=float, nl_of=None, parts=('reductions', 'generating'),
              plan='quick', gen_naming=None) -> dict:
    """One structure of a nested / cross-nested logit:
    reductions (code against code, and against the specification's reduced model), scale one, tuple
    syntax = nest objects -- under every naming of the nest objects (quick: one of the other namings per
    function and structure, in rotation; thorough: all of them) --; for the nested logit the generating
    function, its gradient (engine) and the published terms ln dG/dy_i (nest objects named by one of the
    namings, in rotation over the structures; thorough: a second one as well)."""
    import numpy as np
    import biogeme.models as M
    from biogeme.exceptions import BiogemeError
    from biogeme.expressions import Beta, Numeric, Variable, log

    col = Collector()
    r0 = group[0]
    kind, labels = r0['kind'], r0['labels']
    J = len(labels)
    mu = float(fr(r0['mu']))
    sample = None
    rot = _crc(struct_key(r0))
    spec_namings = [NAMING_OF[tuple(x)] for x in r0.get('namings', [])]
    if set(spec_namings) != set(NAMINGS):
        raise tlc.MachineryError(f'namings of the specification {r0.get("namings")} are not the ones of the driver')
    all_namings = sorted(NAMINGS)
    others = [nm for nm in all_namings if nm != BASE_NAMING]
    nstat = dict(evaluations={}, refused={}, generating={})

    def ev_all(build, db):
        """-> [alternative, observation]"""
        try:
            out = _eval(build(Variable('choice')), db).reshape(len(group), J).T
        except Exception as e:  # noqa
            raise RuntimeError(f'{describe(r0)}: {type(e).__name__}: {e}')
        col.evals += 1
        return out

    def same(key, clause, fa, a, fb, b, tol_of, **more):
        """a, b: [alternative, row]"""
        for k, r in enumerate(group):
            col.n += J
            tol = tol_of(r)
            for i in range(J):
                x, y = a[i, k], b[i, k]
                ok = (x == y) or close(x, y, rel=tol)
                if not ok:
                    col.bad(f'{kind}:{key}', r, facts_of(r, fa, clause, other=fb, **more), alternative=labels[i], **{fa: float(x), fb: float(y)},
                            **({'nests_named': NAMINGS[more['naming']]} if 'naming' in more else {}))

    if 'reductions' in parts:
        db = _obs_database(group, name='c06')
        V = {lab: log(Variable(f'a_{lab}')) for lab in labels}
        av = {lab: Variable(f'v_{lab}') for lab in reversed(labels)}
        cache: dict = {}   # one nests object per way of writing and naming, for all the model functions
        got = {vname: ev_all(build, db)
               for vname, fam, is_log, build in variants(r0, V, av, what='c06', tuple_param=tuple_param, cache=cache)}
        tol_term = lambda r: TOL_EXACT if r['exact'] else TOL_TERM  # noqa
        tol_same = lambda r: TOL_SAME  # noqa
        names = sorted({base_name(v) for v in got})
        # legacy tuple syntax = nest objects (and, for the CNL, zero allocations written or left out)
        for fn in names:
            for other in ('tuple', 'objects+zeros'):
                if f'{fn}[{other}]' in got:
                    same(f'{fn}:{other}-vs-objects', 'syntax', f'{fn}[objects]', got[f'{fn}[objects]'], f'{fn}[{other}]', got[f'{fn}[{other}]'],
                         tol_same)
        # ... whatever the names of the nest objects (the legacy tuples carry no names)
        for nm in others:
            for vname, fam, is_log, build in variants(r0, V, av, what='c06', tuple_param=tuple_param, naming=nm, cache=cache):
                fn = base_name(vname)
                if not vname.endswith('[objects]'):
                    continue
                if plan == 'quick' and others[(rot + names.index(fn)) % len(others)] != nm:
                    continue
                if nm in nstat['refused']:
                    continue
                try:
                    e = build(Variable('choice'))
                except BiogemeError as ex:    # a naming the library refuses, with its own error type
                    nstat['refused'][nm] = str(ex)[:200]
                    continue
                except Exception as ex:  # noqa
                    raise RuntimeError(f'{vname} with nests named {NAMINGS[nm]} on {describe(r0)}: {type(ex).__name__}: {ex}')
                named = ev_all(lambda ch: e, db)
                nstat['evaluations'][nm] = nstat['evaluations'].get(nm, 0) + 1
                same(f'{fn}:tuple-vs-named-objects', 'syntax-naming', f'{fn}[objects]', named, f'{fn}[tuple]', got[f'{fn}[tuple]'], tol_same, naming=nm)
                same(f'{fn}:named-objects-vs-objects', 'naming', f'{fn}[objects|{nm}]', named, f'{fn}[objects]', got[f'{fn}[objects]'], tol_same, naming=nm)
        # explicit scale one = no scale
        if mu == 1.0:
            for plain, scaled in (('nested', 'nested_mev_mu'), ('lognested', 'lognested_mev_mu'), ('cnl', 'cnlmu'), ('logcnl', 'logcnlmu')):
                if f'{plain}[objects]' in got:
                    same(f'{scaled}:scale-one', 'scale-one', f'{scaled}(mu=1)', got[f'{scaled}[objects]'], plain, got[f'{plain}[objects]'],
                         tol_term)
        # reductions
        red = r0['red']
        if red == 'logit':
            lg = ev_all(lambda ch: M.logit(V, av, ch), db)
            llg = ev_all(lambda ch: M.loglogit(V, av, ch), db)
            same('nested:all-nest-parameters-one', 'reduce-logit', 'nested', got['nested[objects]'], 'logit', lg, tol_term)
            same('lognested:all-nest-parameters-one', 'reduce-logit', 'lognested', got['lognested[objects]'], 'loglogit', llg, tol_term)
            same('nested_mev_mu:all-nest-parameters-one', 'reduce-logit', 'nested_mev_mu', got['nested_mev_mu[objects]'], 'logit', lg, tol_term)
        if red == 'nl':
            # (the nests of the simpler model: named by one of the namings, in rotation)
            nests = (nl_of or (lambda r: nl_nests(r, 'objects', naming=all_namings[rot % len(all_namings)])))(r0)
            if mu == 1.0:
                nv = ev_all(lambda ch: M.nested(V, av, nests, ch), db)
                same('cnl:one-nest-per-alternative', 'reduce-nl', 'cnl', got['cnl[objects]'], 'nested', nv, tol_term)
                same('cnl:one-nest-per-alternative', 'reduce-nl', 'cnl[objects+zeros]', got['cnl[objects+zeros]'], 'nested', nv, tol_term)
                lnv = ev_all(lambda ch: M.lognested(V, av, nests, ch), db)
                same('logcnl:one-nest-per-alternative', 'reduce-nl', 'logcnl', got['logcnl[objects]'], 'lognested', lnv, tol_term)
            nmv = ev_all(lambda ch: M.nested_mev_mu(V, av, nests, ch, mu), db)
            same('cnlmu:one-nest-per-alternative', 'reduce-nl', 'cnlmu', got['cnlmu[objects]'], 'nested_mev_mu', nmv, tol_term)
            same('cnlmu:one-nest-per-alternative', 'reduce-nl', 'cnlmu[objects+zeros]', got['cnlmu[objects+zeros]'], 'nested_mev_mu', nmv, tol_term)
        if red != 'none':
            # ... and both sides agree with the model the specification reduces to
            main = 'nested_mev_mu[objects]' if kind == 'nl' else 'cnlmu[objects]'
            for k, r in enumerate(group):
                rp = vals(r['redp'], r.get('refs'))
                col.n += J
                for i in range(J):
                    if not close(got[main][i, k], rp[i], rel=tol_term(r)):
                        col.bad(f'{kind}:{base_name(main)}:reduced-model-value', r, facts_of(r, base_name(main), 'reduce-value'),
                                alternative=labels[i], got=float(got[main][i, k]), reduced_model=rp[i])
        k = next((k for k, r in enumerate(group) if sum(r['av']) >= 2 and len(set(r['a'])) > 1), 0)
        sample = dict(case=describe(group[k]), reduces_to=red,
                      **{v: [float(x) for x in got[v][:, k]] for v in list(got)[:4]})
        # a second construction from the SAME objects (both dictionaries modified in place, the nests object kept): the two
        # ways of writing the nests still agree, and both give the specification's value of the new arguments
        if nl_of is None:
            sdb, args = _session_database(group, name='c06s')
            for lab in labels:
                V[lab] = log(Variable(f'b_{lab}'))
                av[lab] = Variable(f'w_{lab}')
            again = {v[0]: v for v in variants(r0, V, av, what='c06', tuple_param=tuple_param, cache=cache)}
            pick = names if plan != 'quick' else [names[(rot // 3 + j) % len(names)] for j in range(min(2, len(names)))]
            for fn in pick:
                is_log = again[f'{fn}[objects]'][2]
                second = {st: ev_all(again[f'{fn}[{st}]'][3], sdb) for st in (('objects', 'tuple') if plan != 'quick' else ('objects',))}
                nstat['second_constructions'] = nstat.get('second_constructions', 0) + len(second)
                if 'tuple' in second:
                    same(f'{fn}:tuple-vs-objects-second-construction', 'syntax-history', f'{fn}[objects]', second['objects'], f'{fn}[tuple]',
                         second['tuple'], tol_same)
                for k, r in enumerate(group):
                    j = args[2][k]
                    if j is None:
                        continue
                    w = vals(group[j]['p'], group[j].get('refs'))
                    col.n += J
                    for i in range(J):
                        x = second['objects'][i, k]
                        ok = _logclose(x, w[i], tol_term(group[j])) if is_log else close(x, w[i], rel=tol_term(group[j]))
                        if not ok:
                            col.bad(f'{kind}:{fn}:second-construction-value', group[j], facts_of(group[j], fn, 'history'), alternative=labels[i],
                                    got=float(x), **{'want_ln_of' if is_log else 'want': w[i]},
                                    first_construction=dict(a=r['a'], av=r['av']))

    if 'generating' in parts and kind == 'nl':
        gen = generating or M.get_mev_generating_for_nested
        patterns = sorted({tuple(r['av']) for r in group})
        dbav = _db({f'v_{lab}': [p[i] for p in patterns] for i, lab in enumerate(labels)}, name='c06av')
        y = {lab: Beta(f'y_{lab}', 1.0, None, None, 0) for lab in labels}
        Vy = {lab: log(y[lab]) for lab in labels}
        avv = {lab: Variable(f'v_{lab}') for lab in labels}
        # the nest objects are named by one of the namings, in rotation over the structures (thorough: two of them)
        g0 = (rot // 7) % len(all_namings)
        gnamings = [gen_naming] if gen_naming else [all_namings[g0]] if plan == 'quick' else [all_namings[g0], all_namings[(g0 + 1 + (rot // 31) % 3) % 4]]
        for gnm in gnamings:
            nests = nl_nests(r0, 'objects', naming=gnm)
            gnames = lib_names(gnm)
            used = [m for m in (0, 1) if any(fr(r0['alpha'][i][m]) != 0 for i in range(J))]
            mems = nl_members(r0)
            try:
                G = gen(Vy, avv, nests)
                lg1 = M.get_mev_for_nested(Vy, avv, nests)
                lgm = M.get_mev_for_nested_mu(Vy, avv, nests, mu)
                # G_mu(y) = G_1[mu_m / mu](y^mu): the published (scale-free) generating function, rescaled
                from biogeme.nests import NestsForNestedLogit, OneNestForNestedLogit
                rescaled = NestsForNestedLogit(choice_set=list(labels), tuple_of_nests=tuple(
                    OneNestForNestedLogit(nest_param=float(m / fr(r0['mu'])), list_of_alternatives=list(alts), name=gnames[used[k]])
                    for k, (m, alts) in enumerate(mems)))
                Gmu = gen({lab: mu * Vy[lab] for lab in labels}, avv, rescaled)
                if set(lg1) != set(labels) or set(lgm) != set(labels):
                    col.bad('nl:get_mev_for_nested:keys', r0, facts_of(r0, 'get_mev_for_nested', 'keys'), got=sorted(lg1), want=sorted(labels))
            except BiogemeError as e:    # a naming the library refuses, with its own error type
                if gnm == BASE_NAMING:
                    raise RuntimeError(f'generating function of {describe(r0)}: {type(e).__name__}: {e}')
                nstat['refused'][gnm] = str(e)[:200]
                continue
            except Exception as e:  # noqa
                raise RuntimeError(f'generating function of {describe(r0)}, nests named {NAMINGS[gnm]}: {type(e).__name__}: {e}')
            nstat['generating'][gnm] = nstat['generating'].get(gnm, 0) + 1
            by_a: dict = {}
            for r in group:
                by_a.setdefault(tuple(r['a']), {})[tuple(r['av'])] = r
            for a, recs in by_a.items():
                betas = {f'y_{lab}': float(a[i]) for i, lab in enumerate(labels)}
                try:
                    og = G.get_value_and_derivatives(betas=betas, database=dbav, gradient=True, hessian=False, bhhh=False, aggregation=False,
                                                     prepare_ids=True, named_results=True)
                    ogm = Gmu.get_value_and_derivatives(betas=betas, database=dbav, gradient=True, hessian=False, bhhh=False,
                                                        aggregation=False, prepare_ids=True, named_results=True)
                    t1 = {lab: _eval(lg1[lab], dbav, betas) for lab in labels}
                    tm = {lab: _eval(lgm[lab], dbav, betas) for lab in labels}
                except Exception as e:  # noqa
                    raise RuntimeError(f'generating function of {describe(r0)} at y={a}: {type(e).__name__}: {e}')
                col.evals += 2 + 2 * J
                for row, pat in enumerate(patterns):
                    r = recs.get(pat)
                    if r is None:
                        continue
                    tol = TOL_EXACT if all(isinstance(t, list) for t in r['dg']) else TOL_TERM
                    refs = r['refs']
                    want_g = val(r['g'], refs)
                    want_dg = vals(r['dg'], refs)
                    if corrupt_dg is not None:
                        want_dg = corrupt_dg(want_dg)
                    grad = {nm: float(x) for nm, x in og.gradients[row].items()}
                    grad_m = {nm: float(x) for nm, x in ogm.gradients[row].items()}
                    feats = facts_of(r, 'get_mev_generating_for_nested', 'generating', naming=gnm)
                    if mu == 1.0:
                        col.n += 1
                        if not close(float(og.functions[row]), want_g, rel=tol):
                            col.bad('nl:get_mev_generating_for_nested:value', r, dict(feats, clause='G-value'),
                                    got=float(og.functions[row]), want=want_g, G=terms.show(expand(r['g'], refs)))
                    col.n += 1
                    if not close(float(ogm.functions[row]), want_g, rel=tol):
                        col.bad('nl:get_mev_generating_for_nested:value-rescaled', r, dict(feats, clause='G-value-rescaled'),
                                got=float(ogm.functions[row]), want=want_g, G=terms.show(expand(r['g'], refs)))
                    for i, lab in enumerate(labels):
                        if not r['av'][i]:
                            # G does not depend on an unavailable alternative
                            col.n += 1
                            if grad.get(f'y_{lab}', 0.0) != 0.0 and mu == 1.0:
                                col.bad('nl:get_mev_generating_for_nested:unavailable-derivative', r, dict(feats, clause='dG-unavailable'),
                                        alternative=lab, dG_dy=grad[f'y_{lab}'])
                            continue
                        alone = all(fr(x) == 0 for x in r['alpha'][i])
                        pos = 'alone' if alone else 'nested'
                        pub_m = math.exp(float(tm[lab][row]))
                        col.n += 2
                        # the published terms against the derivative the specification states ...
                        if not close(pub_m, want_dg[i], rel=tol):
                            col.bad('nl:get_mev_for_nested_mu:term-vs-specification', r,
                                    dict(facts_of(r, 'get_mev_for_nested_mu', 'dG-spec'), position=pos, naming=gnm), alternative=lab,
                                    exp_of_term=pub_m, dG_dy=want_dg[i], dG_dy_term=terms.show(expand(r['dg'][i], refs)))
                        # ... and against the derivative of the published generating function (engine gradient)
                        if not close(pub_m, grad_m.get(f'y_{lab}', 0.0), rel=TOL_TERM):
                            col.bad('nl:get_mev_for_nested_mu:term-vs-gradient-of-G', r,
                                    dict(facts_of(r, 'get_mev_for_nested_mu', 'dG-gradient'), position=pos, naming=gnm), alternative=lab,
                                    exp_of_term=pub_m, gradient_of_published_G=grad_m.get(f'y_{lab}', 0.0), specification=want_dg[i])
                        if mu == 1.0:
                            pub = math.exp(float(t1[lab][row]))
                            col.n += 2
                            if not close(pub, want_dg[i], rel=tol):
                                col.bad('nl:get_mev_for_nested:term-vs-specification', r,
                                        dict(facts_of(r, 'get_mev_for_nested', 'dG-spec'), position=pos, naming=gnm), alternative=lab,
                                        exp_of_term=pub, dG_dy=want_dg[i], dG_dy_term=terms.show(expand(r['dg'][i], refs)))
                            if not close(pub, grad.get(f'y_{lab}', 0.0), rel=TOL_TERM):
                                col.bad('nl:get_mev_for_nested:term-vs-gradient-of-G', r,
                                        dict(facts_of(r, 'get_mev_for_nested', 'dG-gradient'), position=pos, naming=gnm), alternative=lab,
                                        exp_of_term=pub, gradient_of_published_G=grad.get(f'y_{lab}', 0.0), specification=want_dg[i])
                    if sample is not None and 'G' not in sample and mu == 1.0 and sum(r['av']) >= 2:
                        sample.update(G=dict(case=describe(r), G_expected=terms.show(expand(r['g'], refs)), G_observed=float(og.functions[row]),
                                             dG_expected=want_dg, gradient_observed=[grad.get(f'y_{lab}') for lab in labels],
                                             exp_of_published_terms=[math.exp(float(t1[lab][row])) for lab in labels]))
    return col.result(cases=len(group), sample=sample, inexact=sum(1 for r in group if not r['exact']), namings=nstat)


# ------------------------------------------------------------------------------------ known-wrong libraries (negative controls)
def patch_names_matter():
    """Negative control, to be called in a forked child: the nested logit terms are computed from nests keyed
    by their NAME (a later nest with the name of an earlier one takes its place: both get its parameter)."""
    import sys
    from biogeme.nests import NestsForNestedLogit, OneNestForNestedLogit

    mod = sys.modules['biogeme.models.nested']

    def keyed(real):
        def f(util, availability, nests, *rest):
            if isinstance(nests, NestsForNestedLogit):
                by_name = {m.name: m.nest_param for m in nests}
                nests = NestsForNestedLogit(choice_set=nests.choice_set, tuple_of_nests=tuple(
                    OneNestForNestedLogit(nest_param=by_name[m.name], list_of_alternatives=m.list_of_alternatives, name=m.name) for m in nests))
            return real(util, availability, nests, *rest)
        return f

    for name in ('get_mev_for_nested', 'get_mev_for_nested_mu', 'get_mev_generating_for_nested'):
        setattr(mod, name, keyed(getattr(mod, name)))
    import biogeme.models as M
    for name in ('get_mev_for_nested', 'get_mev_for_nested_mu', 'get_mev_generating_for_nested'):
        setattr(M, name, getattr(mod, name))


def patch_remembering():
    """Negative control, to be called in a forked child: the cross-nested logit keeps, on the nests object, the
    utilities and availabilities it saw first with these dictionary OBJECTS and uses them again."""
    import sys

    mod = sys.modules['biogeme.models.cnl']

    def remembering(real):
        def f(util, availability, nests, *rest):
            memo = getattr(nests, '_seen', None) if not isinstance(nests, tuple) else None
            if not isinstance(nests, tuple):
                if memo is None or memo[0] is not util or memo[1] is not availability:
                    memo = (util, availability, dict(util), dict(availability) if availability is not None else None)
                    nests._seen = memo
                return real(memo[2], memo[3], nests, *rest)
            return real(util, availability, nests, *rest)
        return f

    for name in ('get_mev_for_cross_nested', 'get_mev_for_cross_nested_mu'):
        setattr(mod, name, remembering(getattr(mod, name)))


def c05_group_patched(group, patch: str, **kw):
    {'names': patch_names_matter, 'remembers': patch_remembering}[patch]()
    return c05_group(group, **kw)


def c06_group_patched(group, patch: str, **kw):
    {'names': patch_names_matter, 'remembers': patch_remembering}[patch]()
    return c06_group(group, **kw)


def session_group_patched(item, patch: str):
    {'names': patch_names_matter, 'remembers': patch_remembering}[patch]()
    return session_group(item)


# ------------------------------------------------------------------------------------ reporting
def _merge(into: dict, d: dict):
    for k, x in d.items():
        if isinstance(x, dict):
            if k == 'refused':   # naming -> message of the library
                into.setdefault(k, {}).update(x)
            else:
                _merge(into.setdefault(k, {}), x)
        elif isinstance(x, (int, float)):
            into[k] = into.get(k, 0) + x


def report(chk, label: str, items, results, samples: dict | None = None) -> dict:
    """Replay results -> counts / violations of the check.  -> statistics of this batch."""
    stat = dict(items=len(items), cases=0, comparisons=0, engine_evaluations=0, mismatching_comparisons={}, inexact_cases=0)
    if samples is not None and items:   # a sample from the middle of the enumeration (the first structures are the degenerate ones)
        st, v = results[(2 * len(items)) // 3]
        if st == 'ok' and v.get('sample'):
            samples[label] = v['sample']
    for item, (st, v) in zip(items, results):
        first = item[0] if isinstance(item, list) else item['steps'][0] if 'steps' in item else item
        if st != 'ok':
            chk.violation(f'{label}:replay-{st}', dict(case=describe(first), error=v),
                          match=dict(kind=first['kind'], clause='exception', features=facts_of(first, '', '')['features']
                                     if first['kind'] in ('nl', 'cnl') else []))
            continue
        if v.get('oracle'):
            raise tlc.MachineryError(f'the specification disagrees with itself numerically: {v["oracle"]}')
        stat['cases'] += v['cases']
        stat['comparisons'] += v['n']
        stat['engine_evaluations'] += v['evals']
        stat['inexact_cases'] += v.get('inexact', 0)
        for part in ('history', 'sessions', 'namings'):   # nested counters of the new parts
            if v.get(part):
                _merge(stat.setdefault(part, {}), v[part])
        chk.replayed += v['cases']
        chk.count(None, v['n'])
        for k, c in v['counts'].items():
            stat['mismatching_comparisons'][k] = stat['mismatching_comparisons'].get(k, 0) + c
        for m in v['mism']:
            chk.violation(m['key'], m['detail'], match=m['facts'])
        if samples is not None and v.get('sample') and label not in samples:
            samples[label] = v['sample']
    return stat
