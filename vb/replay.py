"""Shows a replay file written by a check (the failing case with expected and observed values)."""
import json
import sys

if __name__ == '__main__':
    d = json.load(open(sys.argv[1]))
    print(f"property {d['property']}: {d['key']} ({d['count']} case(s))")
    for c in d['cases'][:5]:
        print(json.dumps(c, indent=1)[:4000])
    print(f"re-run: /venv/bin/python -m checks.{d['property'].lower()} --tier quick")
