"""C18 -- binding of specs/Mdcev.tla / MdcevTrace.tla to biogeme.mdcev.

spec -> code: TLC emits instances (goods, outside good, budget, scale, error draw) with the exact
optimum (Mode "exact") or with the utility / derivative / inverse as terms only (Mode "kkt");
`replay` builds the real model objects under every labelling of the goods and compares.
code -> spec: every forecast is recorded (tries of the choice-set identification, chosen set,
expenditures) and annotated with the SPEC's marginal utilities; MdcevTrace.tla judges the traces.
"""

from __future__ import annotations

import json
import math
import os
import random
from fractions import Fraction as F

from . import terms, tlc

VARIANTS = ['gamma', 'translated', 'generalized', 'nonmono']
HAS_PRICES = {'gamma', 'generalized'}
UNIT = 10**6          # fixed point of the traces
FIX_MAX = 2000.0      # |value| bound so that value * UNIT fits TLC's 32-bit integers

# labels the goods may carry.  First of each list: labels 1..n (a label then EQUALS the position of another good in the
# library's internal arrays); then labels whose internal order is not the sorted order, permutations, labels = positions,
# labels that collide in a small hash table, negative labels.
LABELINGS = {
    2: [[1, 2], [7, 3], [2, 1], [0, 1], [1, 0], [-1, 4]],
    3: [[1, 2, 3], [10, 3, 7], [3, 1, 2], [2, 0, 1], [0, 1, 2], [-1, 0, 4]],
    4: [[1, 2, 3, 4], [10, 3, 7, 5], [4, 1, 2, 3], [2, 3, 0, 1], [9, 1, 17, 25], [-2, 0, 1, 6]],
}


def pick_labelings(n: int, index: int, how_many: int) -> list:
    """The first labelling always, the others in rotation over the instances."""
    alls = LABELINGS[n]
    rest = alls[1:]
    out = [alls[0]]
    for j in range(how_many - 1):
        out.append(rest[(index * (how_many - 1) + j) % len(rest)])
    return out


# ------------------------------------------------------------------------------------ instances
def _ty(k=1, vq=0, r=1, eq=0, gam=1, pr=1, al='1/2', mu=0):
    return dict(k=int(k), vq=F(vq), r=F(r), eq=F(eq), gam=F(gam), pr=F(pr), al=F(al), mu=F(mu))


def exact_types(variant: str, tier: str, rng: random.Random) -> list[dict]:
    """Good types of the exact mode: V = log k, eps = sigma log r (nonmono: eps = eq), alpha = 1/2."""
    if variant in ('gamma', 'generalized'):
        core = [_ty(1, gam=1), _ty(2, gam=2), _ty(5, gam=1), _ty(3, r='1/2', gam=1, pr=2), _ty(2, r=2, gam=2, pr=2)]
        more = [_ty(1, gam=3, pr=3), _ty(4, r='3/2', gam='1/2'), _ty(7, gam=2, pr='1/2')]
    elif variant == 'translated':
        core = [_ty(1, gam=1), _ty(2, gam=2), _ty(5, gam=1), _ty(3, r='1/2', gam=4), _ty(2, r=2, gam='1/2')]
        more = [_ty(1, gam=3), _ty(4, r='3/2', gam='1/4'), _ty(7, gam=2)]
    else:
        core = [_ty(1, gam=1), _ty(2, gam=2), _ty(5, gam=1, eq=1), _ty(3, gam=4, eq=-1), _ty(2, gam='1/2', eq=2)]
        more = [_ty(1, gam=3), _ty(4, gam='1/4', eq='1/2'), _ty(7, gam=2, eq=-2)]
    if tier == 'quick':
        return core
    rng.shuffle(more)
    return core + more[:1]


def kkt_types(variant: str, tier: str, rng: random.Random) -> list[dict]:
    """Good types of the kkt mode: rational V, eps, gamma, price, alpha, mu (irrational optimum)."""
    vs = ['-1/2', '0', '1', '3/10', '3/2']
    es = ['0', '1/2', '-1', '1/4']
    gs = ['1/2', '1', '3', '5/2']
    ps = ['1', '1/2', '2', '3/2'] if variant in HAS_PRICES else ['1']
    als = ['1/4', '1/2', '3/4', '1/3', '9/10']
    mus = ['0', '1/4', '-1/2', '1'] if variant == 'nonmono' else ['0']
    fixed = [_ty(1, vq='1', eq='0', gam='1', pr='1', al='1/2', mu='0'),
             _ty(1, vq='0', eq='1/2', gam='3', pr=ps[-1], al='3/4', mu=mus[-1])]
    n = 3 if tier == 'quick' else 5
    out = list(fixed)
    while len(out) < len(fixed) + n:
        t = _ty(rng.choice([1, 1, 2]), vq=rng.choice(vs), eq=rng.choice(es), gam=rng.choice(gs), pr=rng.choice(ps),
                al=rng.choice(als), mu=rng.choice(mus))
        if t not in out:
            out.append(t)
    return out


# Histories of ONE model object on several data sets (specs/MdcevSeq.tla).  a / b: the rows of the first and the second data
# set as derivations <<p, q>> of the data the model was generated with (good i sees the data of type ts[i] + p + q i, cyclically);
# la / lb: the row labels (index of the data frame) of the two data sets.
SCENARIOS = [
    dict(a=[(0, 0), (2, 1)], b=[(1, 0), (0, 2)], la=[0, 1], lb=[0, 1], what='default index 0..n-1 in both data sets'),
    dict(a=[(0, 0)], b=[(1, 1)], la=[0], lb=[0], what='one observation, base and policy values'),
    dict(a=[(0, 0), (3, 0)], b=[(2, 0), (1, 1)], la=[5, 6], lb=[5, 6], what='offset index, the same in both data sets'),
    dict(a=[(0, 0), (1, 2)], b=[(1, 0), (3, 1)], la=[0, 1], lb=[1, 0], what='same labels, attached to the other row in the second data set'),
    dict(a=[(0, 0), (2, 0)], b=[(0, 1), (4, 0)], la=[0, 1], lb=[2, 3], what='the second data set continues the index of the first'),
    dict(a=[(0, 0), (1, 0)], b=[(3, 1), (2, 2)], la=[7, 7], lb=[7, 7], what='one label for every row of both data sets'),
]


def instance(tier: str, seed: int, mode: str) -> dict:
    rng = random.Random(seed * 7919 + (2 if mode == 'kkt' else 1))      # seq: the types of the exact mode
    quick = tier == 'quick'
    types = {v: (kkt_types if mode == 'kkt' else exact_types)(v, tier, rng) for v in VARIANTS}
    maxg = 3 if quick else 4
    if mode == 'kkt':
        maxg = 3
    labs = [l for n in range(2, maxg + 1) for l in LABELINGS[n]]
    return dict(
        Mode=mode,
        Variants=list(VARIANTS),
        Types=types,
        MinGoods=2,
        MaxGoods=maxg,
        Budgets=['1', '10'] if quick else (['1/2', '3', '20'] if mode == 'exact' else ['1', '12']),
        Scales=['0', '2'] if quick else ['0', '1/2'],
        Ms=['0', '1'] if quick else ['1', '-1/2'],
        Labelings=labs,
        ProbeS=['3/2', '4'],
        Scenarios=SCENARIOS,
        SeqThin=16 if quick else 8,
        SeqSalt=seed % 997,
    )


def qlit(q) -> str:
    q = F(q)
    n = str(q.numerator) if q.numerator >= 0 else f'(0 - {-q.numerator})'
    return f'[k |-> "q", n |-> {n}, d |-> {q.denominator}]'


def _tylit(t: dict) -> str:
    return ('[k |-> %d, vq |-> %s, r |-> %s, eq |-> %s, gam |-> %s, pr |-> %s, al |-> %s, mu |-> %s]'
            % (t['k'], qlit(t['vq']), qlit(t['r']), qlit(t['eq']), qlit(t['gam']), qlit(t['pr']), qlit(t['al']), qlit(t['mu'])))


def ilit(k: int) -> str:
    return str(k) if k >= 0 else f'(0 - {-k})'


def module(inst: dict, name: str = 'MCMdcev', base: str = 'Mdcev') -> str:
    lines = [f'---- MODULE {name} ----', f'EXTENDS {base}']
    tys = ', '.join(f'{v} |-> <<' + ', '.join(_tylit(t) for t in inst['Types'][v]) + '>>' for v in inst['Variants'])
    lines.append(f'C_Types == [{tys}]')
    lines.append('G_Types == C_Types')
    lines.append('G_Variants == {' + ', '.join(f'"{v}"' for v in inst['Variants']) + '}')
    for k in ('Budgets', 'Scales', 'Ms', 'ProbeS'):
        lines.append(f'G_{k} == {{' + ', '.join(qlit(q) for q in inst[k]) + '}')
    lines.append('G_Labelings == {' + ', '.join('<<' + ', '.join(ilit(x) for x in l) + '>>' for l in inst['Labelings']) + '}')
    if base == 'MdcevSeq':
        def rows(rs):
            return '<<' + ', '.join(f'<<{p}, {q}>>' for p, q in rs) + '>>'

        def labels(ls):
            return '<<' + ', '.join(ilit(x) for x in ls) + '>>'

        lines.append('G_Scenarios == <<' + ', '.join(
            f'[a |-> {rows(sc["a"])}, b |-> {rows(sc["b"])}, la |-> {labels(sc["la"])}, lb |-> {labels(sc["lb"])}]' for sc in inst['Scenarios']) + '>>')
    lines.append('====')
    return '\n'.join(lines) + '\n'


SEQ_INVARIANTS = ['SeqForecastIsOptimum', 'SeqOnCurrentData', 'SeqRecordedData', 'SeqSameDataSameForecast', 'SeqBaseReproduced',
                  'SeqHistoryShape', 'SeqScenarioOK']
MODEL_INVARIANTS = ['StagesOK', 'SolvedIsKkt', 'KktUnique', 'ChosenIsSupport', 'StopIsSafe', 'NoNegativeDemand', 'InverseInverts']


def cfg(inst: dict, mutation: str = 'none', emit: bool = True, invariants=None, spec: str = 'Spec', extra: str = '') -> str:
    out = [f'SPECIFICATION {spec}', 'CONSTANTS', f' Mutation = "{mutation}"', f' Mode = "{inst["Mode"]}"',
           f' MinGoods = {inst["MinGoods"]}', f' MaxGoods = {inst["MaxGoods"]}']
    out += [f' {k} <- G_{k}' for k in ('Types', 'Variants', 'Budgets', 'Scales', 'Ms', 'ProbeS', 'Labelings')]
    seq = inst['Mode'] == 'seq'
    if seq:
        out += [' Scenarios <- G_Scenarios', f' SeqThin = {inst["SeqThin"]}', f' SeqSalt = {inst["SeqSalt"]}']
        out[0] = 'SPECIFICATION SeqSpec'
    if extra:
        out.append(extra)
    for i in ((MODEL_INVARIANTS + (SEQ_INVARIANTS if seq else [])) if invariants is None else invariants):
        out.append(f'INVARIANT {i}')
    if emit:
        out.append('INVARIANT SeqEmitInv' if seq else 'INVARIANT EmitInv')
    return '\n'.join(out) + '\n'


def one_variant(inst: dict, v: str) -> dict:
    d = dict(inst)
    d['Variants'] = [v]
    return d


# ------------------------------------------------------------------------------------ terms with symbols
def _subst(t, x, lam):
    if isinstance(t, list):
        return t
    if t.get('k') == 'q':
        return t
    if t['f'] == 'var':
        which = t['a'][0]['n']
        val = x if which == 0 else lam
        if val is None:
            raise terms.Undefined('symbol without value')
        fr = val if isinstance(val, F) else F(float(val))
        return {'k': 'q', 'n': fr.numerator, 'd': fr.denominator}
    return {'k': 'f', 'f': t['f'], 'a': [_subst(a, x, lam) for a in t['a']]}


def evx(t, x=None, lam=None) -> float:
    """Value of a spec term at expenditure x / multiplier lam (floats or Fractions)."""
    return float(terms.ev(_subst(t, x, lam)))


def fr(q) -> F:
    return F(q['n'], q['d']) if isinstance(q, dict) else F(q[0], q[1])


def inst_key(c: dict) -> str:
    return json.dumps([c['v'], c['out'], c['up'], c['sc'], c['m'], c['B'], [g['ty'] for g in c['goods']]], sort_keys=True)


# ------------------------------------------------------------------------------------ the real models
def preload():
    import numpy  # noqa
    import pandas  # noqa
    import scipy.optimize  # noqa
    import biogeme.database  # noqa
    import biogeme.expressions  # noqa
    import biogeme.mdcev  # noqa


def _name(prefix: str, key: int) -> str:
    return f'{prefix}_{"m" if key < 0 else ""}{abs(key)}'


def build(c: dict, lab: list, classes=None):
    """The real model for instance `c` with good i carrying label lab[i-1] -> (model, database, eps, info)."""
    import numpy as np
    import pandas as pd
    from biogeme.database import Database
    from biogeme.expressions import Beta, Numeric, Variable
    from biogeme import mdcev as M

    v = c['v']
    goods = c['goods']
    n = c['n']
    keys = [int(lab[i]) for i in range(n)]
    out_key = keys[c['out'] - 1] if c['out'] else None
    sigma = fr(c['sc'])
    bu, gam, al, pr, mu = {}, {}, {}, {}, {}
    for i, g in enumerate(goods):
        key = keys[i]
        V = float(terms.ev(g['V']))
        # three ways of writing an expression whose value on the observation is V
        if i % 3 == 0:
            bu[key] = Beta(_name('b', key), V / 2.0, None, None, 0) * Variable('two')
        elif i % 3 == 1:
            bu[key] = Numeric(V) * Variable('one')
        else:
            bu[key] = Beta(_name('c', key), V, None, None, 1) + Variable('zero')
        gv = float(fr(g['gam']))
        gam[key] = None if key == out_key else (Numeric(gv) if i % 2 == 0 else Beta(_name('gamma', key), gv, 0.0001, None, 0))
        av = float(fr(g['al']))
        al[key] = Beta(_name('alpha', key), av, 0, 1, 0) if i % 2 == 0 else Numeric(av)
        pr[key] = Numeric(float(fr(g['pr'])))
        mu[key] = Numeric(float(fr(g['mu']))) * Variable('one')
    scale = None if sigma == 0 else Beta('scale', float(sigma), 0.0001, None, 0)
    prices = pr if c['up'] else None
    classes = classes or {}
    if v == 'gamma':
        model = classes.get(v, M.GammaProfile)('m', bu, gam, scale_parameter=scale, prices=prices)
    elif v == 'translated':
        model = classes.get(v, M.Translated)('m', bu, gam, alpha_parameters=al, scale_parameter=scale)
    elif v == 'generalized':
        model = classes.get(v, M.Generalized)('m', bu, gam, alpha_parameters=al, scale_parameter=scale, prices=prices)
    else:
        model = classes.get(v, M.NonMonotonic)('m', bu, gam, mu_utilities=mu, alpha_parameters=al, scale_parameter=scale)
    db = Database('row', pd.DataFrame([{'one': 1.0, 'two': 2.0, 'zero': 0.0}]))
    eps = np.zeros(n)
    epsv = {}
    for i, g in enumerate(goods):
        epsv[keys[i]] = float(terms.ev(g['eps']))
        eps[model.key_to_index[keys[i]]] = epsv[keys[i]]
    ogi = model.outside_good_index
    info = dict(keys=keys, out_key=out_key, index_to_key=list(model.index_to_key), outside_good_index=ogi,
                label_equals_outside_position=bool(out_key is not None and any(k == ogi and k != out_key for k in keys)),
                positional=list(model.index_to_key) == sorted(keys) and sorted(keys) == list(range(n)))
    return model, db, eps, epsv, info


def close(a, b, rel, abs_=0.0) -> bool:
    try:
        a = float(a)
        b = float(b)
    except (TypeError, ValueError):
        return False
    if not (math.isfinite(a) and math.isfinite(b)):
        return False
    return abs(a - b) <= max(abs_, rel * max(1.0, abs(a), abs(b)))


PROBES = [0.5, 1.0, 3.0, 10.0]
SEQ_PROBES = [1.0, 3.0]      # histories: every row of every step is probed


def _exc(e) -> str:
    return f'{type(e).__name__}: {str(e)[:200]}'


def check_pieces(c, model, db, epsv, info, mism, engine_probes, facts, probes=None):
    """numeric utility = symbolic utility = spec term; derivative = spec term = finite difference = engine gradient;
    optimal consumption inverts the derivative."""
    from biogeme.expressions import Beta, Numeric

    n_eval = 0
    v = c['v']
    for i, g in enumerate(c['goods']):
        key = info['keys'][i]
        is_out = key == info['out_key']
        e = epsv[key]
        f = dict(facts, good=i + 1, label=key, is_out=is_out)

        def U(x):
            return float(model.utility_one_alternative(the_id=key, the_consumption=x, epsilon=e, one_observation=db))

        def dU(x):
            return float(model.derivative_utility_one_alternative(the_id=key, the_consumption=x, epsilon=e, one_observation=db))

        for x in ([] if is_out else [0.0]) + (PROBES if probes is None else probes):
            try:
                u_code = U(x)
                d_code = dU(x)
            except Exception as ex:  # noqa
                mism.append(dict(key=f'{v}:pieces:exception', detail=dict(f, x=x, error=_exc(ex)), facts=dict(f, kind='pieces-exception')))
                continue
            u_spec = evx(g['U'], x)
            d_spec = evx(g['dU'], x)
            n_eval += 2
            if not close(u_code, u_spec, 1e-9):
                mism.append(dict(key=f'{v}:utility-vs-spec', detail=dict(f, x=x, code=u_code, spec=u_spec), facts=dict(f, kind='utility')))
            if not close(d_code, d_spec, 1e-9):
                mism.append(dict(key=f'{v}:derivative-vs-spec', detail=dict(f, x=x, code=d_code, spec=d_spec),
                                 facts=dict(f, kind='derivative', at_zero=x == 0.0)))
            if x > 0:
                h = 1e-5 * max(1.0, x)
                try:
                    fd = (U(x + h) - U(x - h)) / (2 * h)
                except Exception as ex:  # noqa
                    fd = float('nan')
                n_eval += 1
                if not close(d_code, fd, 1e-6):
                    mism.append(dict(key=f'{v}:derivative-vs-finite-difference', detail=dict(f, x=x, code=d_code, fd=fd),
                                     facts=dict(f, kind='derivative-fd')))
            if x in engine_probes:
                try:
                    expr = model.utility_expression_one_alternative(
                        the_id=key, the_consumption=Beta('consumption', x, None, None, 0), unscaled_epsilon=Numeric(e))
                    res = expr.get_value_and_derivatives(database=db, prepare_ids=True, gradient=True, named_results=True)
                    u_sym = float(res.function)
                    d_sym = float(res.gradient['consumption'])
                except Exception as ex:  # noqa
                    mism.append(dict(key=f'{v}:symbolic:exception', detail=dict(f, x=x, error=_exc(ex)), facts=dict(f, kind='symbolic-exception')))
                    continue
                n_eval += 2
                if not close(u_code, u_sym, 1e-9):
                    mism.append(dict(key=f'{v}:utility-numeric-vs-symbolic', detail=dict(f, x=x, numeric=u_code, symbolic=u_sym),
                                     facts=dict(f, kind='utility-symbolic')))
                if not close(d_code, d_sym, 1e-9):
                    mism.append(dict(key=f'{v}:derivative-vs-symbolic-gradient', detail=dict(f, x=x, numeric=d_code, symbolic=d_sym),
                                     facts=dict(f, kind='derivative-symbolic')))
        # inverse of the derivative, at multipliers for which the good is consumed
        if is_out:
            lams = [evx(g['dU'], 1.0), evx(g['dU'], 4.0)]
        else:
            w = evx(g['dU'], 0.0)
            base = float(terms.ev(_m_term(c, g))) if v == 'nonmono' else 0.0   # the limit of U' at infinity
            lams = [base + (w - base) / 2.0, base + (w - base) / 5.0]
        for lam in lams:
            try:
                x = float(model.optimal_consumption_one_alternative(the_id=key, dual_variable=lam, epsilon=e, one_observation=db))
                back = dU(x)
            except Exception as ex:  # noqa
                mism.append(dict(key=f'{v}:inverse:exception', detail=dict(f, lam=lam, error=_exc(ex)), facts=dict(f, kind='inverse-exception')))
                continue
            x_spec = evx(g['inv'], lam=lam)
            n_eval += 2
            if not close(x, x_spec, 1e-9):
                mism.append(dict(key=f'{v}:optimal-consumption-vs-spec', detail=dict(f, lam=lam, code=x, spec=x_spec), facts=dict(f, kind='inverse')))
            if not close(back, lam, 1e-9):
                mism.append(dict(key=f'{v}:optimal-consumption-does-not-invert', detail=dict(f, lam=lam, x=x, derivative=back),
                                 facts=dict(f, kind='inverse-roundtrip')))
    return n_eval


def _m_term(c, g):
    """mu + eps / sigma as a term (nonmono)."""
    sigma = c['sc'] if fr(c['sc']) != 0 else {'k': 'q', 'n': 1, 'd': 1}
    return {'k': 'f', 'f': 'add', 'a': [g['mu'], {'k': 'f', 'f': 'div', 'a': [g['eps'], sigma]}]}


def record_forecast(model, db, B, eps):
    """Run forecast_bisection_one_draw and record the identification steps."""
    tries = []
    chosen_box = []
    orig_next = model.is_next_alternative_chosen
    orig_ident = model.identification_chosen_alternatives

    def next_wrapper(*args, **kwargs):
        res = orig_next(*args, **kwargs)
        cand = kwargs.get('candidate_alternative', args[1] if len(args) > 1 else None)
        tries.append(dict(lab=int(cand), acc=bool(res[0])))
        return res

    def ident_wrapper(*args, **kwargs):
        res = orig_ident(*args, **kwargs)
        chosen_box.append(sorted(int(k) for k in res[0]))
        return res

    model.is_next_alternative_chosen = next_wrapper
    model.identification_chosen_alternatives = ident_wrapper
    try:
        x = model.forecast_bisection_one_draw(one_row_of_database=db, total_budget=B, epsilon=eps)
    finally:
        del model.is_next_alternative_chosen
        del model.identification_chosen_alternatives
    return {int(k): float(val) for k, val in x.items()}, tries, (chosen_box[0] if chosen_box else [])


def fix(val: float) -> int:
    if not math.isfinite(val) or abs(val) >= FIX_MAX:
        raise OverflowError(f'value {val} does not fit the fixed-point trace')
    return int(round(val * UNIT))


def objective(c, xs) -> float:
    tot = 0.0
    for g, x in zip(c['goods'], xs):
        tot += evx(g['U'], max(x, 0.0))
    return tot


def make_trace(tid, c, info, x, tries, chosen, brute):
    """The trace record for MdcevTrace: recorded behaviour + the spec's marginal utilities at that point."""
    keys = info['keys']
    xs = [x.get(k, float('nan')) for k in keys]
    mu, mu0 = [], []
    for i, g in enumerate(c['goods']):
        is_out = keys[i] == info['out_key']
        xi = xs[i]
        if is_out:
            mu.append(evx(g['dU'], xi) if xi > 0 else 0.0)
            mu0.append(0.0)
        else:
            mu.append(evx(g['dU'], max(xi, 0.0)))
            mu0.append(evx(g['dU'], 0.0))
    B = float(fr(c['B']))
    tr = dict(tid=tid, n=c['n'], out=c['out'], B=fix(B), labs=keys, tries=tries, chosen=chosen,
              x=[fix(v) for v in xs], mu=[fix(v) for v in mu], mu0=[fix(v) for v in mu0])
    has_b = False
    obj_f = objective(c, xs)
    obj_b = 0.0
    if brute is not None:
        bx = [float(brute.get(k, float('nan'))) for k in keys]
        feasible = all(math.isfinite(v) and v >= -1e-9 for v in bx) and abs(sum(bx) - B) <= 1e-7
        if feasible and (not c['out'] or bx[c['out'] - 1] > 0):
            has_b = True
            obj_b = objective(c, bx)
    tr.update(hasB=has_b, objF=fix(obj_f), objB=fix(obj_b))
    return tr


class _Skip(Exception):
    pass


def replay(item, classes=None, corrupt=None):
    """All checks of one emitted instance under its labellings.
    item: id, rec (emitted record), labs (labellings to run), engine (labelling index whose pieces are also evaluated
    symbolically through the engine, or None), validation (labelling index on which the library's validation() runs, or None),
    public ('all' or the labelling indices on which the public forecast() is run as well, two draws).
    -> dict(mism=[...], traces=[...], tinfo={tid: facts}, n=evaluations, runs=..., done=..., sample=...)"""
    import numpy as np

    rec = item['rec']
    c = rec['c']
    v = c['v']
    exact = c['mode'] == 'exact'
    B = float(fr(c['B']))
    want = None
    if exact:
        want = [fr(q) for q in rec['x']]
        if corrupt:
            want = corrupt(want)
    mism, traces, tinfo = [], [], {}
    n_eval = 0
    per_lab = {}
    sample = None
    base_facts = dict(variant=v, mode=c['mode'], outside=bool(c['out']), prices=bool(c['up']), scale=fr(c['sc']) != 0)
    for li, lab in enumerate(item['labs']):
        tid = f"{item['id']}/{li}"
        try:
            model, db, eps, epsv, info = build(c, lab, classes)
        except Exception as ex:  # noqa
            mism.append(dict(key=f'{v}:build:exception', detail=dict(labels=lab, error=_exc(ex)), facts=dict(base_facts, kind='build-exception')))
            continue
        facts = dict(base_facts, labels=list(lab), label_equals_outside_position=info['label_equals_outside_position'],
                     labels_are_positions=info['positional'])
        keys = info['keys']
        n_eval += check_pieces(c, model, db, epsv, info, mism, (1.0, 3.0) if item.get('engine') == li else (), facts)
        # ---- the library's own validation of its pieces
        if item.get('validation') == li:
            try:
                msgs = model.validation(one_row=db)
                n_eval += 1
                if msgs:
                    mism.append(dict(key=f'{v}:validation-messages', detail=dict(facts, messages=msgs[:3]), facts=dict(facts, kind='validation')))
            except Exception as ex:  # noqa
                mism.append(dict(key=f'{v}:validation:exception', detail=dict(facts, error=_exc(ex)), facts=dict(facts, kind='validation-exception')))
        # ---- forecast
        try:
            x, tries, chosen = record_forecast(model, db, B, eps)
        except Exception as ex:  # noqa
            mism.append(dict(key=f'{v}:forecast:exception', detail=dict(facts, out_key=info['out_key'], index_to_key=info['index_to_key'],
                                                                         error=_exc(ex)),
                             facts=dict(facts, kind='forecast-exception', error_type=type(ex).__name__)))
            continue
        n_eval += 1
        if set(x) != set(keys):
            mism.append(dict(key=f'{v}:forecast:labels', detail=dict(facts, returned=sorted(x)), facts=dict(facts, kind='forecast-labels')))
            continue
        xs = [x[k] for k in keys]
        per_lab[li] = xs
        if want is not None:
            bad = [i + 1 for i in range(c['n']) if not close(xs[i], float(want[i]), 1e-8, 1e-8)]
            if bad:
                mism.append(dict(key=f'{v}:forecast-vs-spec', detail=dict(facts, out_key=info['out_key'], expected=[str(q) for q in want], observed=xs,
                                                                          goods=bad, budget=str(fr(c['B']))),
                                 facts=dict(facts, kind='forecast-value', budget_missed=abs(sum(xs) - B) > 1e-7)))
        # the public entry point (two draws, default tolerances) and the brute-force optimiser
        brute = None
        try:
            if item.get('public', 'all') != 'all' and li not in item['public']:
                raise _Skip()
            dfs = model.forecast(database=db, total_budget=B, epsilons=[np.vstack([eps, eps])])
            n_eval += 1
            if len(dfs) != 1 or list(dfs[0].columns) != sorted(keys) or len(dfs[0]) != 2:
                mism.append(dict(key=f'{v}:forecast-frame', detail=dict(facts, columns=[int(k) for k in dfs[0].columns], rows=len(dfs[0])),
                                 facts=dict(facts, kind='forecast-frame')))
            else:
                for r in range(2):
                    row = {int(k): float(dfs[0][k].iloc[r]) for k in dfs[0].columns}
                    if not all(close(row[k], x[k], 1e-6, 1e-6) for k in keys):
                        mism.append(dict(key=f'{v}:forecast-public-vs-one-draw', detail=dict(facts, draw=r, forecast=row, one_draw=x),
                                         facts=dict(facts, kind='forecast-public', budget_missed=abs(sum(row.values()) - B) > 1e-7)))
                        break
        except _Skip:
            pass
        except Exception as ex:  # noqa
            mism.append(dict(key=f'{v}:forecast-public:exception', detail=dict(facts, error=_exc(ex)), facts=dict(facts, kind='forecast-public-exception')))
        try:
            brute = model.forecast_bruteforce_one_draw(one_row_database=db, total_budget=B, epsilon=eps)
            n_eval += 1
        except Exception as ex:  # noqa
            brute = None
            mism.append(dict(key=f'{v}:bruteforce:exception', detail=dict(facts, error=_exc(ex)), facts=dict(facts, kind='bruteforce-exception')))
        try:
            traces.append(make_trace(tid, c, info, x, tries, chosen, brute))
            tinfo[tid] = dict(facts, out_key=info['out_key'], observed=xs, budget=str(fr(c['B'])), budget_missed=abs(sum(xs) - B) > 1e-7)
        except (OverflowError, terms.Undefined, ValueError) as ex:
            mism.append(dict(key=f'{v}:forecast:not-a-point', detail=dict(facts, observed=xs, error=_exc(ex)), facts=dict(facts, kind='forecast-nonfinite')))
        if sample is None and want is not None:
            sample = dict(variant=v, labels=lab, outside_label=info['out_key'], budget=str(fr(c['B'])),
                          expected_by_spec={str(k): str(q) for k, q in zip(keys, want)}, observed={str(k): x[k] for k in keys},
                          tries=tries)
        elif sample is None:
            sample = dict(variant=v, labels=lab, outside_label=info['out_key'], budget=str(fr(c['B'])), observed={str(k): x[k] for k in keys},
                          tries=tries, verdict='by MdcevTrace')
    # ---- the labels carry no meaning: same consumptions good by good under every labelling
    ref = None
    for li, xs in per_lab.items():
        if ref is None:
            ref = (li, xs)
        elif not all(close(a, b, 1e-9, 1e-9) for a, b in zip(ref[1], xs)):
            miss = abs(sum(xs) - B) > 1e-7 or abs(sum(ref[1]) - B) > 1e-7
            mism.append(dict(key=f'{v}:relabelling-changes-forecast',
                             detail=dict(base_facts, labels_a=item['labs'][ref[0]], x_a=ref[1], labels_b=item['labs'][li], x_b=xs),
                             facts=dict(base_facts, kind='relabelling', labels=list(item['labs'][li]), budget_missed=miss)))
    return dict(mism=mism, traces=traces, tinfo=tinfo, n=n_eval, runs=len(item['labs']), done=len(per_lab), sample=sample)


# ------------------------------------------------------------------------------------ one model object, several data sets
def seq_key(rec: dict) -> str:
    return inst_key(rec['c']) + json.dumps([rec['seq']['a'], rec['seq']['b'], rec['seq']['la'], rec['seq']['lb']])


def seq_steps(rec: dict) -> list:
    """[(step number, name of the data set, [history entries of the step in row order])]; the entries of a step on a data
    set that was seen before carry no terms of their own: they get those of the first step on that data set."""
    first = {}
    out = []
    for s, name in enumerate(rec['plan'], start=1):
        ents = sorted((h for h in rec['hist'] if h['step'] == s), key=lambda h: h['row'])
        if name in first:
            ents = [dict(h, goods=g['goods']) for h, g in zip(ents, first[name])]
        else:
            first[name] = ents
        out.append((s, name, ents))
    return out


def build_seq(c: dict, goods: list, lab: list, classes=None):
    """ONE model object whose baseline (and mu) utilities read the columns of the observation -> (model, info).
    The baseline utility of good i is written in three ways, each evaluating to the column value V."""
    from biogeme.expressions import Beta, Numeric, Variable
    from biogeme import mdcev as M

    v = c['v']
    n = c['n']
    keys = [int(lab[i]) for i in range(n)]
    out_key = keys[c['out'] - 1] if c['out'] else None
    sigma = fr(c['sc'])
    bu, gam, al, pr, mu = {}, {}, {}, {}, {}
    for i, g in enumerate(goods):
        key = keys[i]
        if i % 3 == 0:
            bu[key] = Beta(_name('b', key), 0.5, None, None, 0) * Variable(f'twice_u{i + 1}')
        elif i % 3 == 1:
            bu[key] = Numeric(1.0) * Variable(f'u{i + 1}')
        else:
            bu[key] = Beta(_name('c', key), 1.0, None, None, 1) * Variable(f'u{i + 1}') + Variable('zero')
        gv = float(fr(g['gam']))
        gam[key] = None if key == out_key else (Numeric(gv) if i % 2 == 0 else Beta(_name('gamma', key), gv, 0.0001, None, 0))
        av = float(fr(g['al']))
        al[key] = Beta(_name('alpha', key), av, 0, 1, 0) if i % 2 == 0 else Numeric(av)
        pr[key] = Numeric(float(fr(g['pr'])))
        mu[key] = Variable(f'mu{i + 1}') if i % 2 == 0 else Numeric(1.0) * Variable(f'mu{i + 1}')
    scale = None if sigma == 0 else Beta('scale', float(sigma), 0.0001, None, 0)
    prices = pr if c['up'] else None
    classes = classes or {}
    if v == 'gamma':
        model = classes.get(v, M.GammaProfile)('m', bu, gam, scale_parameter=scale, prices=prices)
    elif v == 'translated':
        model = classes.get(v, M.Translated)('m', bu, gam, alpha_parameters=al, scale_parameter=scale)
    elif v == 'generalized':
        model = classes.get(v, M.Generalized)('m', bu, gam, alpha_parameters=al, scale_parameter=scale, prices=prices)
    else:
        model = classes.get(v, M.NonMonotonic)('m', bu, gam, mu_utilities=mu, alpha_parameters=al, scale_parameter=scale)
    ogi = model.outside_good_index
    info = dict(keys=keys, out_key=out_key, index_to_key=list(model.index_to_key), outside_good_index=ogi,
                label_equals_outside_position=bool(out_key is not None and any(k == ogi and k != out_key for k in keys)),
                positional=list(model.index_to_key) == sorted(keys) and sorted(keys) == list(range(n)))
    return model, info


def seq_frame(ents: list, labels: list):
    """The data frame of one data set: one row per history entry, the columns the model reads, the given row labels."""
    import pandas as pd

    rows = []
    for h in ents:
        row = {'one': 1.0, 'two': 2.0, 'zero': 0.0}
        for i, g in enumerate(h['goods']):
            V = float(terms.ev(g['V']))
            row[f'u{i + 1}'] = V
            row[f'twice_u{i + 1}'] = 2.0 * V
            row[f'mu{i + 1}'] = float(fr(g['mu']))
        rows.append(row)
    return pd.DataFrame(rows, index=[int(x) for x in labels])


def replay_seq(item, classes=None):
    """One history of specs/MdcevSeq.tla on the real classes: ONE model object; for every step of the plan a data frame with the
    rows and row labels of the step is forecast through the public forecast() (two draws per row), then row by row
    (Database.mdcev_row_split) through forecast_bisection_one_draw (recorded for MdcevTrace), the pieces are compared with the
    specification's terms FOR THAT ROW and the library's validation() runs on the first row.
    -> same shape as replay()."""
    import numpy as np
    from biogeme.database import Database

    rec = item['rec']
    c = rec['c']
    v = c['v']
    B = float(fr(c['B']))
    lab = item['lab']
    mism, traces, tinfo = [], [], {}
    n_eval = 0
    done = 0
    sample = None
    base_facts = dict(variant=v, mode='seq', outside=bool(c['out']), prices=bool(c['up']), scale=fr(c['sc']) != 0, labels=list(lab),
                      sequence=True, row_labels=[list(rec['seq']['la']), list(rec['seq']['lb'])])
    steps = seq_steps(rec)
    try:
        model, info = build_seq(c, steps[0][2][0]['goods'], lab, classes)
    except Exception as ex:  # noqa
        return dict(mism=[dict(key=f'{v}:seq:build:exception', detail=dict(base_facts, error=_exc(ex)), facts=dict(base_facts, kind='build-exception'))],
                    traces=[], tinfo={}, n=0, runs=len(rec['hist']), done=0, sample=None)
    base_facts.update(label_equals_outside_position=info['label_equals_outside_position'], labels_are_positions=info['positional'])
    keys = info['keys']
    history = []
    for s, name, ents in steps:
        labels = rec['seq']['la'] if name == 'a' else rec['seq']['lb']
        sfacts = dict(base_facts, step=s, data_set=name, seen_before=name in [x[1] for x in steps[:s - 1]])
        db = Database('base' if name == 'a' else 'policy', seq_frame(ents, labels))
        epss = []
        for h in ents:
            eps = np.zeros(c['n'])
            for i, g in enumerate(h['goods']):
                eps[model.key_to_index[keys[i]]] = float(terms.ev(g['eps']))
            epss.append(eps)
        want = [[fr(q) for q in h['x']] for h in ents]
        # ---- the public entry point on the whole data set
        public = None
        try:
            dfs = model.forecast(database=db, total_budget=B, epsilons=[np.vstack([e, e]) for e in epss])
            n_eval += 1
            if len(dfs) != len(ents) or any(list(d.columns) != sorted(keys) or len(d) != 2 for d in dfs):
                mism.append(dict(key=f'{v}:seq:forecast-frame', detail=dict(sfacts, frames=len(dfs), rows=len(ents)), facts=dict(sfacts, kind='seq-forecast-frame')))
            else:
                public = [[{int(k): float(d[k].iloc[r]) for k in d.columns} for r in range(2)] for d in dfs]
        except Exception as ex:  # noqa
            mism.append(dict(key=f'{v}:seq:forecast-public:exception', detail=dict(sfacts, error=_exc(ex)),
                             facts=dict(sfacts, kind='seq-forecast-public-exception', error_type=type(ex).__name__)))
        try:
            row_dbs = db.mdcev_row_split()
        except Exception as ex:  # noqa
            mism.append(dict(key=f'{v}:seq:row-split:exception', detail=dict(sfacts, error=_exc(ex)), facts=dict(sfacts, kind='seq-row-split-exception')))
            continue
        for r, h in enumerate(ents):
            rfacts = dict(sfacts, row=r + 1, row_label=int(labels[r]))
            c_row = dict(c, goods=h['goods'])
            row_db = row_dbs[r]
            exp_show = [str(q) for q in want[r]]
            if public is not None:
                for dr in range(2):
                    xs = [public[r][dr][k] for k in keys]
                    if not all(close(xs[i], float(want[r][i]), 1e-6, 1e-6) for i in range(c['n'])):
                        mism.append(dict(key=f'{v}:seq:forecast-public-vs-spec',
                                         detail=dict(rfacts, draw=dr, expected=exp_show, observed=xs, history=history[-4:]),
                                         facts=dict(rfacts, kind='seq-forecast-public', budget_missed=abs(sum(xs) - B) > 1e-6)))
                        break
            epsv = {keys[i]: float(terms.ev(g['eps'])) for i, g in enumerate(h['goods'])}
            n_eval += check_pieces(c_row, model, row_db, epsv, info, mism, (1.0,) if item.get('engine') == (s, r + 1) else (), dict(rfacts),
                                   probes=SEQ_PROBES)
            if r == 0 and s in item.get('validation', ()):
                try:
                    msgs = model.validation(one_row=row_db)
                    n_eval += 1
                    if msgs:
                        mism.append(dict(key=f'{v}:seq:validation-messages', detail=dict(rfacts, messages=msgs[:3]), facts=dict(rfacts, kind='seq-validation')))
                except Exception as ex:  # noqa
                    mism.append(dict(key=f'{v}:seq:validation:exception', detail=dict(rfacts, error=_exc(ex)), facts=dict(rfacts, kind='seq-validation-exception')))
            try:
                x, tries, chosen = record_forecast(model, row_db, B, epss[r])
            except Exception as ex:  # noqa
                mism.append(dict(key=f'{v}:seq:forecast:exception', detail=dict(rfacts, error=_exc(ex)),
                                 facts=dict(rfacts, kind='seq-forecast-exception', error_type=type(ex).__name__)))
                continue
            n_eval += 1
            if set(x) != set(keys):
                mism.append(dict(key=f'{v}:seq:forecast:labels', detail=dict(rfacts, returned=sorted(x)), facts=dict(rfacts, kind='seq-forecast-labels')))
                continue
            xs = [x[k] for k in keys]
            done += 1
            history.append(dict(step=s, data_set=name, row=r + 1, row_label=int(labels[r]), observed=xs, expected=exp_show))
            bad = [i + 1 for i in range(c['n']) if not close(xs[i], float(want[r][i]), 1e-8, 1e-8)]
            if bad:
                # is it the answer to an EARLIER row of the history (something computed before was used again)?
                stale = [dict(step=p['step'], row=p['row']) for p in history[:-1]
                         if all(close(a, b, 1e-8, 1e-8) for a, b in zip(xs, p['observed']))]
                mism.append(dict(key=f'{v}:seq:forecast-vs-spec',
                                 detail=dict(rfacts, expected=exp_show, observed=xs, goods=bad, budget=str(fr(c['B'])),
                                             equals_earlier_forecast=stale[:2], history=history[-5:-1]),
                                 facts=dict(rfacts, kind='seq-forecast-value', budget_missed=abs(sum(xs) - B) > 1e-7, stale=bool(stale))))
            tid = f"{item['id']}/s{s}r{r + 1}"
            try:
                traces.append(make_trace(tid, c_row, info, x, tries, chosen, None))
                tinfo[tid] = dict(rfacts, out_key=info['out_key'], observed=xs, budget=str(fr(c['B'])), budget_missed=abs(sum(xs) - B) > 1e-7)
            except (OverflowError, terms.Undefined, ValueError) as ex:
                mism.append(dict(key=f'{v}:seq:forecast:not-a-point', detail=dict(rfacts, observed=xs, error=_exc(ex)), facts=dict(rfacts, kind='seq-forecast-nonfinite')))
    if history:
        sample = dict(variant=v, labels=list(lab), outside_label=info['out_key'], budget=str(fr(c['B'])), one_model_object=True,
                      row_labels=dict(first=list(rec['seq']['la']), second=list(rec['seq']['lb'])), history=history)
    return dict(mism=mism, traces=traces, tinfo=tinfo, n=n_eval, runs=len(rec['hist']), done=done, sample=sample)


def cached_by_row_label_classes() -> dict:
    """Model classes that remember the baseline utility they computed for a ROW LABEL (index of the data frame) and use it again
    for any later observation of that label -- negative control only, built from the real classes."""
    from biogeme import mdcev as M

    def wrap(base):
        class RemembersRowLabel(base):
            def calculate_baseline_utility(self, alternative_id, one_observation):
                memo = self.__dict__.setdefault('_by_row_label', {})
                key = (alternative_id, one_observation.data.index[0])
                if key not in memo:
                    memo[key] = super().calculate_baseline_utility(alternative_id=alternative_id, one_observation=one_observation)
                return memo[key]

        return RemembersRowLabel

    return dict(gamma=wrap(M.GammaProfile), translated=wrap(M.Translated), generalized=wrap(M.Generalized), nonmono=wrap(M.NonMonotonic))


def seq_selfcheck(rec) -> list[str]:
    """The emitted history is what the module says it is (machinery check)."""
    probs = []
    B = fr(rec['c']['B'])
    for s, name, ents in seq_steps(rec):
        rows = rec['seq'][name]
        if [h['row'] for h in ents] != list(range(1, len(rows) + 1)):
            probs.append(f'step {s}: rows {[h["row"] for h in ents]} recorded for {len(rows)} rows')
        for h in ents:
            if h['kkt'] != 'ok':
                probs.append(f'step {s} row {h["row"]}: verdict {h["kkt"]}')
            if sum(fr(q) for q in h['x']) != B:
                probs.append(f'step {s} row {h["row"]}: expected consumptions do not exhaust the budget')
            lam = None
            for i, g in enumerate(h['goods']):
                xi = fr(h['x'][i])
                if xi > 0:
                    mu = evx(g['dU'], xi)
                    if lam is not None and not close(mu, lam, 1e-9):
                        probs.append(f'step {s} row {h["row"]}: marginal utilities of the consumed goods differ')
                    lam = mu
    return probs


# ------------------------------------------------------------------------------------ spec self-consistency
def spec_selfcheck(rec) -> list[str]:
    """The spec's own pieces agree with each other (machinery check, not a verdict on biogeme)."""
    c = rec['c']
    probs = []
    for i, g in enumerate(c['goods']):
        is_out = (i + 1) == c['out']
        for x in (0.7, 2.0, 6.0):
            h = 1e-5
            fd = (evx(g['U'], x + h) - evx(g['U'], x - h)) / (2 * h)
            d = evx(g['dU'], x)
            if not close(fd, d, 1e-6):
                probs.append(f'dU is not the derivative of U (good {i + 1}, x={x}: {d} vs {fd})')
            lam = d
            back = evx(g['inv'], lam=lam)
            if not close(back, x, 1e-9):
                probs.append(f'inv does not invert dU (good {i + 1}, x={x}: {back})')
        if c['mode'] == 'exact':
            if not close(float(terms.ev(g['psi'])), float(fr(rec['psiq'][i])), 1e-12):
                probs.append(f'psi term and rational psi differ (good {i + 1})')
            xi = fr(rec['x'][i])
            if xi > 0 and not close(evx(g['dU'], xi), float(terms.ev(rec['lam'])), 1e-9):
                probs.append(f'marginal utility at the optimum is not lambda (good {i + 1})')
            if xi == 0 and not is_out and evx(g['dU'], 0.0) > float(terms.ev(rec['lam'])) * (1 + 1e-9) + 1e-12:
                probs.append(f'marginal utility at zero above lambda (good {i + 1})')
    if c['mode'] == 'exact' and sum(fr(q) for q in rec['x']) != fr(c['B']):
        probs.append('expected consumptions do not exhaust the budget')
    return probs


# ------------------------------------------------------------------------------------ trace validation
def trace_module() -> str:
    return ('---- MODULE MCMdcevTrace ----\nEXTENDS MdcevTrace\n'
            'G_Types == [gamma |-> << >>]\nG_Empty == {}\n====\n')


def trace_cfg() -> str:
    return ('SPECIFICATION TraceSpec\nCONSTANTS\n Mutation = "none"\n Mode = "trace"\n MinGoods = 2\n MaxGoods = 4\n'
            ' Types <- G_Types\n Variants <- G_Empty\n Budgets <- G_Empty\n Scales <- G_Empty\n Ms <- G_Empty\n ProbeS <- G_Empty\n'
            ' Labelings <- G_Empty\n TolUnits = 3\n RelDen = 20000000\nINVARIANT Progress\n')


def validate(traces: list, timeout: int = 900, parts: int = 4):
    """-> ({tid: verdict}, [TLC results]); the traces are split over `parts` JVMs running concurrently."""
    import threading

    parts = max(1, min(parts, (len(traces) + 199) // 200))
    chunks = [traces[k::parts] for k in range(parts)]
    results = [None] * parts
    work = tlc.scratch_dir('vb-mdcev-trace-')

    def go(k):
        path = os.path.join(work, f'traces{k}.json')
        with open(path, 'w') as f:
            json.dump(chunks[k], f)
        results[k] = tlc.run('MCMdcevTrace', trace_cfg(), extra_modules={'MCMdcevTrace': trace_module()}, workers=1,
                             env={'TRACE_FILE': path}, timeout=timeout, heap='2g')

    try:
        ths = [threading.Thread(target=go, args=(k,)) for k in range(parts)]
        for t in ths:
            t.start()
        for t in ths:
            t.join()
    finally:
        import shutil

        shutil.rmtree(work, ignore_errors=True)
    verdicts = {}
    for res in results:
        for o in res.emitted:
            if isinstance(o, dict) and 'tid' in o:
                verdicts[o['tid']] = o['verdict']
    return verdicts, results


def corrupt_trace(tr: dict, how: str):
    """Negative controls: one recorded field changed; -> (trace, clause MdcevTrace must name) or None."""
    t = json.loads(json.dumps(tr))
    n = t['n']
    pos = [i for i in range(n) if t['x'][i] > 20000]
    if how == 'shift-consumption':       # budget kept, marginal utilities no longer equal (mu re-computed by the caller)
        return None
    if how == 'outside-to-zero':
        if not t['out']:
            return None
        o = t['out'] - 1
        others = [i for i in pos if i != o]
        if not others or t['x'][o] <= 0:
            return None
        t['x'][others[0]] += t['x'][o]
        t['x'][o] = 0
        return t, 'OutsideConsumed'
    if how == 'drop-try':
        if len(t['tries']) < 2 or not t['tries'][0]['acc']:
            return None
        del t['tries'][0]
        return t, None        # any clause but "ok"
    if how == 'budget':
        if not pos:
            return None
        t['x'][pos[0]] += 1000
        return t, 'Budget'
    if how == 'swap-order':
        if len(t['tries']) < 2:
            return None
        a, b = t['tries'][0], t['tries'][1]
        ia, ib = t['labs'].index(a['lab']), t['labs'].index(b['lab'])
        if abs(t['mu0'][ia] - t['mu0'][ib]) < 1000:
            return None
        t['tries'][0], t['tries'][1] = dict(b, acc=a['acc']), dict(a, acc=b['acc'])
        return t, 'Order'
    if how == 'brute-better':
        t['hasB'] = True
        t['objB'] = t['objF'] + 5000
        return t, 'BeatsBrute'
    return None
