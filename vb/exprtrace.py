"""Code -> spec for the expression language: record what biogeme hands to the engine for one
evaluation and render it as a trace for ExprTrace.tla."""

from __future__ import annotations

import json
import os
from fractions import Fraction

from . import boundary, tlc
from .exprenv import Builder, Pool, beta_dict
from .tlc import MachineryError


def fr(x) -> list:
    f = Fraction(x)
    if abs(f.numerator) >= 2**30 or f.denominator >= 2**30:
        raise MachineryError(f'value {x!r} does not fit TLC integers')
    return [f.numerator, f.denominator]


def cps(s: str) -> list:
    return [ord(c) for c in s]


def line_to_trace(l: dict) -> dict:
    out = dict(id=l['id'], op=l['cls'], kids=l['kids'], num=[0, 1], keys=[], nm=[], elem=-1, kind=-1,
               free=False, status=-1, lt=[])
    c = l['cls']
    if c == 'Numeric':
        out['num'] = fr(l['value'])
    elif c == 'Beta':
        out.update(nm=cps(l['name']), elem=l['elem'], kind=l['kind'], free=(l['status'] == 0), status=l['status'])
    elif c == 'Variable':
        out.update(nm=cps(l['name']), elem=l['elem'], kind=l['kind'])
    elif c == 'PowerConstant':
        out['num'] = fr(l['exponent'])
    elif c == 'BelongsTo':
        vs = [float(v) for v in l['set']]
        if all(v == int(v) for v in vs):
            out['keys'] = sorted(int(v) for v in vs)
        elif all(2 * v == int(2 * v) for v in vs):      # halves: the set is keys / 2
            out['keys'] = sorted(int(2 * v) for v in vs)
            out['num'] = [2, 1]
        else:
            raise MachineryError('set element that is neither an integer nor a half')
    elif c in ('Elem', '_bioLogLogit', '_bioLogLogitFullChoiceSet'):
        out['keys'] = l['keys']
    elif c == 'bioLinearUtility':
        out['lt'] = [dict(bid=t['beta_id'], belem=t['beta_elem'], bname=cps(t['beta_name']),
                          vid=t['var_id'], velem=t['var_elem'], vname=cps(t['var_name'])) for t in l['terms']]
    return out


def record_eval(pool: Pool, db, rec: dict, point: int, tid: int, share: bool = True) -> dict:
    """Evaluate the DAG once through get_value_c with the boundary recorder on."""
    boundary.install()
    boundary.reset()
    e = Builder(pool, rec['ops'], share=share).build(rec['root'])
    e.get_value_c(database=db, betas=beta_dict(pool, point), prepare_ids=True)
    log = list(boundary.LOG)
    boundary.reset()
    # an audit may evaluate sub-formulas through the engine first (LogLogit): the evaluation proper is the last object
    last = max(c['obj'] for c in log if c['cls'] == 'pyEvaluateOneExpression' and c['call'] == '__init__')
    log = [c for c in log if c['obj'] == last]
    calls = {c['call']: c for c in log if c['cls'] == 'pyEvaluateOneExpression'}
    for need in ('setData', 'setExpression', 'setFreeBetas', 'setFixedBetas', 'calculate'):
        if need not in calls:
            raise MachineryError(f'boundary call {need} not recorded')
    order = [c['call'] for c in log if c['cls'] == 'pyEvaluateOneExpression']
    data = calls['setData']['args'][0]
    lines = boundary.renumber(boundary.parse_signature(calls['setExpression']['args'][0]))
    return dict(
        tid=tid,
        ops=rec['ops'],
        root=rec['root'],
        p=point + 1,
        lines=[line_to_trace(l) for l in lines],
        freev=[fr(v) for v in calls['setFreeBetas']['args'][0]],
        fixedv=[fr(v) for v in calls['setFixedBetas']['args'][0]],
        rows=[[fr(v) for v in row] for row in data['rows']],
        cols=[cps(c) for c in data['columns']],
        order=order,
    )


def validate(pool: Pool, traces: list, timeout: int = 900) -> tuple[dict, tlc.TlcResult]:
    """-> ({tid: verdict}, TLC result)"""
    work = tlc.scratch_dir('vb-trace-')
    try:
        path = os.path.join(work, 'traces.json')
        with open(path, 'w') as f:
            json.dump(traces, f)
        mod = pool.module('ExprTraceGen').replace('EXTENDS ExprLang', 'EXTENDS ExprTrace')
        cfg = pool.cfg(1, ['Progress']).replace('SPECIFICATION Spec', 'SPECIFICATION TraceSpec')
        res = tlc.run('ExprTraceGen', cfg, extra_modules={'ExprTraceGen': mod}, workers=1,
                      env={'TRACE_FILE': path}, timeout=timeout)
        verdicts = {}
        for o in res.emitted:
            if isinstance(o, dict) and 'tid' in o:
                verdicts[o['tid']] = o['verdict']
        return verdicts, res
    finally:
        import shutil

        shutil.rmtree(work, ignore_errors=True)


def corrupt(trace: dict, how: str) -> dict | None:
    """Negative controls: corruptions of one recorded field that ExprTrace must reject."""
    t = json.loads(json.dumps(trace))
    lines = t['lines']
    if how == 'swap-children':
        for l in lines:
            if l['op'] in ('Minus', 'Divide', 'Less', 'Greater', 'Power') and len(l['kids']) == 2 and l['kids'][0] != l['kids'][1]:
                l['kids'] = l['kids'][::-1]
                return t
        return None
    if how == 'shift-betaid':
        for l in lines:
            if l['op'] == 'Beta' and l['free']:
                l['kind'] += 1
                return t
        return None
    if how == 'drop-line':
        if len(lines) >= 2:
            del lines[0]
            return t
        return None
    if how == 'swap-free-vector':
        if len(t['freev']) >= 2 and t['freev'][0] != t['freev'][1]:
            t['freev'] = t['freev'][::-1]
            return t
        return None
    if how == 'wrong-column':
        for l in lines:
            if l['op'] == 'Variable':
                l['kind'] = (l['kind'] + 1) % len(t['cols'])
                return t
        return None
    return None
