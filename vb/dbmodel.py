"""Binding of specs/Database.tla to the real biogeme.database.Database.

* `Pool`: the constants of one TLC run (initial tables with their label patterns, formula
  families, operation parameters) rendered as a generated root module + cfg.
* `replay(history)`: spec -> code.  One TLC-generated history is applied to a real Database built
  from a pandas DataFrame carrying the given index labels; after every step the observable state
  (labels AND values of Database.data, excludedData, panel column, individual map, return value /
  refusal) is compared with what the spec expects, and logged.
* `validate(traces)`: code -> spec.  The logged results are judged by DatabaseTrace.tla (one
  verdict per history: "ok" or the first failing clause).
"""

from __future__ import annotations

import json
import os
import shutil
from concurrent.futures import ThreadPoolExecutor
from dataclasses import dataclass, field
from fractions import Fraction

from . import tlc
from .tlc import MachineryError, tla_value

SEED = 0  # set by the check: the real code's shuffles are seeded per history from it
NONINT = 2000000001  # stands for "not a small integer" in traces (TLC has 32-bit integers only)


def fm(f, a='', b='', v=0):
    return dict(f=f, a=a, b=b, v=v)


@dataclass
class Pool:
    tables: list  # [dict(rows=[[lab, c1, c2, ..]], cols=[..])]
    conds: list
    forms: list
    new_names: list = field(default_factory=lambda: ['n1', 'n2'])
    scale_args: list = field(default_factory=list)
    panel_cols: list = field(default_factory=list)
    split_args: list = field(default_factory=list)
    sample_ns: list = field(default_factory=list)
    extract_kinds: list = field(default_factory=list)
    count_args: list = field(default_factory=list)
    bound: int = 2000

    def module(self, name: str = 'MCDatabase', base: str = 'Database') -> str:
        def table(t):
            rows = ', '.join(f'[lab |-> {tla_value(r[0])}, c |-> {tla_value(list(r[1:]))}]' for r in t['rows'])
            return f'[rows |-> <<{rows}>>, cols |-> {tla_value(t["cols"])}]'

        def seq(items):
            return '<<' + ', '.join(items) + '>>'

        lines = [
            f'---- MODULE {name} ----',
            f'EXTENDS {base}',
            'G_Tables == ' + seq(table(t) for t in self.tables),
            'G_Conds == ' + seq(tla_value(c) for c in self.conds),
            'G_Forms == ' + seq(tla_value(c) for c in self.forms),
            'G_NewNames == ' + tla_value(self.new_names),
            'G_ScaleArgs == ' + seq(tla_value(list(x)) for x in self.scale_args),
            'G_PanelCols == ' + tla_value(self.panel_cols),
            'G_SplitArgs == ' + seq(tla_value(list(x)) for x in self.split_args),
            'G_SampleNs == ' + tla_value(self.sample_ns),
            'G_ExtractKinds == ' + tla_value(self.extract_kinds),
            'G_CountArgs == ' + seq(tla_value(list(x)) for x in self.count_args),
            '====',
        ]
        return '\n'.join(lines) + '\n'

    def cfg(self, mode: str, max_ops: int, invariants: list, *, obs_thin: int = 1, salt: int = 0,
            remove_impl: str = 'RemoveByPosition', spec: str = 'Spec') -> str:
        inv = '\n'.join(f'INVARIANT {i}' for i in invariants)
        return f'''SPECIFICATION {spec}
CONSTANTS
 Tables <- G_Tables
 Conds <- G_Conds
 Forms <- G_Forms
 NewNames <- G_NewNames
 ScaleArgs <- G_ScaleArgs
 PanelCols <- G_PanelCols
 SplitArgs <- G_SplitArgs
 SampleNs <- G_SampleNs
 ExtractKinds <- G_ExtractKinds
 CountArgs <- G_CountArgs
 MaxOps = {max_ops}
 Bound = {self.bound}
 Mode = "{mode}"
 ObsThin = {obs_thin}
 Salt = {salt}
 RemoveImpl <- {remove_impl}
{inv}
'''


# ---------------------------------------------------------------------------------------------
# constants


def label_patterns(n: int) -> dict:
    """Index labels for a table of n rows: 0..n-1, with gaps, permuted, with repetitions."""
    pats = {
        'range': list(range(n)),
        'gaps': [3 + 2 * i + (i * i) % 3 for i in range(n)],
        'permuted': [(2 * i + 1) % n if n % 2 else (i * 3 + 1) % n for i in range(n)] if n > 1 else [0],
        'duplicate': [[0, 1, 1, 2, 0, 2, 1][i % 7] for i in range(n)],
    }
    if sorted(pats['permuted']) != list(range(n)):
        pats['permuted'] = list(reversed(range(n)))
    return pats


BASE_TABLES = [
    # (id, g, x): g contiguous (panel-able) with ids not ascending, x mixed
    dict(cols=['id', 'g', 'x'], cells=[[1, 2, 0], [2, 2, 3], [3, 1, 2], [4, 1, 2], [5, 3, 1]]),
    # g not contiguous (panel refused), x has repeated values and a zero
    dict(cols=['id', 'g', 'x'], cells=[[1, 1, 2], [2, 2, 0], [3, 1, 4], [4, 2, 2], [5, 3, 2]]),
    # four rows, two individuals, x constant within the individuals (common column when flattened)
    dict(cols=['id', 'g', 'x'], cells=[[1, 1, 4], [2, 1, 4], [3, 2, 2], [4, 2, 2]]),
    # three rows, every individual alone; negative and odd values
    dict(cols=['id', 'g', 'x'], cells=[[1, 3, -1], [2, 1, 3], [3, 2, 2]]),
    # one row
    dict(cols=['id', 'g', 'x'], cells=[[1, 1, 2]]),
]


def small_tables(which=None, patterns=('range', 'gaps', 'permuted', 'duplicate')) -> list:
    out = []
    for b, base in enumerate(BASE_TABLES):
        if which is not None and b not in which:
            continue
        n = len(base['cells'])
        pats = label_patterns(n)
        seen = set()
        for p in patterns:
            labs = pats[p]
            if tuple(labs) in seen:
                continue
            seen.add(tuple(labs))
            out.append(dict(cols=base['cols'], rows=[[labs[i]] + base['cells'][i] for i in range(n)], pattern=p, base=b))
    return out


CONDS = [
    fm('eq', 'g', v=2),
    fm('gt', 'x', v=1),
    fm('col', 'x'),  # non-zero x
    fm('lin', 'g', 'x', -1),  # g - x != 0
    fm('eqc', 'g', 'x'),
    fm('const', v=0),
    fm('const', v=1),  # everything goes
    fm('gt', 'n1', v=4),  # on a column defined earlier
]
FORMS = [
    fm('lin', 'g', 'x', 2),
    fm('prod', 'g', 'x'),
    fm('ne', 'x', v=2),
    fm('lin', 'n1', 'id', 1),  # on a column defined earlier
]
SCALES = [('x', 2, 1), ('x', 1, 2), ('g', -1, 1), ('g', 0, 1), ('n1', 3, 1)]
SPLITS = [(2, ''), (3, ''), (2, 'g'), (3, 'g'), (1, ''), (7, ''), (2, 'x')]
EXTRACTS = ['first', 'ends', 'rev', 'dup', 'oob', 'neg', 'mid']
COUNTS = [('g', 1), ('x', 2)]


def gen_pool(tables, level: str = 'full') -> Pool:
    if level == 'full':
        return Pool(tables=tables, conds=CONDS, forms=FORMS, scale_args=SCALES, panel_cols=['g', 'x'],
                    split_args=SPLITS, sample_ns=[0, 2], extract_kinds=EXTRACTS, count_args=COUNTS)
    # a smaller alphabet for the deepest exhaustive level
    return Pool(tables=tables, conds=[CONDS[0], CONDS[1], CONDS[3], CONDS[7]], forms=[FORMS[0], FORMS[3]],
                scale_args=[SCALES[1], SCALES[2], SCALES[4]], panel_cols=['g'],
                split_args=SPLITS, sample_ns=[0, 2], extract_kinds=EXTRACTS, count_args=COUNTS)


def model_pool(tables) -> Pool:
    """Model mode: every outcome of the random operations is a successor, so the alphabets are small."""
    return Pool(tables=tables, conds=[CONDS[0], CONDS[1], CONDS[3], CONDS[6]], forms=[FORMS[0], FORMS[2]],
                scale_args=[SCALES[0], SCALES[2], SCALES[3]], panel_cols=['g', 'x'],
                split_args=[(2, ''), (3, ''), (2, 'g'), (3, 'g'), (1, '')], sample_ns=[2], extract_kinds=EXTRACTS,
                count_args=COUNTS)


def random_tables(rng, count: int, max_rows: int = 20) -> list:
    """Larger tables for the simulated (random walk) histories: up to max_rows rows."""
    out = []
    for t in range(count):
        n = int(rng.integers(6, max_rows + 1))
        kind = ['range', 'gaps', 'permuted', 'duplicate'][t % 4]
        if kind == 'range':
            labs = list(range(n))
        elif kind == 'gaps':
            labs = sorted(int(v) for v in rng.choice(3 * n, size=n, replace=False))
        elif kind == 'permuted':
            labs = [int(v) for v in rng.permutation(n)]
        else:
            labs = [int(v) for v in rng.integers(0, max(2, n // 2), size=n)]
        # individuals: contiguous blocks in 3 tables out of 4, ids in arbitrary order
        nind = int(rng.integers(2, 7))
        ids = [int(v) for v in rng.permutation(nind) + 1]
        if t % 4 != 3:
            cuts = sorted(int(v) for v in rng.choice(range(1, n), size=min(nind - 1, n - 1), replace=False))
            g, k = [], 0
            for i in range(n):
                if k < len(cuts) and i >= cuts[k]:
                    k += 1
                g.append(ids[k])
        else:
            g = [ids[int(v)] for v in rng.integers(0, nind, size=n)]
        x = [int(v) for v in rng.integers(-2, 6, size=n)]
        out.append(dict(cols=['id', 'g', 'x'], rows=[[labs[i], i + 1, g[i], x[i]] for i in range(n)], pattern=kind, base=100 + t))
    return out


# ---------------------------------------------------------------------------------------------
# the real thing


def _num(v):
    """A cell of the real table as an integer (or NONINT)."""
    try:
        i = int(v)
    except (TypeError, ValueError, OverflowError):
        return NONINT
    if i != v or abs(i) >= 10**9:
        return NONINT
    return i


def _rows(df) -> list:
    return [[_num(lab)] + [_num(v) for v in row] for lab, row in zip(df.index.tolist(), df.values.tolist())]


def _state(db) -> dict:
    mp = []
    if db.individualMap is not None:
        im = db.individualMap
        mp = [[_num(i)] + [_num(v) for v in row] for i, row in zip(im.index.tolist(), im.values.tolist())]
    return dict(rows=_rows(db.data), cols=[str(c) for c in db.data.columns], excl=_num(db.excludedData),
                pcol=db.panelColumn or '', map=mp)


def build_expression(f: dict):
    from biogeme.expressions import Numeric, Variable

    k = f['f']
    if k == 'const':
        # remove() documents a plain number too: hand over the number itself for 0
        return Numeric(f['v']) if f['v'] != 0 else 0
    a = Variable(f['a'])
    if k == 'col':
        return a
    if k == 'eq':
        return a == f['v']
    if k == 'ne':
        return a != f['v']
    if k == 'gt':
        return a > f['v']
    b = Variable(f['b'])
    if k == 'lin':
        return a + f['v'] * b
    if k == 'prod':
        return a * b
    if k == 'eqc':
        return a == b
    if k == 'and':
        return (a > f['v']) & (b > f['v'])
    raise MachineryError(f'unknown formula {f}')


def _flat_to_struct(flat, cols: list) -> list:
    """The flat data frame as [[id, common pairs, [pairs per observation]]] (column order ignored)."""
    import math

    out = []
    for ident, row in zip(flat.index.tolist(), flat.to_dict('records')):
        common, obs = {}, {}
        for name, val in row.items():
            name = str(name)
            if name in cols:
                common[name] = _num(val)
                continue
            head, _, tail = name.partition('_')
            if not head.isdigit() or tail not in cols:
                raise MachineryError(f'unexpected column {name!r} in the flat table')
            if isinstance(val, float) and math.isnan(val):
                continue
            obs.setdefault(int(head), {})[tail] = _num(val)
        nobs = max(obs) if obs else 0
        out.append(dict(id=_num(ident), common=[[c, common[c]] for c in cols if c in common],
                        obs=[[[c, obs.get(o, {}).get(c, NONINT)] for c in cols if c in obs.get(o, {})] for o in range(1, nobs + 1)]))
    # a mapping individual -> line: the order of the lines is not part of the comparison
    return sorted(out, key=lambda l: l['id'])


def _norm_flat(spec_flat) -> list:
    return [dict(id=l['id'], common=[list(p) for p in l['common']], obs=[[list(p) for p in o] for o in l['obs']]) for l in spec_flat]


# tables handed back by earlier operations, with what they held when they were returned: a returned table is a VALUE
# (later operations on the data set do not change it, operations on it do not change the data set)
KEPT: list = []


def apply_step(db, step: dict, variant: int):
    """Run one operation on the real Database -> (error class name or '', return value in trace form)."""
    op, a = step['op'], step['a']
    try:
        if op == 'remove':
            db.remove(build_expression(a['fm']))
            return '', 0
        if op == 'add':
            e = build_expression(a['fm'])
            if not hasattr(e, 'get_value_c'):
                from biogeme.expressions import Numeric

                e = Numeric(e)
            if variant % 3 == 0:
                col = db.add_column(e, a['name'])
                return '', [[_num(l), _num(v)] for l, v in zip(col.index.tolist(), col.tolist())]
            var = db.define_variable(a['name'], e) if variant % 3 == 1 else db.DefineVariable(a['name'], e)
            if getattr(var, 'name', None) != a['name']:
                return '', [['wrong variable', repr(var)]]
            col = db.data[a['name']]
            return '', [[_num(l), _num(v)] for l, v in zip(col.index.tolist(), col.tolist())]
        if op == 'scale':
            k = a['num'] if a['den'] == 1 else a['num'] / a['den']
            if variant % 2:
                k = float(k)
            db.scale_column(a['col'], k)
            return '', 0
        if op == 'panel':
            db.panel(a['col'])
            return '', 0
        if op == 'buildmap':
            db.build_panel_map()
            return '', 0
        if op == 'split':
            folds = db.split(a['k'], groups=a['g'] or None) if a['g'] or variant % 2 else db.split(a['k'])
            return '', [dict(est=_rows(f.estimation), val=_rows(f.validation)) for f in folds]
        if op == 'sample':
            s = db.sample_with_replacement(a['nn'] or None) if a['nn'] or variant % 2 else db.sample_with_replacement()
            return '', _rows(s)
        if op == 'sampleind':
            s = db.sample_individual_map_with_replacement(a['nn'] or None)
            return '', [[_num(i)] + [_num(v) for v in row] for i, row in zip(s.index.tolist(), s.values.tolist())]
        if op == 'extract':
            pos = [p - 1 for p in a['ps']]
            # positions as a list, or as a range when they are consecutive (both are documented)
            consecutive = len(pos) >= 1 and pos == list(range(pos[0], pos[0] + len(pos)))
            sub = db.extract_rows(range(pos[0], pos[0] + len(pos)) if consecutive and variant % 2 == 0 else pos)
            got = _rows(sub.data)
            KEPT.append((f'extract at step', sub, got))
            return '', got
        if op == 'flatten':
            flat = db.generate_flat_panel_dataframe() if a['kind'] == 'auto' else db.generate_flat_panel_dataframe(identical_columns=[])
            return '', _flat_to_struct(flat, [str(c) for c in db.data.columns])
        if op == 'count':
            return '', _num(db.count(a['col'], a['v']))
        if op == 'sizes':
            return '', dict(nobs=_num(db.get_number_of_observations()), ssize=_num(db.get_sample_size()))
    except Exception as e:  # noqa: the refusal is part of the observable behaviour
        from biogeme.exceptions import BiogemeError

        for cls in (BiogemeError, ValueError, IndexError, KeyError, TypeError):
            if isinstance(e, cls):
                return cls.__name__, str(e)[:200]
        return type(e).__name__, str(e)[:200]
    raise MachineryError(f'unknown operation {op}')


def _first_diff_clause(op: str, want: dict, got: dict, panel_rows_note: bool = False) -> str | None:
    if want['rows'] != got['rows']:
        w, g = want['rows'], got['rows']
        if len(w) != len(g):
            return f'{op}:rows'
        if [r[1:] for r in w] == [r[1:] for r in g]:
            return f'{op}:labels'
        if [r[0] for r in w] == [r[0] for r in g] and sorted(tuple(r[1:]) for r in w) == sorted(tuple(r[1:]) for r in g):
            return f'{op}:row-order'
        return f'{op}:rows'
    if want['cols'] != got['cols']:
        return f'{op}:columns'
    if want['excl'] != got['excl']:
        return f'{op}:count'
    if want['pcol'] != got['pcol']:
        return f'{op}:panel-column'
    if want['map'] != got['map']:
        return f'{op}:map'
    return None


def replay(hist: dict) -> dict:
    """spec -> code: apply a generated history to a real Database, compare after every step with
    the spec's expectations; log what the real code did (the trace for DatabaseTrace)."""
    import numpy as np
    import pandas as pd
    from biogeme.database import Database

    np.random.seed((SEED * 31 + hist['tid'] * 7919 + len(hist['steps']) * 104729 + len(json.dumps(hist['steps'][-1:]))) % (2**32))
    init = hist['init']
    cols = init['cols']
    df = pd.DataFrame([r[1:] for r in init['rows']], columns=cols, index=[r[0] for r in init['rows']])
    db = Database(f"t{hist['tid']}", df)
    events, mismatch, notes = [], None, []
    KEPT.clear()
    state = _state(db)
    if state != dict(init, excl=0, pcol='', map=[]):
        mismatch = dict(step=0, op='init', clause='init:state', want=init, got=state)
    nsteps = 0
    for k, step in enumerate(hist['steps']):
        if mismatch:
            break
        e = step['e']
        before = state
        variant = (hist['tid'] + k + len(hist['steps'])) % 6
        err, ret = apply_step(db, step, variant)
        state = _state(db)
        nsteps += 1
        dup = len({r[0] for r in before['rows']}) < len(before['rows'])
        feats = (['duplicate-labels'] if dup else []) + (['panel'] if before['pcol'] else [])
        ev = dict(op=step['op'], a=step['a'], err=err, ret=ret if not err else 0, post=state)
        events.append(ev)
        clause = None
        want_state = before if e['same'] else e['post']
        if step['op'] == 'panel' and e['err'] and err == e['err']:
            # the refusal: the data must be untouched; whether the object still says "panel" is noted only
            if state['pcol'] != before['pcol']:
                notes.append('panel-flag-after-refusal')
            want_state = dict(want_state, pcol=state['pcol'])
        if err != e['err']:
            clause = f"{step['op']}:refusal"
        else:
            clause = _first_diff_clause(step['op'], want_state, state)
            if clause is None and not err and e['det']:
                want = e['ret']
                if step['op'] == 'flatten':
                    want = _norm_flat(want)
                if step['op'] in ('add', 'extract'):
                    want = [list(r) for r in want]
                if step['op'] in ('remove', 'scale', 'panel', 'buildmap'):
                    want = ret = 0
                if want != ret:
                    clause = f"{step['op']}:return"
                    if step['op'] == 'flatten':
                        ids = [l['id'] for l in ret] != [l['id'] for l in want]
                        com = [l['common'] for l in ret] != [l['common'] for l in want]
                        clause = 'flatten:' + ('individuals' if ids else 'common-columns' if com else 'observations')
                    elif step['op'] == 'extract':
                        clause = 'extract:rows'
                    elif step['op'] in ('count', 'sizes'):
                        clause = f"{step['op']}:value"
        if clause is None:
            # tables returned earlier are values: re-read them; then change the most recent one and re-read the data set
            for what, obj, held in KEPT:
                if _rows(obj.data) != held:
                    clause = 'returned-table:changed-by-a-later-operation'
                    break
            if clause is None and KEPT and step['op'] == 'extract' and len(KEPT[-1][1].data.columns) and len(KEPT[-1][1].data.index):
                sub = KEPT[-1][1]
                col = str(sub.data.columns[-1])
                sub.scale_column(col, 3.0)
                KEPT[-1] = (KEPT[-1][0], sub, _rows(sub.data))
                if _state(db) != state:
                    clause = 'returned-table:changing-it-changes-the-data-set'
        if clause:
            mismatch = dict(step=k + 1, op=step['op'], args=step['a'], clause=clause, features=feats, before=before,
                            want=dict(err=e['err'], state=want_state, ret=e['ret'] if e['det'] else 'any allowed outcome'),
                            got=dict(err=err, state=state, ret=ret))
    return dict(tid=hist['tid'], init=init, events=events, mismatch=mismatch, nsteps=nsteps, notes=notes,
                ops=[s['op'] for s in hist['steps'][:nsteps]])


# ---------------------------------------------------------------------------------------------
# code -> spec


TRACE_CFG = '''SPECIFICATION TraceSpec
CONSTANTS
 Tables <- T_None
 Conds <- T_None
 Forms <- T_None
 NewNames <- T_None
 ScaleArgs <- T_None
 PanelCols <- T_None
 SplitArgs <- T_None
 SampleNs <- T_None
 ExtractKinds <- T_None
 CountArgs <- T_None
 MaxOps = 0
 Bound = 1
 Mode = "trace"
 ObsThin = 1
 Salt = 0
 RemoveImpl <- RemoveByPosition
INVARIANT Progress
'''


def validate(traces: list, *, shards: int = 8, timeout: int = 1200):
    """-> ({tid: verdict}, [TLC results]).  Every trace = dict(tid, init, events)."""
    if not traces:
        return {}, []
    work = tlc.scratch_dir('vb-dbtrace-')
    try:
        shards = max(1, min(shards, len(traces) // 50 or 1))
        parts = [traces[k::shards] for k in range(shards)]

        def run(k):
            path = os.path.join(work, f'traces{k}.json')
            with open(path, 'w') as f:
                json.dump([dict(tid=t['tid'], init=t['init'], events=t.get('vevents', t['events'])) for t in parts[k]], f)
            cfg = TRACE_CFG
            return tlc.run('DatabaseTrace', cfg, workers=1, env={'TRACE_FILE': path}, timeout=timeout, heap='3g')

        with ThreadPoolExecutor(max_workers=shards) as ex:
            results = list(ex.map(run, range(shards)))
        verdicts = {}
        for res in results:
            for o in res.emitted:
                if isinstance(o, dict) and 'tid' in o and 'verdict' in o:
                    verdicts[o['tid']] = o
        return verdicts, results
    finally:
        shutil.rmtree(work, ignore_errors=True)
