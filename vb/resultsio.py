"""C14, estimation results: replay of the behaviours emitted by specs/ResultsIO.tla.

Per raw outcome: build a real bioResults (vb.resultsreplay.build), write the reports and the pickle in
a scratch directory that already holds the pickles of an earlier estimation, load the pickle again
and compare
  * every statistic and table of the LOADED object with the figures the specification derives from
    the saved raw outcome (resultsreplay.compare_stats / compare_tables),
  * the loaded object with the one that was saved: tables, general statistics, summaries, and the
    text of the HTML / LaTeX / F12 reports modulo time stamps,
  * every report, parsed back, with the rows the specification says it lists (ReportsOf).
"""

from __future__ import annotations

import copy
import hashlib
import os
import pickle
import re
import shutil
import tempfile

from . import resultsreplay as rr

TS = re.compile(r'\d{4}-\d\d-\d\d \d\d:\d\d:\d\d(\.\d+)?')


def _norm(text: str) -> str:
    return TS.sub('<time>', text)


def _frame_equal(a, b) -> bool:
    if list(a.columns) != list(b.columns) or list(a.index) != list(b.index):
        return False
    for col in a.columns:
        for r in a.index:
            x, y = a.at[r, col], b.at[r, col]
            if rr.is_blank(x) and rr.is_blank(y):
                continue
            if x != y:
                return False
    return True


# ------------------------------------------------------------------ parsing the reports back
def parse_html(html: str):
    m = re.search(r'<h1>Estimated parameters</h1>\s*<table[^>]*>(.*?)</table>', html, re.S)
    if not m:
        return None
    body = m.group(1)
    trs = re.findall(r'<tr[^>]*>(.*?)</tr>', body, re.S)
    cols = re.findall(r'<th>(.*?)</th>', trs[0])[1:]
    rows = []
    for tr in trs[1:]:
        tds = re.findall(r'<td>(.*?)</td>', tr, re.S)
        rows.append((tds[0], tds[1:]))
    return cols, rows


def parse_latex(tex: str):
    m = re.search(r'\\section\{Parameter estimates\}\s*\\begin\{tabular\}\{[^}]*\}(.*?)\\end\{tabular\}', tex, re.S)
    if not m:
        return None
    lines = [ln.strip() for ln in m.group(1).strip().splitlines() if ln.strip()]
    lines = [ln[:-2].strip() if ln.endswith('\\\\') else ln for ln in lines]
    lines = [ln for ln in lines if ln not in ('\\toprule', '\\midrule', '\\bottomrule', '\\hline')]
    header = [c.strip() for c in lines[0].split('&')]
    rows = []
    for ln in lines[1:]:
        cells = [c.strip() for c in ln.split('&')]
        rows.append((cells[0], cells[1:]))
    return header[1:], rows


def parse_f12(text: str):
    rows = []
    lines = text.splitlines()
    for ln in lines[3:]:
        if ln.startswith('  -1'):
            break
        if not ln.startswith('   0 '):
            return None
        rows.append((ln[5:15].strip(), ln[15:17].strip(), [ln[18:38].strip(), ln[38:58].strip()]))
    return rows


def parse_str(text: str):
    rows = []
    for ln in text.splitlines():
        m = re.match(r'^(\S+)\s*: (\S+?)((?:\[[^\]]*\])*)$', ln)
        if m and not ln.startswith('('):
            figs = [m.group(2)]
            for grp in re.findall(r'\[([^\]]*)\]', m.group(3)):
                figs += grp.split()
            rows.append((m.group(1), figs))
    return rows


def _check_fig(c: rr.Cmp, key, token, exp, F, kind, i, exact=False, **ctx):
    st, want = exp.resolve(F, kind, i)
    if st != 'ok':
        c.skipped['undef' if st != 'sentinel' else 'sentinel'] += 1
        return
    c.n += 1
    w = float(want)
    if exact:
        try:
            ok = abs(float(token) - w) <= 1e-11 * max(1.0, abs(w))
        except ValueError:
            ok = False
    else:
        ok = rr._fmt_ok(token, want)
        if not ok:  # the LaTeX report prints 2 as 2.0
            ok = token.endswith('.0') and rr._fmt_ok(token[:-2], want)
    if not ok:
        c.bad(key, got=token, want=w, **ctx)


def _text(c, key, fn):
    """the text of a report, or None (+ a recorded failure) when producing it raises"""
    c.n += 1
    try:
        return fn()
    except Exception as e:  # noqa
        c.bad(f'{key}:raises {type(e).__name__}', message=str(e)[:200])
        return None


def compare_reports(c: rr.Cmp, res, which: str):
    """the four reports of `res` against ReportsOf(raw) of the specification"""
    exp, R = c.exp, c.exp.rec['reports']
    cells = {(r, col): (F, kind, i) for r, col, F, kind, i, _ in exp.rec['tables']['est_robust']['cells']}
    for kind_, fn, parser in (('html', res.get_html, parse_html), ('latex', res.get_latex, parse_latex)):
        key = f'{which} {kind_} report'
        text = _text(c, key, fn)
        if text is None:
            continue
        parsed = parser(text)
        c.n += 1
        if parsed is None:
            c.bad(f'{key}:table of estimates not found')
            continue
        cols, rows = parsed
        c.same(f'{key}:columns', sorted(cols), sorted(R[kind_]['cols']))
        c.same(f'{key}:parameters listed', sorted(lab for lab, _ in rows), sorted(r['label'] for r in R[kind_]['rows']))
        for lab, toks in rows:
            for col, tokv in zip(cols, toks):
                if (lab, col) in cells:
                    F, kd, i = cells[(lab, col)]
                    _check_fig(c, f'{key}:{col}', tokv, exp, F, kd, i, parameter=lab)
    # F12
    key = f'{which} F12 report'
    text = _text(c, key, res.get_f12)
    rows = parse_f12(text) if text is not None else None
    c.n += 1
    if text is None:
        pass
    elif rows is None:
        c.bad(f'{key}:coefficient lines not found')
    else:
        lm = R['f12']['labelmax']
        c.same(f'{key}:parameters listed', [lab for lab, _, _ in rows], [r['label'][:lm] for r in R['f12']['rows']])
        for (lab, flag, toks), r in zip(rows, R['f12']['rows']):
            c.same(f'{key}:constrained flag', flag, 'T' if r['active'] else 'F', parameter=lab)
            for tokv, (F, kd, i) in zip(toks, r['figs']):
                _check_fig(c, f'{key}:{kd}', tokv, exp, F, kd, i, exact=True, parameter=lab)
    # printed form
    key = f'{which} printed form'
    text = _text(c, key, lambda: str(res))
    if text is None:
        return
    rows = parse_str(text)
    c.same(f'{key}:parameters listed', [lab for lab, _ in rows], [r['label'] for r in R['str']['rows']])
    for (lab, toks), r in zip(rows, R['str']['rows']):
        c.same(f'{key}:number of figures', len(toks), len(r['figs']), parameter=lab)
        for tokv, (F, kd, i) in zip(toks, r['figs']):
            _check_fig(c, f'{key}:{F}.{kd}', tokv, exp, F, kd, i, parameter=lab)


def _sha(path):
    with open(path, 'rb') as f:
        return hashlib.sha256(f.read()).hexdigest()


def replay(item: dict) -> dict:
    """item: dict(rec=emitted record, tamper=None|'pickle'|'expected')"""
    from biogeme.results import bioResults

    rec, tamper = item['rec'], item.get('tamper')
    if tamper == 'expected':
        rec = copy.deepcopy(rec)
        n0, d0 = rec['raw']['theta'][0]
        rec_theta = [n0 + d0, d0]  # the specification's estimate + 1: the real reports must be found wrong
        rec['raw']['theta'][0] = rec_theta
    exp = rr.Expected(rec)
    c = rr.Cmp(exp)
    raw_build = item['rec']['raw']
    res = rr.build(raw_build)
    old = os.getcwd()
    work = tempfile.mkdtemp(prefix='c14-res-', dir=old)
    os.chdir(work)
    try:
        stale_raw = dict(rec['io']['staleraw'], id=raw_build['id'])
        stale = rr.build(stale_raw)
        shas = {}
        for name in rec['io']['stale']:
            with open(name, 'wb') as f:
                pickle.dump(stale.data, f)
            shas[name] = _sha(name)
        for wname, w in (('write_html', res.write_html), ('write_latex', res.write_latex), ('write_f12', res.write_f12)):
            _text(c, wname, w)
        name = res.write_pickle()
        c.same('write_pickle:returned name', name, rec['io']['wrote'])
        c.same('write_pickle:files', sorted(x for x in os.listdir('.') if x.endswith('.pickle')), sorted(rec['io']['files']))
        for n_, h in shas.items():
            c.same('write_pickle:earlier results untouched', _sha(n_) if os.path.exists(n_) else None, h, file=n_)
        if tamper == 'pickle':
            with open(name, 'rb') as f:
                data = pickle.load(f)
            data.betas[0].value += 1.0
            data.logLike -= 1.0
            with open(name, 'wb') as f:
                pickle.dump(data, f)
        loaded = bioResults(pickle_file=name, identification_threshold=rr.threshold_for(raw_build))
        # (1) the loaded object against the specification
        rr.compare_stats(c, loaded)
        rr.compare_tables(c, loaded)
        # (2) the loaded object against the saved one
        for only_robust in (True, False):
            c.n += 1
            if not _frame_equal(res.get_estimated_parameters(only_robust), loaded.get_estimated_parameters(only_robust)):
                c.bad(f'round trip:get_estimated_parameters(only_robust={only_robust})')
        c.n += 1
        if not _frame_equal(res.get_correlation_results(), loaded.get_correlation_results()):
            c.bad('round trip:get_correlation_results')
        g1, g2 = res.get_general_statistics(), loaded.get_general_statistics()
        c.same('round trip:get_general_statistics:labels', list(g1), list(g2))
        for k in g1:
            if k in g2:
                a, b = g1[k], g2[k]
                c.n += 1
                if not ((rr.is_blank(a[0]) and rr.is_blank(b[0])) or a[0] == b[0]) or a[1] != b[1]:
                    c.bad(f'round trip:get_general_statistics:{k}', got=repr(b), want=repr(a))
        texts = (('short_summary', lambda r: r.short_summary()), ('printed form', str),
                 ('print_general_statistics', lambda r: r.print_general_statistics()),
                 ('html', lambda r: r.get_html()), ('html (all statistics)', lambda r: r.get_html(only_robust=False)),
                 ('latex', lambda r: r.get_latex()), ('F12', lambda r: r.get_f12()))
        produced = {}
        for label, fn in texts:
            a = _text(c, f'saved object: {label}', lambda: fn(res))
            b = _text(c, f'loaded object: {label}', lambda: fn(loaded))
            if a is not None and b is not None:
                c.same(f'round trip:{label}', _norm(b), _norm(a))
                produced[label] = a
        c.same('round trip:beta values', loaded.get_beta_values(), res.get_beta_values())
        for attr, label in (('htmlFileName', 'html'), ('latexFileName', 'latex'), ('F12FileName', 'F12')):
            fn_ = getattr(res.data, attr)
            if fn_ is not None and label in produced and os.path.exists(fn_):
                with open(fn_, encoding='utf-8') as f:
                    c.same(f'report file on disk:{attr}', _norm(f.read()), _norm(produced[label]))
        # (3) what the reports list
        compare_reports(c, res, 'saved object:')
        compare_reports(c, loaded, 'loaded object:')
        sample = dict(model=raw_build['id'], estimates={n_: float(rr.Fraction(*t)) for n_, t in zip(raw_build['names'], raw_build['theta'])},
                      earlier_pickles=rec['io']['stale'], written=name,
                      html_rows=parse_html(produced['html'])[1] if 'html' in produced else None,
                      f12_rows=parse_f12(produced['F12']) if 'F12' in produced else None)
        return dict(n=c.n, skipped=c.skipped, mismatches=c.mismatches, sample=sample)
    finally:
        os.chdir(old)
        shutil.rmtree(work, ignore_errors=True)


# ------------------------------------------------------------------ results of REAL estimations
def real_reports(kind: str) -> dict:
    """kind = 'estimate' | 'quick_estimate': run the real estimation of a one-parameter logit and check the
    statement ReportsComplete of the specification on its four reports: one row per estimated parameter,
    labelled by its name, first figure = the estimate (to the printed precision)."""
    from . import filesio as fio

    old = os.getcwd()
    work = tempfile.mkdtemp(prefix='c14-real-', dir=old)
    shutil.copy(os.path.join(old, 'biogeme.toml'), work)
    os.chdir(work)
    mism, n = [], 0
    try:
        m = fio.real_model(f'real_{kind}')
        res = m.estimate() if kind == 'estimate' else m.quick_estimate()
        want = dict(zip(res.data.betaNames, res.data.betaValues))
        for label, fn, parser in (('html', res.get_html, parse_html), ('latex', res.get_latex, parse_latex),
                                  ('F12', res.get_f12, parse_f12), ('printed form', lambda: str(res), parse_str)):
            n += 1
            try:
                text = fn()
            except Exception as e:  # noqa
                mism.append(dict(key=f'{kind}: {label}:raises {type(e).__name__}', message=str(e)[:200]))
                continue
            parsed = parser(text)
            if parsed is None:
                mism.append(dict(key=f'{kind}: {label}:table of estimates not found'))
                continue
            rows = parsed[1] if label in ('html', 'latex') else parsed
            got = {r[0]: r[-1][0] for r in rows}
            n += 1
            if sorted(got) != sorted(k[:10] if label == 'F12' else k for k in want):
                mism.append(dict(key=f'{kind}: {label}:parameters listed', got=sorted(got), want=sorted(want)))
                continue
            for name, v in want.items():
                t = got[name[:10] if label == 'F12' else name]
                n += 1
                try:
                    ok = abs(float(t) - v) <= (1e-11 if label == 'F12' else 6e-3) * max(abs(v), 1e-300)
                except ValueError:
                    ok = False
                if not ok:
                    mism.append(dict(key=f'{kind}: {label}:value', parameter=name, got=t, want=v))
        return dict(n=n, mismatches=mism, estimates=want)
    finally:
        os.chdir(old)
        shutil.rmtree(work, ignore_errors=True)
