"""MANIFEST.setup_cmd: check that the tools the checks need are present and that every
specification parses.  Nothing is built: biogeme is imported from /repo/src as it stands."""

from __future__ import annotations

import glob
import os
import shutil
import subprocess
import sys

from . import tlc


def main() -> int:
    ok = True
    for tool in ('java', 'strace'):
        if shutil.which(tool) is None:
            print(f'setup: missing tool {tool}')
            ok = False
    if not os.path.exists(tlc.JAR):
        print('setup: tla2tools.jar missing')
        ok = False
    specs = sorted(glob.glob(os.path.join(tlc.SPECS, '*.tla')))
    bad = []
    for path in specs:
        if path.endswith('Proof.tla') and not os.path.isdir(tlc.TLAPS_STDLIB):
            continue      # proof modules need the proof system's standard module; they are checked by tlapm in their check
        good, out = tlc.sany(path)
        if not good:
            bad.append((path, out[-1500:]))
    for path, out in bad:
        print(f'setup: SANY failed on {path}\n{out}')
    ok = ok and not bad
    r = subprocess.run(['/venv/bin/python', '-c', 'import sys; sys.path.insert(0, "/repo/src"); import biogeme, cythonbiogeme, hypothesis; print(biogeme.__file__)'],
                       capture_output=True, text=True, cwd='/')
    if r.returncode != 0 or '/repo/src' not in r.stdout:
        print('setup: biogeme not importable from /repo/src', r.stdout, r.stderr[-500:])
        ok = False
    os.makedirs(os.path.join(os.path.dirname(tlc.SPECS), 'evidence', 'replay'), exist_ok=True)
    print(f'setup: {len(specs)} specification modules parsed, ok={ok}')
    return 0 if ok else 1


if __name__ == '__main__':
    sys.exit(main())
