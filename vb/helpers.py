"""C17: model instances of specs/Helpers.tla (constants as a generated module) and the replay of
its emitted cases into the real helper functions of biogeme.

Every replay function takes one work item (a group of emitted cases that share the helper
expression), builds the REAL objects, evaluates them through get_value_c on a database whose rows
are the arguments of the group, and returns dict(n=evaluations, mism=[...]) where each mismatch is
dict(key=..., facts={...}, detail={...}).  Expected values come from the specification only."""

from __future__ import annotations

import math
from fractions import Fraction as F

from . import terms
from .exprenv import tla_q
from .rt import close

TOL_EXACT = 1e-12
TOL_TERM = 1e-9
TOL_REG = 1e-8
TOL_QUAD = 1e-8

FAMILIES = {
    'piecewise': dict(spec='PwSpec', emit='PwEmit',
                      invariants=['PwWellFormed', 'PwSumIsClip', 'PwFormulaIsFunction', 'PwAsVariableIsFormula', 'PwVarsBounded']),
    'boxcox': dict(spec='BcSpec', emit='BcEmit', invariants=['BcCorners', 'BcPairsAdjacent']),
    'density': dict(spec='DsSpec', emit='DsEmit',
                    invariants=['DsNonNegative', 'DsExactMass', 'DsTriangularPeak', 'DsUniformFlat']),
    'regression': dict(spec='RgSpec', emit='RgEmit', invariants=['RgShiftInvariant']),
    'segmentation': dict(spec='SgSpec', emit='SgEmit',
                         invariants=['SgWellFormed', 'SgReferenceSegment', 'SgAdditive', 'SgSameCategory', 'SgParameterCount']),
    'nests': dict(spec='NsSpec', emit='NsEmit',
                  invariants=['NsSymmetric', 'NsUnitDiagonal', 'NsZeroAcross', 'NsWithinNest', 'NsRange', 'NsPartition']),
}

BC_DEN = 10**9  # small Box-Cox exponents are k / BC_DEN
BC_SWITCH_K = 10**4  # the documented switching point 1e-5 of the series expansion, in these units


def qset(xs) -> str:
    return '{' + ', '.join(tla_q(F(x)) for x in xs) + '}'


def qseq(xs) -> str:
    return '<<' + ', '.join(tla_q(F(x)) for x in xs) + '>>'


def iseq(xs) -> str:
    return '<<' + ', '.join(str(int(x)) for x in xs) + '>>'


def instance(tier: str, seed: int = 0) -> dict:
    """The constants of the model instance, per tier.  In the thorough tier the seed adds one
    threshold, one Box-Cox argument, one density parameter and one regression measurement."""
    quick = tier == 'quick'
    sw = BC_SWITCH_K
    small = [100000, 20000, sw + 1, sw, sw - 1, 9000, 1000]  # 1e-4, 2e-5, switch +- 1e-9, 9e-6, 1e-6
    if not quick:
        small += [50000, sw + 100, sw - 100, 5000, 100, 1]
    inst = dict(
        PwGrid=['-3', '0', '2', '5', '10'] if quick else ['-3', '0', '2', '5', '10', '25/2', '30'],
        PwMaxK=4,
        PwBetaVals=['2', '3', '-1/2'] if quick else ['2', '3', '-1/2', '0', '7/4'],
        PwMargin='3/2',
        PwExtraXs=['0', '-7/2'],
        BcXs=['1/2', '11/10', '2', '7', '30'] if quick else ['1/10', '1/2', '9/10', '1', '11/10', '2', '7', '30', '500'],
        BcDen=BC_DEN,
        BcSmallLs=sorted(set(small + [-k for k in small] + [0])),
        BcLargeLs=['1/2', '1', '2', '-1', '3/2', '-1/3'] if quick else ['1/2', '1', '2', '3', '-1', '-2', '3/2', '-1/3', '1/1000', '-1/1000', '5/2'],
        BcPairMax=100000,
        DsDists=['normal', 'lognormal', 'logistic', 'uniform', 'triangular'],
        DsGrid=['-2', '-1/2', '0', '3/10', '1', '7/2'] if quick else ['-5', '-2', '-1/2', '0', '3/10', '1', '3/2', '7/2', '9'],
        DsScales=['1', '3/2', '1/4'] if quick else ['1', '3/2', '1/4', '7/2', '1/10'],
        DsOffsets=['-3', '-1/2', '0', '1', '5/2'] if quick else ['-6', '-3', '-1', '-1/2', '0', '1/3', '1', '5/2', '5'],
        DsLogXs=['-1', '0', '1/4', '1', '3', '9'] if quick else ['-1', '0', '1/100', '1/4', '1', '3/2', '3', '9', '40'],
        DsMargin='1/2',
        RgYs=['2', '-1/2', '0'] if quick else ['2', '-1/2', '0', '7', '13/10'],
        RgMs=['7/5', '-3', '0'] if quick else ['7/5', '-3', '0', '13/10', '9/2'],
        RgSs=['1', '3/2', '1/4', '-3/2'] if quick else ['1', '3/2', '1/4', '5', '1/10', '-3/2', '-1/4'],
        SgMaxVars=2 if quick else 3,
        SgLevelSets=[[0, 1], [1, 2, 3], [5, 2, 9]],
        # category of each value: one category per value (plain), or several values in one category -- the first value's
        # category shared (it is the default reference), a later one shared, categories not numbered in order of appearance,
        # every value in one category (no shift parameter at all)
        SgCatMaps=[[1, 2], [1, 1], [1, 2, 3], [1, 1, 2], [1, 2, 1], [1, 2, 2], [2, 1, 2]] + ([] if quick else [[1, 1, 1]]),
        SgDupVars=2,
        SgShiftSeqs=[['5/4'], ['1/4', '-1'], ['2', '1/2', '-3/4']] if quick else [['5/4'], ['1/4', '-1'], ['3', '1/8'], ['2', '1/2', '-3/4']],
        SgRefVals=['1/2'] if quick else ['1/2', '-2'],
        SgPrefixes=[1, 2],
        NsOrders=[[10, 3, 7, 5], [2, 1, 3]] if quick else [[10, 3, 7, 5, 1], [2, 4, 1, 3], [2, 1, 3]],
        NsMus=['5/4', '2'] if quick else ['5/4', '2', '1', '3/2'],
        NsTopMus=['1', '6/5'],
        NsMaxNests=2,
        NsNameOrders=['none', 'choice', 'sorted', 'reversed'],
    )
    if not quick:
        inst['PwGrid'].append(str(F(seed % 17 + 12, 2)))      # 6 .. 14 in halves
        inst['BcXs'].append(str(F(seed % 23 + 3, 7)))         # 3/7 .. 25/7
        inst['DsGrid'].append(str(F(seed % 13 - 6, 4)))       # -3/2 .. 3/2 in quarters
        inst['RgYs'].append(str(F(seed % 19 - 9, 3)))
    return inst


def module(inst: dict, name: str = 'MCHelpers') -> str:
    sets_q = ['PwGrid', 'PwBetaVals', 'PwExtraXs', 'BcXs', 'BcLargeLs', 'DsGrid', 'DsScales', 'DsOffsets', 'DsLogXs',
              'RgYs', 'RgMs', 'RgSs', 'SgRefVals', 'NsMus', 'NsTopMus']
    lines = [f'---- MODULE {name} ----', 'EXTENDS Helpers']
    for k in sets_q:
        lines.append(f'G_{k} == {qset(inst[k])}')
    lines.append(f'G_PwMargin == {tla_q(F(inst["PwMargin"]))}')
    lines.append(f'G_DsMargin == {tla_q(F(inst["DsMargin"]))}')
    lines.append('G_BcSmallLs == {' + ', '.join(str(k) if k >= 0 else f'(0 - {-k})' for k in inst['BcSmallLs']) + '}')
    lines.append('G_DsDists == {' + ', '.join(f'"{d}"' for d in inst['DsDists']) + '}')
    lines.append('G_SgLevelSets == {' + ', '.join(iseq(s) for s in inst['SgLevelSets']) + '}')
    lines.append('G_SgCatMaps == {' + ', '.join(iseq(s) for s in inst['SgCatMaps']) + '}')
    lines.append('G_SgShiftSeqs == {' + ', '.join(qseq(s) for s in inst['SgShiftSeqs']) + '}')
    lines.append('G_SgPrefixes == {' + ', '.join(str(p) for p in inst['SgPrefixes']) + '}')
    lines.append('G_NsOrders == {' + ', '.join(iseq(s) for s in inst['NsOrders']) + '}')
    lines.append('G_NsNameOrders == {' + ', '.join(f'"{d}"' for d in inst['NsNameOrders']) + '}')
    lines.append('====')
    return '\n'.join(lines) + '\n'


def cfg(inst: dict, family: str, mutation: str = 'none', emit: bool = True) -> str:
    fam = FAMILIES[family]
    defined = ['PwGrid', 'PwBetaVals', 'PwExtraXs', 'PwMargin', 'BcXs', 'BcSmallLs', 'BcLargeLs', 'DsDists', 'DsGrid', 'DsScales',
               'DsOffsets', 'DsLogXs', 'DsMargin', 'RgYs', 'RgMs', 'RgSs', 'SgLevelSets', 'SgCatMaps', 'SgShiftSeqs', 'SgRefVals',
               'SgPrefixes', 'NsOrders', 'NsMus', 'NsTopMus', 'NsNameOrders']
    out = [f'SPECIFICATION {fam["spec"]}', 'CONSTANTS', f' Mutation = "{mutation}"']
    out += [f' {k} <- G_{k}' for k in defined]
    for k in ('PwMaxK', 'BcDen', 'BcPairMax', 'SgMaxVars', 'SgDupVars', 'NsMaxNests'):
        out.append(f' {k} = {inst[k]}')
    out += [f'INVARIANT {i}' for i in fam['invariants']]
    if emit:
        out.append(f'INVARIANT {fam["emit"]}')
    return '\n'.join(out) + '\n'


def preload():
    """Import everything the replay functions need, so that forked workers inherit the modules."""
    import numpy  # noqa
    import pandas  # noqa
    import biogeme.database  # noqa
    import biogeme.distributions  # noqa
    import biogeme.expressions  # noqa
    import biogeme.loglikelihood  # noqa
    import biogeme.models  # noqa
    import biogeme.nests  # noqa
    import biogeme.segmentation  # noqa


# ------------------------------------------------------------------------------------ values
def fr(q) -> F:
    return F(q[0], q[1])


def ev(t) -> float:
    return float(terms.ev(t))


def _db(cols: dict, name='c17'):
    import pandas as pd
    import biogeme.database as db

    return db.Database(name, pd.DataFrame({k: [float(v) for v in vs] for k, vs in cols.items()}))


def _val(e, database, betas=None):
    import numpy as np

    return np.asarray(e.get_value_c(database=database, betas=betas, prepare_ids=True), dtype=float)


def _try(fn):
    """Python-level construction of a helper expression: an exception here is an observation
    (the engine is not involved yet, so there is no sticky state to fear)."""
    try:
        return 'ok', fn()
    except Exception as e:  # noqa
        return 'exc', f'{type(e).__name__}: {str(e)[:200]}'


def _cmp(mism, key, facts, got, want, tol, **detail):
    if not close(got, want, rel=tol):
        mism.append(dict(key=key, facts=facts, detail=dict(got=float(got), want=float(want), **detail)))
        return False
    return True


# ------------------------------------------------------------------------------------ piecewise
def pw_groups(recs):
    """Cases sharing thresholds and slopes are replayed together (one row per argument)."""
    groups: dict = {}
    for r in recs:
        key = (tuple((t['inf'], tuple(t['v'])) for t in r['thr']), tuple(tuple(b) for b in r['betas']))
        groups.setdefault(key, []).append(r)
    return [sorted(g, key=lambda r: fr(r['x'])) for g in groups.values()]


def pw_facts(thr, api):
    k = len(thr)
    first_closed_nonzero = (not thr[0]['inf']) and fr(thr[0]['v']) != 0
    return dict(family='piecewise', api=api, thresholds=k, open_lo=thr[0]['inf'], open_hi=thr[-1]['inf'],
                first_closed_nonzero=first_closed_nonzero)


def pw_replay(group, function=None) -> dict:
    """`function` replaces models.piecewise_function (used by the negative controls)."""
    from biogeme import models
    from biogeme.expressions import Beta, Numeric, Variable

    r0 = group[0]
    thr = r0['thr']
    K = len(thr)
    tpy = [None if t['inf'] else float(fr(t['v'])) for t in thr]
    bq = [fr(b) for b in r0['betas']]
    xs = [fr(r['x']) for r in group]
    d = _db({'x': xs, 'other': [1] * len(xs)})
    show = dict(thresholds=tpy, betas=[str(b) for b in bq])
    mism = []
    n = 0
    pwf = function or models.piecewise_function

    # --- variables (by Variable object and by name)
    for how, arg in (('Variable', Variable('x')), ('name', 'x')):
        st, vs = _try(lambda: models.piecewise_variables(arg, tpy))
        f = pw_facts(thr, 'piecewise_variables')
        if st != 'ok':
            mism.append(dict(key='piecewise:variables:exception', facts=dict(f, kind='exception'), detail=dict(show, error=vs, given=how)))
            continue
        if len(vs) != K - 1:
            mism.append(dict(key='piecewise:variables:count', facts=dict(f, kind='count'),
                             detail=dict(show, got=len(vs), want=K - 1, given=how)))
        vals = [_val(v, d) for v in vs]
        n += len(vs)
        for i, r in enumerate(group):
            want = [float(fr(v)) for v in r['vars']]
            for j in range(min(len(vs), K - 1)):
                _cmp(mism, 'piecewise:variables:value', dict(f, kind='value'), vals[j][i], want[j], TOL_EXACT, x=str(xs[i]), variable=j + 1, **show)
            if len(vs) == K - 1:
                _cmp(mism, 'piecewise:variables:sum', dict(f, kind='sum'), sum(v[i] for v in vals), float(fr(r['sum'])), TOL_EXACT,
                     x=str(xs[i]), **show)

    # --- formula: slopes as free parameters (values through the dict), as fixed ones, as numbers
    names = [f'b{j + 1}' for j in range(K - 1)]
    bdict = {nm: float(b) for nm, b in zip(names, bq)}
    formula_vals = None
    for how in ('free Beta', 'fixed Beta', 'numbers', 'Numeric'):
        if how == 'free Beta':
            bs = [Beta(nm, 0.125, None, None, 0) for nm in names]
        elif how == 'fixed Beta':
            bs = [Beta(nm, float(b), None, None, 1) for nm, b in zip(names, bq)]
        elif how == 'numbers':
            bs = [float(b) for b in bq]
        else:
            bs = [Numeric(float(b)) for b in bq]
        f = pw_facts(thr, 'piecewise_formula')
        st, e = _try(lambda: models.piecewise_formula('x' if how == 'numbers' else Variable('x'), tpy, bs))
        if st != 'ok':
            mism.append(dict(key='piecewise:formula:exception', facts=dict(f, kind='exception'), detail=dict(show, error=e, slopes=how)))
            continue
        v = _val(e, d, bdict if how == 'free Beta' else None)
        n += 1
        if how == 'free Beta':
            formula_vals = v
        for i, r in enumerate(group):
            _cmp(mism, 'piecewise:formula:value', dict(f, kind='value'), v[i], float(fr(r['formula'])), TOL_EXACT, x=str(xs[i]), slopes=how, **show)

    # --- transformed variable
    if K >= 3:
        f = pw_facts(thr, 'piecewise_as_variable')
        for how in ('free Beta', 'numbers'):
            bs = [Beta(nm, 0.125, None, None, 0) for nm in names[1:]] if how == 'free Beta' else [float(b) for b in bq[1:]]
            st, e = _try(lambda: models.piecewise_as_variable(Variable('x') if how == 'free Beta' else 'x', tpy, bs))
            if st != 'ok':
                mism.append(dict(key='piecewise:as_variable:exception', facts=dict(f, kind='exception'), detail=dict(show, error=e, slopes=how)))
                continue
            v = _val(e, d, {k_: bdict[k_] for k_ in names[1:]} if how == 'free Beta' else None)
            n += 1
            for i, r in enumerate(group):
                _cmp(mism, 'piecewise:as_variable:value', dict(f, kind='value'), v[i], float(fr(r['asvar'][0])), TOL_EXACT,
                     x=str(xs[i]), slopes=how, **dict(show, betas=show['betas'][1:]))

    # --- the plain function, and formula = function on the code side
    f = pw_facts(thr, 'piecewise_function')
    for i, r in enumerate(group):
        st, got = _try(lambda: pwf(float(xs[i]), tpy, [float(b) for b in bq]))
        n += 1
        if st != 'ok':
            mism.append(dict(key='piecewise:function:exception', facts=dict(f, kind='exception'), detail=dict(show, error=got, x=str(xs[i]))))
            continue
        _cmp(mism, 'piecewise:function:value', dict(f, kind='value'), got, float(fr(r['function'])), TOL_EXACT, x=str(xs[i]), **show)
        if formula_vals is not None:
            _cmp(mism, 'piecewise:formula-vs-function', dict(f, kind='coincide'), got, formula_vals[i], TOL_EXACT, x=str(xs[i]),
                 note='want = value of piecewise_formula, got = piecewise_function', **show)
    sample = dict(family='piecewise', **show, x=str(xs[0]),
                  expected=dict(variables=[str(fr(v)) for v in r0['vars']], formula=str(fr(r0['formula'])), function=str(fr(r0['function']))),
                  observed=dict(formula=None if formula_vals is None else float(formula_vals[0])))
    return dict(n=n, mism=mism, cases=len(group), sample=sample)


def buggy_piecewise_function(x, thresholds, betas):
    """The function as it stood before the repair (distance not counted from the first
    threshold) -- negative control only."""
    if thresholds[0] is not None and x < thresholds[0]:
        return 0
    rest = x
    total = 0
    for i, v in enumerate(betas):
        if thresholds[i + 1] is None or x < thresholds[i + 1]:
            return total + v * rest
        total += v * (thresholds[i + 1] - (0 if thresholds[i] is None else thresholds[i]))
        rest = x - thresholds[i + 1]
    return total


# ------------------------------------------------------------------------------------ Box-Cox
def bc_groups(recs):
    groups: dict = {}
    for r in recs:
        key = (r['pair'], tuple(r['l']), tuple(r['l2']))
        groups.setdefault(key, []).append(r)
    return [sorted(g, key=lambda r: fr(r['x'])) for g in groups.values()]


def bc_facts(l: F, kind: str):
    near = abs(l) < F(1, 10**5)
    return dict(family='boxcox', kind=kind, series_branch=bool(near and l != 0), ell_zero=l == 0)


def _bc_exprs(l: F, maker=None):
    """The transform with the exponent given as a free parameter (value through the dict), as a
    fixed parameter, as a Numeric and as a plain number."""
    from biogeme import models
    from biogeme.expressions import Beta, Numeric, Variable

    bx = maker or models.boxcox
    lf = float(l)
    x = Variable('x')
    return [
        ('free Beta', bx(x, Beta('ell', 0.3, -10, 10, 0)), {'ell': lf}),
        ('fixed Beta', bx(x, Beta('ell', lf, -10, 10, 1)), None),
        ('Numeric', bx(x, Numeric(lf)), None),
        ('number', bx(x, lf), None),
    ]


def bc_replay(group, maker=None) -> dict:
    r0 = group[0]
    xs = [fr(r['x']) for r in group]
    d = _db({'x': xs})
    mism = []
    n = 0
    l1 = fr(r0['l'])
    if not r0['pair']:
        f = bc_facts(l1, 'value')
        oracle_gap = 0.0
        for how, e, bd in _bc_exprs(l1, maker):
            v = _val(e, d, bd)
            n += 1
            for i, r in enumerate(group):
                want = ev(r['ref'])
                oracle_gap = max(oracle_gap, abs(ev(r['def']) - want) / max(1.0, abs(want)))
                _cmp(mism, 'boxcox:value', f, v[i], want, TOL_TERM, x=str(xs[i]), ell=str(l1), ell_float=float(l1), exponent_given_as=how)
        sample = dict(family='boxcox', x=str(xs[0]), ell=str(l1), expected=terms.show(r0['ref']), expected_value=ev(r0['ref']), observed=float(v[0]))
        return dict(n=n, mism=mism, cases=len(group), oracle_gap=oracle_gap, sample=sample)
    # continuity: two neighbouring exponents
    l2 = fr(r0['l2'])
    f = dict(family='boxcox', kind='continuity', straddles_switch=bool((abs(l1) < F(1, 10**5)) != (abs(l2) < F(1, 10**5))))
    e1 = _bc_exprs(l1, maker)
    e2 = _bc_exprs(l2, maker)
    for (how, a, bda), (_, b, bdb) in zip(e1, e2):
        va = _val(a, d, bda)
        vb = _val(b, d, bdb)
        n += 2
        for i, r in enumerate(group):
            lip = ev(r['lip'][0])
            ra, rb = ev(r['ref']), ev(r['ref2'][0])
            scale = max(1.0, abs(ra))
            bound = lip * float(l2 - l1) * (1 + 1e-6) + 1e-10 * scale
            jump = abs(vb[i] - va[i])
            if not jump <= bound:
                mism.append(dict(key='boxcox:continuity', facts=f,
                                 detail=dict(x=str(xs[i]), ell=[str(l1), str(l2)], got=[float(va[i]), float(vb[i])], jump=float(jump),
                                             lipschitz_bound=bound, reference=[ra, rb], exponent_given_as=how)))
    return dict(n=n, mism=mism, cases=len(group), oracle_gap=0.0)


def buggy_boxcox(x, ell):
    """Box-Cox with the second series coefficient 1 instead of 1/2 (as before the repair), built
    from the real expression classes -- negative control only."""
    from biogeme.expressions import Elem, Numeric, log

    regular = (x**ell - 1.0) / ell
    series = log(x) + ell * log(x) ** 2 + ell**2 * log(x) ** 3 / 6.0 + ell**3 * log(x) ** 4 / 24.0
    near = (ell < Numeric(1.0e-5)) * (ell > -Numeric(1.0e-5))
    return Elem({0: Elem({0: regular, 1: series}, near), 1: Numeric(0)}, x == 0)


# ------------------------------------------------------------------------------------ densities
def ds_groups(recs):
    groups: dict = {}
    for r in recs:
        key = (r['dist'], tuple(tuple(p) for p in r['p']))
        groups.setdefault(key, []).append(r)
    return [sorted(g, key=lambda r: fr(r['x'])) for g in groups.values()]


DS_FUN = {'normal': 'normalpdf', 'lognormal': 'lognormalpdf', 'logistic': 'logisticcdf', 'uniform': 'uniformpdf',
          'triangular': 'triangularpdf'}


def _ds_exprs(dist, p):
    import biogeme.distributions as dst
    from biogeme.expressions import Beta, Numeric, Variable

    fn = getattr(dst, DS_FUN[dist])
    pf = [float(v) for v in p]
    x = Variable('x')
    out = [('numbers', fn(x, *pf), None), ('Numeric', fn(x, *[Numeric(v) for v in pf]), None)]
    names = [f'p{j + 1}' for j in range(len(pf))]
    out.append(('fixed Beta', fn(x, *[Beta(nm, v, None, None, 1) for nm, v in zip(names, pf)]), None))
    # free parameters whose initial values are the parameters (the helper validates the initial
    # values) and which are moved to the same values through the dictionary
    out.append(('free Beta', fn(x, *[Beta(nm, v, None, None, 0) for nm, v in zip(names, pf)]), dict(zip(names, pf))))
    # free parameters built at OTHER (admissible) starting values and given their real values at evaluation time: the
    # helper is a function of the values it is evaluated at
    start = {'normal': lambda q: [q[0] + 1.0, 1.0 if q[1] != 1.0 else 2.0], 'lognormal': lambda q: [q[0] + 1.0, 1.0 if q[1] != 1.0 else 2.0],
             'logistic': lambda q: [q[0] + 1.0, 1.0 if q[1] != 1.0 else 2.0], 'uniform': lambda q: [q[0] - 1.0, q[1] + 1.0],
             'triangular': lambda q: [q[0] - 1.0, q[1] + 1.0, q[2]]}[dist](pf)
    names2 = [f'q{j + 1}' for j in range(len(pf))]
    out.append(('free Beta built at other starting values', fn(x, *[Beta(nm, v, None, None, 0) for nm, v in zip(names2, start)]), dict(zip(names2, pf))))
    return out


def ds_replay(group) -> dict:
    import numpy as np

    r0 = group[0]
    dist = r0['dist']
    p = [fr(v) for v in r0['p']]
    xs = [fr(r['x']) for r in group]
    d = _db({'x': xs})
    exact = dist in ('uniform', 'triangular')
    tol = TOL_EXACT if exact else TOL_TERM
    f = dict(family='density', dist=dist, kind='value')
    show = dict(dist=dist, parameters=[str(v) for v in p])
    mism = []
    n = 0
    st, exprs = _try(lambda: _ds_exprs(dist, p))
    if st != 'ok':
        return dict(n=0, cases=len(group), quad=None,
                    mism=[dict(key='density:exception', facts=dict(f, kind='exception'), detail=dict(show, error=exprs))])
    for how, e, bd in exprs:
        v = _val(e, d, bd)
        n += 1
        for i, r in enumerate(group):
            _cmp(mism, f'density:{dist}:value', f, v[i], ev(r['value']), tol, x=str(xs[i]), parameters_given_as=how, **show)
            if not v[i] >= 0.0:
                mism.append(dict(key=f'density:{dist}:negative', facts=dict(f, kind='sign'), detail=dict(show, x=str(xs[i]), got=float(v[i]))))
    # ---- integrates to one
    e = exprs[0][1]
    fq = dict(family='density', dist=dist, kind='mass')
    quad = None
    if exact:
        # trapezoid over the breakpoints of the specification: exact for a piecewise linear density
        br = [fr(b) for b in r0['breaks']]
        fv = _val(e, _db({'x': br}))
        mass = sum(0.5 * (fv[i] + fv[i + 1]) * float(br[i + 1] - br[i]) for i in range(len(br) - 1))
        n += 1
        _cmp(mism, f'density:{dist}:mass', fq, mass, 1.0, TOL_EXACT, rule='trapezoid over the breakpoints (exact)', **show)
        # and a fine midpoint rule as the numeric version of the same clause
        lo, hi = float(br[0]) - 1.0, float(br[-1]) + 1.0
        N = 20000
        h = (hi - lo) / N
        grid = lo + h * (np.arange(N) + 0.5)
        quad = float(np.sum(_val(e, _db({'x': grid}))) * h)
        n += 1
        if not abs(quad - 1.0) <= 1e-3:
            mism.append(dict(key=f'density:{dist}:mass', facts=fq, detail=dict(show, got=quad, want=1.0, rule='midpoint rule, 20000 cells')))
    elif dist in ('normal', 'lognormal'):
        mu, s = float(p[0]), float(p[1])
        N = 4000
        u = np.linspace(mu - 12 * s, mu + 12 * s, N + 1)
        h = u[1] - u[0]
        w = np.full(N + 1, h)
        w[0] = w[-1] = h / 2
        if dist == 'normal':
            quad = float(np.sum(w * _val(e, _db({'x': u}))))
        else:  # substitution x = exp(u)
            xg = np.exp(u)
            quad = float(np.sum(w * xg * _val(e, _db({'x': xg}))))
        n += 1
        _cmp(mism, f'density:{dist}:mass', fq, quad, 1.0, TOL_QUAD, rule='trapezoid, 4000 cells over 12 scale units each side', **show)
    else:  # logistic distribution function: from 0 to 1, non-decreasing, symmetric about mu
        mu, s = float(p[0]), float(p[1])
        g = np.concatenate([[mu - 45 * s], np.linspace(mu - 12 * s, mu + 12 * s, 241), [mu + 45 * s]])
        v = _val(e, _db({'x': g}))
        n += 1
        quad = float(v[-1] - v[0])
        _cmp(mism, 'density:logistic:mass', fq, quad, 1.0, TOL_EXACT, rule='F(mu+45s) - F(mu-45s)', **show)
        if not np.all(np.diff(v) >= -1e-15):
            mism.append(dict(key='density:logistic:monotone', facts=dict(fq, kind='monotone'), detail=dict(show)))
        if not np.allclose(v + v[::-1], 1.0, rtol=0, atol=1e-12):
            mism.append(dict(key='density:logistic:symmetry', facts=dict(fq, kind='symmetry'), detail=dict(show)))
    sample = dict(family='density', **show, x=str(xs[0]), expected=terms.show(r0['value']), expected_value=ev(r0['value']),
                  observed=float(_val(e, d)[0]), mass=quad)
    return dict(n=n, mism=mism, cases=len(group), quad=quad, sample=sample)


# ------------------------------------------------------------------------------------ regression
def rg_replay(r) -> dict:
    import biogeme.distributions as dst
    from biogeme.expressions import Beta, Numeric, Variable
    from biogeme.loglikelihood import loglikelihoodregression

    y, m, s = fr(r['y']), fr(r['m']), fr(r['s'])
    d = _db({'y': [y], 'm': [m], 'one': [1]})
    want = ev(r['ll'])
    mism = []
    n = 0
    f = dict(family='regression', kind='value')
    show = dict(y=str(y), m=str(m), sigma=str(s))
    variants = [
        ('Variable model, free sigma', loglikelihoodregression(Variable('y'), Variable('m'), Beta('sigma', 2.5, None, None, 0)), {'sigma': float(s)}),
        ('parameter*Variable model, fixed sigma',
         loglikelihoodregression(Variable('y'), Beta('b', 0.5, None, None, 0) * Variable('one'), Beta('sigma', float(s), None, None, 1)), {'b': float(m)}),
        ('Numeric sigma', loglikelihoodregression(Variable('y'), Variable('m'), Numeric(float(s))), None),
    ]
    got = None
    for how, e, bd in variants:
        v = _val(e, d, bd)[0]
        n += 1
        got = v if got is None else got
        _cmp(mism, 'regression:value', f, v, want, TOL_REG, how=how, **show)
    if s < 0:
        # the documented formula depends on sigma through sigma^2 only; a density with a negative standard deviation is
        # not defined: nothing more is compared
        return dict(n=n, mism=mism, cases=1, sample=dict(family='regression', **show, expected=terms.show(r['ll']), expected_value=want, observed=float(got)))
    # it is the logarithm of the library's own normal density
    pdf = _val(dst.normalpdf(Variable('y'), float(m), float(s)), d)[0]
    n += 1
    _cmp(mism, 'regression:log-of-normalpdf', dict(f, kind='coincide'), math.exp(got), pdf, TOL_REG, note='got = exp(loglikelihoodregression), want = normalpdf', **show)
    _cmp(mism, 'regression:normalpdf', dict(f, kind='pdf'), pdf, ev(r['pdf']), TOL_TERM, **show)
    return dict(n=n, mism=mism, cases=1, sample=dict(family='regression', **show, expected=terms.show(r['ll']), expected_value=want, observed=float(got)))


# ------------------------------------------------------------------------------------ segmentation
SG_PREFIX = {1: 'segmented', 2: 'my_prefix'}
# names of the categories: not in alphabetical order of their numbers, one a prefix of another
SG_CAT_NAMES = {1: 'young', 2: 'adult', 3: 'adult_senior'}


def sg_groups(recs):
    groups: dict = {}
    for r in recs:
        key = (tuple(r['ref']), r['prefix'],
               tuple((tuple(s['vals']), tuple(s['cats']), s['refcat'], tuple(tuple(x) for x in s['shifts'])) for s in r['segs']))
        groups.setdefault(key, []).append(r)
    return list(groups.values())


def sg_many_to_one(segs) -> bool:
    return any(len(set(s['cats'])) < len(s['cats']) for s in segs)


def sg_cat_name(k: int, q: int) -> str:
    """Name of category q of the (k+1)-th variable."""
    return f'v{k + 1}_{SG_CAT_NAMES[int(q)]}'


def sg_replay(group, patch=None) -> dict:
    """`patch` (negative controls) is called once before the objects are built; it may replace classes of
    biogeme.segmentation in this (forked) process."""
    import biogeme.expressions as ex
    import biogeme.segmentation as sgm
    from biogeme.expressions import Beta, Variable

    if patch:
        patch(sgm)
    r0 = group[0]
    segs = r0['segs']
    ref = fr(r0['ref'])
    prefix = SG_PREFIX[r0['prefix']]
    mism = []
    n = 0
    dup = sg_many_to_one(segs)
    f = dict(family='segmentation', kind='value', variables=len(segs), many_to_one=dup,
             reference_shared=any(s['refcat'] and list(s['cats']).count(s['refcat']) > 1 for s in segs),
             single_category=any(len(set(s['cats'])) == 1 for s in segs))

    def tuples():
        out = []
        for k, s in enumerate(segs):
            # value -> name of its category; several values may carry the same name
            mapping = {int(v): sg_cat_name(k, q) for v, q in zip(s['vals'], s['cats'])}
            reference = None if s['refcat'] == 0 else sg_cat_name(k, s['refcat'])
            var = Variable(f'v{k + 1}') if k % 2 == 0 else f'v{k + 1}'  # the variable or its name
            out.append(sgm.DiscreteSegmentationTuple(var, mapping, reference=reference))
        return out

    beta = Beta('asc', 0.25, -10, 10, 0)
    tps = tuples()
    seg = sgm.Segmentation(beta, tps, prefix=prefix)
    # which reference did the library settle on (its public attribute)?  must be a category of the variable
    refs = []
    for k, (s, t) in enumerate(zip(segs, tps)):
        cats = {sg_cat_name(k, q): int(q) for q in s['cats']}
        if t.reference not in cats:
            mism.append(dict(key='segmentation:reference', facts=dict(f, kind='reference'), detail=dict(reference=t.reference, categories=sorted(cats))))
            return dict(n=0, mism=mism, cases=len(group), kind='refused')
        refs.append(cats[t.reference])
        if s['refcat'] and refs[-1] != s['refcat']:
            mism.append(dict(key='segmentation:reference', facts=dict(f, kind='reference'),
                             detail=dict(reference=t.reference, wanted=sg_cat_name(k, s['refcat']))))
    want0 = [x for x in r0['expected'] if list(x['refs']) == refs]
    if len(want0) != 1:
        raise RuntimeError(f'no expectation for references {refs}')
    # parameter values: the reference value and ONE shift per non-reference category (the specification lists them;
    # the names are the library's public naming).  beta_name refuses the reference category, so it is not asked for it.
    bdict = {'asc': float(ref)}
    for k, q in want0[0]['params']:
        k, q = int(k) - 1, int(q)
        st, name = _try(lambda: seg.segmentations[k].beta_name(sg_cat_name(k, q)))
        if st != 'ok':
            mism.append(dict(key='segmentation:parameters', facts=dict(f, kind='parameters'),
                             detail=dict(error=name, category=sg_cat_name(k, q), mappings=[dict(zip(s['vals'], s['cats'])) for s in segs])))
            return dict(n=0, mism=mism, cases=len(group), kind='refused')
        bdict[name] = float(fr(segs[k]['shifts'][q - 1]))
    rows = [[int(segs[k]['vals'][r['row'][k] - 1]) for k in range(len(segs))] for r in group]
    d = _db({f'v{k + 1}': [row[k] for row in rows] for k in range(len(segs))})
    show = dict(reference_value=str(ref), parameters=bdict,
                mappings=[{int(v): sg_cat_name(k, q) for v, q in zip(s['vals'], s['cats'])} for k, s in enumerate(segs)],
                references=[sg_cat_name(k, q) for k, q in enumerate(refs)], references_given=[bool(s['refcat']) for s in segs])
    sample = None
    exprs = [('Segmentation.segmented_beta', seg.segmented_beta()),
             ('segmented_beta()', sgm.segmented_beta(Beta('asc', 0.25, -10, 10, 0), tuples(), prefix=prefix))]
    if all(s['refcat'] for s in segs):
        # the tuples as the database generates them from the same mapping (documented: names for the values of the column)
        def generated():
            return [d.generate_segmentation(variable=t.variable if k % 2 else t.variable.name, mapping=dict(t.mapping), reference=t.reference)
                    for k, t in enumerate(tps)]

        st, gen = _try(generated)
        if st != 'ok':
            mism.append(dict(key='segmentation:generate', facts=dict(f, kind='generate'), detail=dict(show, error=gen)))
        else:
            exprs.append(('Database.generate_segmentation + segmented_beta()', sgm.segmented_beta(Beta('asc', 0.25, -10, 10, 0), gen, prefix=prefix)))
    code = seg.segmented_code()
    ns = {k_: getattr(ex, k_) for k_ in ('Beta', 'Variable', 'bioMultSum', 'Numeric')}
    target = f'{prefix}_asc'
    lines = [ln for ln in code.split('\n') if ln.strip()]

    def run_code():
        exec(code, ns)
        if target not in ns and len(bdict) == 1 and lines and '=' not in lines[-1].split('(')[0]:
            # no category but the reference: the generated code is the bare parameter (an expression, nothing is assigned)
            ns[target] = eval(lines[-1], ns)

    st, err = _try(run_code)
    if st != 'ok' or target not in ns:
        mism.append(dict(key='segmentation:code', facts=dict(f, kind='code'), detail=dict(show, code=code, error=err if st != 'ok' else f'{target} not defined')))
    else:
        exprs.append(('exec(segmented_code)', ns[target]))
    for how, e in exprs:
        names = {b for b in e.set_of_elementary_expression(ex.TypeOfElementaryExpression.FREE_BETA)}
        if names != set(bdict):
            mism.append(dict(key='segmentation:parameters', facts=dict(f, kind='parameters'),
                             detail=dict(show, how=how, got=sorted(names), want=sorted(bdict))))
            continue
        v = _val(e, d, bdict)
        n += 1
        for i, r in enumerate(group):
            want = [x for x in r['expected'] if list(x['refs']) == refs]
            if len(want) != 1:
                raise RuntimeError(f'no expectation for references {refs}')
            _cmp(mism, 'segmentation:value', f, v[i], float(fr(want[0]['value'])), TOL_EXACT, how=how, row=rows[i], **show)
            if i == 0:
                sample = dict(family='segmentation', **show, row=rows[0], code=code, expected=str(fr(want[0]['value'])), observed=float(v[0]), how=how)
    # what the library documents about a segmentation and the data: verify_segmentation accepts a mapping that covers
    # exactly the values of the column
    if len(group) >= max(len(s['vals']) for s in segs):
        for k, (s, t) in enumerate(zip(segs, tps)):
            if {row[k] for row in rows} == {int(v) for v in s['vals']}:
                st, err = _try(lambda: d.verify_segmentation(t))
                n += 1
                if st != 'ok':
                    mism.append(dict(key='segmentation:verify', facts=dict(f, kind='verify'), detail=dict(show, variable=k + 1, error=err)))
    kind = ('one category per value' if not dup else
            'many-to-one, reference category shared by several values' if any(list(s['cats']).count(rc) > 1 for s, rc in zip(segs, refs))
            else 'many-to-one, a non-reference category shared by several values')
    return dict(n=n, mism=mism, cases=len(group), sample=sample, many_to_one=dup, kind=kind)


def buggy_segmentation_patch(sgm):
    """A OneSegmentation that keeps ONE value per category (the mapping inverted category -> value and back): the other
    values of a shared category get no shift -- negative control only, built from the real class."""
    real = sgm.OneSegmentation

    class OneValuePerCategory(real):
        def __init__(self, beta, segmentation_tuple):
            super().__init__(beta, segmentation_tuple)
            inverted = {cat: value for value, cat in self.mapping.items()}
            self.mapping = {value: cat for cat, value in inverted.items()}

    sgm.OneSegmentation = OneValuePerCategory


# ------------------------------------------------------------------------------------ nests
def ns_replay(r, corrupt=None) -> dict:
    import numpy as np
    from biogeme.expressions import Beta, Numeric
    from biogeme.nests import NestsForNestedLogit, OneNestForNestedLogit

    order = [int(a) for a in r['order']]
    top = float(fr(r['top']))
    want = [[float(fr(v)) for v in row] for row in r['corr']]
    if corrupt:
        want = corrupt(want)
    name_of = {a: f'alt{a}' for a in order}
    if r['names'] == 'none':
        names = None
        name_of = {a: str(a) for a in order}
    elif r['names'] == 'choice':
        names = {a: name_of[a] for a in order}
    elif r['names'] == 'sorted':
        names = {a: name_of[a] for a in sorted(order)}
    else:
        names = {a: name_of[a] for a in reversed(order)}
    mism = []
    n = 0
    f = dict(family='nests', kind='value', names=r['names'],
             names_in_choice_set_order=names is None or list(names) == order)
    for how in ('numbers', 'Numeric', 'Beta initial value', 'Beta through parameters', 'old tuple syntax'):
        params = None
        nests = []
        for k, ne in enumerate(r['nests']):
            mu = float(fr(ne['mu']))
            alts = [int(a) for a in ne['alts']]
            if how == 'numbers':
                nests.append(OneNestForNestedLogit(nest_param=mu, list_of_alternatives=alts, name=f'n{k}'))
            elif how == 'Numeric':
                nests.append(OneNestForNestedLogit(nest_param=Numeric(mu), list_of_alternatives=alts))
            elif how == 'Beta initial value':
                nests.append(OneNestForNestedLogit(nest_param=Beta(f'mu{k}', mu, 1, 10, 0), list_of_alternatives=alts, name=f'n{k}'))
            elif how == 'Beta through parameters':
                nests.append(OneNestForNestedLogit(nest_param=Beta(f'mu{k}', 7.5, 1, 10, 0), list_of_alternatives=alts, name=f'n{k}'))
                params = dict(params or {}, **{f'mu{k}': mu})
            else:
                nests.append((Beta(f'mu{k}', mu, 1, 10, 0), alts))
        obj = NestsForNestedLogit(choice_set=list(order), tuple_of_nests=tuple(nests))
        ok_part, _ = obj.check_partition()
        kw = {}
        if params is not None:
            kw['parameters'] = params
        if names is not None:
            kw['alternatives_names'] = names
        if top != 1.0:
            kw['mu'] = top
        df = obj.correlation(**kw)
        n += 1
        show = dict(choice_set=order, nests=[(str(fr(ne['mu'])), ne['alts']) for ne in r['nests']], mu=top, names=names, how=how)
        if not ok_part:
            mism.append(dict(key='nests:partition', facts=dict(f, kind='partition'), detail=show))
        labels = [name_of[a] for a in order]
        if sorted(map(str, df.index)) != sorted(labels) or sorted(map(str, df.columns)) != sorted(labels):
            mism.append(dict(key='nests:labels', facts=dict(f, kind='labels'), detail=dict(show, got=[str(x) for x in df.index], want=labels)))
            continue
        bad = None
        for i, a in enumerate(order):
            for j, b in enumerate(order):
                g = float(df.loc[name_of[a], name_of[b]])
                if not close(g, want[i][j], rel=TOL_EXACT):
                    bad = bad or dict(pair=[name_of[a], name_of[b]], got=g, want=want[i][j])
        if bad:
            mism.append(dict(key='nests:value', facts=f, detail=dict(show, **bad, matrix=np.asarray(df).tolist())))
    return dict(n=n, mism=mism, cases=1, sample=dict(family='nests', **show, expected=want, observed=np.asarray(df).tolist()))
