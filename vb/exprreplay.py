"""Spec -> code: replay DAGs emitted by ExprLang into the real biogeme objects and compare
values (C01) and derivatives (C02) with the specification's expected observables."""

from __future__ import annotations

import numpy as np

from . import terms
from .exprenv import Builder, Pool, beta_dict, canonical
from .rt import close as _close

# The engine's normal CDF is only accurate to about 2e-9 in the upper tail (for x >= 6 it returns
# 1 + (1 - Phi(x))), so values are compared at 1e-8 relative.
VTOL = 1e-8


def close(a, b, rel=VTOL, abs_=0.0):
    return _close(a, b, rel=rel, abs_=abs_)

POOL: Pool | None = None
DB = None


def init(pool: Pool):
    global POOL, DB
    from . import exprenv

    POOL = pool
    DB = exprenv.database(pool)


def expected_values(rec):
    """-> [row][point] float or None when undefined."""
    out = []
    for row in rec['vals']:
        out.append([])
        for t in row:
            try:
                out[-1].append(float(terms.ev(t)))
            except terms.Undefined:
                out[-1].append(None)
    return out


def replay_values(rec) -> dict:
    """Every evaluation path of C01 on one DAG.  -> dict(mismatches=[...], n=...)"""
    pool = POOL
    nd = dict(number_of_draws=pool.ndraws) if pool.draws else {}
    mism = []
    n = 0
    root = rec['root']
    exp = expected_values(rec)
    rows = range(pool.nunits)
    shared = Builder(pool, rec['ops'], share=True).build(root)
    tree = Builder(pool, rec['ops'], share=False).build(root)
    for p in range(pool.npoints):
        betas = beta_dict(pool, p)
        want = [exp[r][p] for r in rows]
        if any(w is None or abs(w) > 1e60 for w in want):
            continue      # undefined or overflowing: outside the property's domain
        got = {}
        got['get_value_c'] = np.asarray(shared.get_value_c(database=DB, betas=betas, prepare_ids=True, **nd), dtype=float)
        got['get_value_c(tree)'] = np.asarray(tree.get_value_c(database=DB, betas=betas, prepare_ids=True, **nd), dtype=float)
        fo = shared.get_value_and_derivatives(
            betas=betas, database=DB, gradient=False, hessian=False, bhhh=False, aggregation=False, prepare_ids=True, **nd
        )
        got['get_value_and_derivatives.functions'] = np.asarray(fo.functions, dtype=float)
        agg = shared.get_value_and_derivatives(
            betas=betas, database=DB, gradient=False, hessian=False, bhhh=False, aggregation=True, prepare_ids=True, **nd
        )
        n += 4
        for path, arr in got.items():
            if len(arr) != len(want):
                mism.append(dict(path=path, point=p, what='length', got=arr.tolist(), want=want))
                continue
            for r in rows:
                if not close(arr[r], want[r]):
                    mism.append(dict(path=path, point=p, row=r, got=float(arr[r]), want=want[r]))
        if not close(float(agg.function), sum(want)):
            mism.append(dict(path='get_value_and_derivatives(aggregation).function', point=p, got=float(agg.function), want=sum(want)))
        # pure-Python evaluator, where it accepts the formula
        b = Builder(pool, rec['ops'], share=True, init_point=p)
        if b.py_accepts(root):
            e = b.build(root)
            v = float(e.get_value())
            n += 1
            if not close(v, want[0]):
                mism.append(dict(path='get_value', point=p, got=v, want=want[0]))
    return dict(mismatches=mism, n=n)


def expected_jets(rec):
    """-> [row][point] (g: list[K], h: list[K][K]) floats, or None if undefined."""
    out = []
    for row in rec['jets']:
        out.append([])
        for j in row:
            try:
                g = [float(terms.ev(t)) for t in j['g']]
                h = [[float(terms.ev(t)) for t in hr] for hr in j['h']]
                out[-1].append((g, h))
            except terms.Undefined:
                out[-1].append(None)
    return out


def _cmp_vec(mism, path, p, label, got, want, rel=1e-8):
    got = np.asarray(got, dtype=float)
    want = np.asarray(want, dtype=float)
    if got.shape != want.shape:
        mism.append(dict(path=path, point=p, what=f'{label} shape', got=list(got.shape), want=list(want.shape)))
        return
    scale = max(1.0, float(np.max(np.abs(want))) if want.size else 1.0)
    bad = np.argwhere(~(np.abs(got - want) <= rel * scale))
    if len(bad):
        idx = tuple(int(i) for i in bad[0])
        mism.append(dict(path=path, point=p, what=label, index=idx, got=float(got[idx]), want=float(want[idx]),
                         got_all=got.tolist(), want_all=want.tolist()))


def _huge(*arrays, limit=1e60) -> bool:
    return any(np.size(a) and float(np.max(np.abs(a))) > limit for a in arrays)


def replay_derivatives(rec) -> dict:
    """C02 on one differentiable DAG."""
    pool = POOL
    nd = dict(number_of_draws=pool.ndraws) if pool.draws else {}
    mism = []
    n = 0
    if not rec['diff']:
        return dict(mismatches=[], n=0)
    root = rec['root']
    vals = expected_values(rec)
    jets = expected_jets(rec)
    rows = range(pool.nunits)
    allnames = pool.free_names_sorted()
    occ = [k - 1 for k in rec['freeocc']]  # global ranks of the free parameters of this formula, in its own order
    names = [allnames[k] for k in occ]
    K = len(names)
    if K == 0:
        return dict(mismatches=[], n=0)
    e = Builder(pool, rec['ops'], share=True).build(root)
    for p in range(pool.npoints):
        if any(vals[r][p] is None or jets[r][p] is None for r in rows):
            continue
        betas = beta_dict(pool, p)
        f = np.array([vals[r][p] for r in rows])
        g = np.array([jets[r][p][0] for r in rows])[:, occ]
        h = np.array([jets[r][p][1] for r in rows])[:, occ, :][:, :, occ]
        if not (np.all(np.isfinite(g)) and np.all(np.isfinite(h))) or _huge(f, g, h):
            continue      # overflow is outside the property's domain
        bh = np.einsum('ri,rj->rij', g, g)
        # disaggregate
        d = e.get_value_and_derivatives(betas=betas, database=DB, gradient=True, hessian=True, bhhh=True,
                                        aggregation=False, prepare_ids=True, **nd)
        n += 1
        _cmp_vec(mism, 'disaggregate', p, 'functions', d.functions, f)
        _cmp_vec(mism, 'disaggregate', p, 'gradients', d.gradients, g)
        _cmp_vec(mism, 'disaggregate', p, 'hessians', d.hessians, h)
        _cmp_vec(mism, 'disaggregate', p, 'bhhhs', d.bhhhs, bh)
        # aggregate, every legal flag combination
        for (wg, wh, wb) in [(True, True, True), (True, False, False), (True, True, False), (True, False, True)]:
            a = e.get_value_and_derivatives(betas=betas, database=DB, gradient=wg, hessian=wh, bhhh=wb,
                                            aggregation=True, prepare_ids=True, **nd)
            n += 1
            path = f'aggregate(g={wg},h={wh},b={wb})'
            _cmp_vec(mism, path, p, 'function', [a.function], [f.sum()])
            _cmp_vec(mism, path, p, 'gradient', a.gradient, g.sum(axis=0))
            if wh:
                _cmp_vec(mism, path, p, 'hessian', a.hessian, h.sum(axis=0))
                hh = np.asarray(a.hessian, dtype=float)
                if hh.shape == (K, K) and not np.allclose(hh, hh.T, rtol=1e-12, atol=1e-12):
                    mism.append(dict(path=path, point=p, what='hessian not symmetric', got=hh.tolist()))
            elif a.hessian is not None and np.size(a.hessian):
                pass
            if wb:
                _cmp_vec(mism, path, p, 'bhhh', a.bhhh, bh.sum(axis=0))
        # named results: keyed by the right names
        na = e.get_value_and_derivatives(betas=betas, database=DB, gradient=True, hessian=True, bhhh=True,
                                         aggregation=True, prepare_ids=True, named_results=True, **nd)
        n += 1
        gs = g.sum(axis=0)
        hs = h.sum(axis=0)
        # named results per observation, with and without the Hessian
        for wh in (True, False):
            nd_ = e.get_value_and_derivatives(betas=betas, database=DB, gradient=True, hessian=wh, bhhh=True,
                                              aggregation=False, prepare_ids=True, named_results=True, **nd)
            n += 1
            path = f'named per observation (hessian={wh})'
            _cmp_vec(mism, path, p, 'functions', nd_.functions, f)
            if len(nd_.gradients) != len(f) or (wh and len(nd_.hessians) != len(f)) or len(nd_.bhhhs) != len(f):
                mism.append(dict(path=path, point=p, what='number of observations', got=[len(nd_.gradients), len(nd_.bhhhs)], want=len(f)))
                continue
            for r in rows:
                if set(nd_.gradients[r].keys()) != set(names):
                    mism.append(dict(path=path, point=p, what='gradient keys', got=sorted(nd_.gradients[r].keys()), want=names))
                    break
                _cmp_vec(mism, path, p, f'gradients[{r}]', [nd_.gradients[r][nm] for nm in names], g[r])
                _cmp_vec(mism, path, p, f'bhhhs[{r}]', [[nd_.bhhhs[r][a][b] for b in names] for a in names], bh[r])
                if wh:
                    _cmp_vec(mism, path, p, f'hessians[{r}]', [[nd_.hessians[r][a][b] for b in names] for a in names], h[r])
        if set(na.gradient.keys()) != set(names):
            mism.append(dict(path='named', point=p, what='gradient keys', got=sorted(na.gradient.keys()), want=names))
        else:
            for k, nm in enumerate(names):
                if not close(na.gradient[nm], gs[k], rel=1e-8, abs_=1e-8 * max(1.0, float(np.max(np.abs(gs))))):
                    mism.append(dict(path='named', point=p, what=f'gradient[{nm}]', got=float(na.gradient[nm]), want=float(gs[k])))
                for l, nm2 in enumerate(names):
                    if not close(na.hessian[nm][nm2], hs[k][l], rel=1e-8, abs_=1e-8 * max(1.0, float(np.max(np.abs(hs))))):
                        mism.append(dict(path='named', point=p, what=f'hessian[{nm}][{nm2}]',
                                         got=float(na.hessian[nm][nm2]), want=float(hs[k][l])))
    return dict(mismatches=mism, n=n)


def describe(rec) -> str:
    return canonical(rec['ops'], rec['root'], rec['nleaves'])


def replay_biogeme_derivatives(rec) -> dict:
    """C02 through BIOGEME.calculate_likelihood_and_derivatives, create_function and
    create_objective_function; the literal ids crossing the boundary must be 0..K-1."""
    import biogeme.biogeme as bio
    from . import boundary

    pool = POOL
    nd = dict(number_of_draws=pool.ndraws) if pool.draws else {}
    mism = []
    n = 0
    if not rec['diff'] or not rec['freeocc']:
        return dict(mismatches=[], n=0)
    root = rec['root']
    vals = expected_values(rec)
    jets = expected_jets(rec)
    rows = range(pool.nunits)
    allnames = pool.free_names_sorted()
    occ = [k - 1 for k in rec['freeocc']]
    names = [allnames[k] for k in occ]
    K = len(names)
    e = Builder(pool, rec['ops'], share=True).build(root)
    boundary.install()
    boundary.reset()
    b = bio.BIOGEME(DB, e, **nd)
    b.generate_html = False
    b.generate_pickle = False
    b.save_iterations = False
    if list(b.free_beta_names) != names:
        mism.append(dict(path='BIOGEME.free_beta_names', got=list(b.free_beta_names), want=names))
        return dict(mismatches=mism, n=1)
    e2 = Builder(pool, rec['ops'], share=True).build(root)
    fn = e2.create_function(database=DB, gradient=True, hessian=True, bhhh=True, **nd)
    # the expression is prepared again (it becomes the formula of an estimation object) AFTER the function was
    # created: the function must follow the expression's current numbering
    b_again = bio.BIOGEME(DB, e2, **nd)
    e3 = Builder(pool, rec['ops'], share=True).build(root)
    # with or without the BHHH option: f_g_h() returns value, gradient and the matrix of SECOND DERIVATIVES
    import zlib
    obj = (e3.create_objective_function(database=DB, bhhh=True, **nd) if zlib.crc32(repr(rec['ops']).encode()) % 2
           else e3.create_objective_function(database=DB, **nd))
    kept = []   # outputs kept while later evaluations are made: they must not change afterwards
    for p in range(pool.npoints):
        if any(vals[r][p] is None or jets[r][p] is None for r in rows):
            continue
        betas = beta_dict(pool, p)
        x = [betas[nm] for nm in names]
        f = np.array([vals[r][p] for r in rows])
        g = np.array([jets[r][p][0] for r in rows])[:, occ]
        h = np.array([jets[r][p][1] for r in rows])[:, occ, :][:, :, occ]
        if not (np.all(np.isfinite(g)) and np.all(np.isfinite(h))) or _huge(f, g, h):
            continue
        bh = np.einsum('ri,rj->rij', g, g)
        for scaled in (False, True):
            div = float(len(f)) if scaled else 1.0
            out = b.calculate_likelihood_and_derivatives(x, scaled=scaled, hessian=True, bhhh=True)
            n += 1
            path = f'BIOGEME.calculate_likelihood_and_derivatives(scaled={scaled})'
            kept.append((path + ' read again after later evaluations', p, out, f.sum() / div, g.sum(axis=0) / div, h.sum(axis=0) / div, bh.sum(axis=0) / div))
            _cmp_vec(mism, path, p, 'function', [out.function], [f.sum() / div])
            _cmp_vec(mism, path, p, 'gradient', out.gradient, g.sum(axis=0) / div)
            _cmp_vec(mism, path, p, 'hessian', out.hessian, h.sum(axis=0) / div)
            _cmp_vec(mism, path, p, 'bhhh', out.bhhh, bh.sum(axis=0) / div)
        # the caller may keep ONE array and update it in place between calls (a hand-written line search does)
        if p % 2 == 0 or 'x_shared' not in locals():
            x_shared = np.array(x, dtype=float)
        else:
            x_shared[:] = x
        res = fn(x_shared)
        n += 1
        _cmp_vec(mism, 'create_function', p, 'function', [res.function], [f.sum()])
        for k, nm in enumerate(names):
            if nm not in res.gradient:
                mism.append(dict(path='create_function', point=p, what=f'gradient lacks {nm}'))
                continue
            _cmp_vec(mism, 'create_function', p, f'gradient[{nm}]', [res.gradient[nm]], [g.sum(axis=0)[k]])
            for l, nm2 in enumerate(names):
                _cmp_vec(mism, 'create_function', p, f'hessian[{nm}][{nm2}]', [res.hessian[nm][nm2]], [h.sum(axis=0)[k][l]])
                _cmp_vec(mism, 'create_function', p, f'bhhh[{nm}][{nm2}]', [res.bhhh[nm][nm2]], [bh.sum(axis=0)[k][l]])
        obj.set_variables(np.array(x, dtype=float))
        fo = obj.f_g_h()
        if fo is not None:
            n += 1
            _cmp_vec(mism, 'create_objective_function', p, 'function', [fo.function], [f.sum()])
            _cmp_vec(mism, 'create_objective_function', p, 'gradient', fo.gradient, g.sum(axis=0))
            _cmp_vec(mism, 'create_objective_function', p, 'hessian', fo.hessian, h.sum(axis=0))
    for path, p, out, wf, wg, wh, wb in kept:
        _cmp_vec(mism, path, p, 'function', [out.function], [wf])
        _cmp_vec(mism, path, p, 'gradient', out.gradient, wg)
        _cmp_vec(mism, path, p, 'hessian', out.hessian, wh)
        _cmp_vec(mism, path, p, 'bhhh', out.bhhh, wb)
    for c in boundary.LOG:
        if c['call'] == 'calculateLikelihoodAndDerivatives':
            lit = list(c['args'][2]) if not isinstance(c['args'][2], list) else c['args'][2]
            if [int(v) for v in lit] != list(range(K)):
                mism.append(dict(path='boundary literalIds', got=lit, want=list(range(K))))
            if len(c['args'][0]) != K:
                mism.append(dict(path='boundary x length', got=len(c['args'][0]), want=K))
    boundary.reset()
    return dict(mismatches=mism, n=n)
