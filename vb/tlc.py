"""Running TLC and reading what it prints.

One entry point, :func:`run`, used by every check.  The specification modules
live in /verif/specs; generated modules (constants, trace data) and cfg files
go to a private scratch directory which is on the TLA-Library path so that a
generated root module can EXTEND the design modules.
"""

from __future__ import annotations

import json
import os
import re
import shutil
import subprocess
import tempfile
import time
from dataclasses import dataclass, field

SPECS = os.path.join(os.path.dirname(os.path.dirname(os.path.abspath(__file__))), 'specs')
JAR = '/opt/veriftools/tla/tla2tools.jar'
DEPS = '/opt/veriftools/tla/CommunityModules-deps.jar'


class MachineryError(Exception):
    """Something in the verification machinery itself failed (exit code 2)."""


@dataclass
class TlcResult:
    states: int = 0  # distinct states
    generated: int = 0  # states generated (= transitions explored + initial)
    depth: int = 0
    emitted: list = field(default_factory=list)  # decoded JSON objects printed by PrintT(ToJson(..))
    printed: list = field(default_factory=list)  # other PrintT lines
    violated: str | None = None  # name of violated invariant / property
    error: str | None = None  # evaluation error text (machinery)
    counterexample: str = ''
    wall_s: float = 0.0
    raw: str = ''
    coverage: dict = field(default_factory=dict)
    postcondition_failed: bool = False

    @property
    def transitions(self) -> int:
        return max(self.generated - 1, 0)

    @property
    def ok(self) -> bool:
        return self.violated is None and self.error is None and not self.postcondition_failed


_RE_STATES = re.compile(r'(\d+) states generated, (\d+) distinct states found')
_RE_SIM = re.compile(r'The number of states generated: (\d+)')
_RE_DEPTH = re.compile(r'The depth of the complete state graph search is (\d+)')
_RE_INV = re.compile(r'Invariant (\S+) is violated')
_RE_ACTPROP = re.compile(r'Action property (\S+) is violated')
_RE_TEMPORAL = re.compile(r'Temporal properties were violated')


def scratch_dir(prefix: str = 'vb-tlc-') -> str:
    base = os.environ.get('VERIF_SCRATCH', '/var/tmp')
    os.makedirs(base, exist_ok=True)
    return tempfile.mkdtemp(prefix=prefix, dir=base)


def _decode_printed(line: str):
    """PrintT(ToJson(x)) prints a TLA+ string literal holding JSON."""
    line = line.strip()
    if len(line) >= 2 and line[0] == '"' and line[-1] == '"':
        try:
            inner = json.loads(line)
        except ValueError:
            return None
        if isinstance(inner, str) and inner[:1] in '[{':
            try:
                return json.loads(inner)
            except ValueError:
                return None
    return None


def run(
    spec: str,
    cfg_text: str,
    *,
    extra_modules: dict[str, str] | None = None,
    workers: int | str = 'auto',
    simulate: dict | None = None,
    depth: int | None = None,
    seed: int | None = None,
    timeout: int = 1200,
    env: dict | None = None,
    deadlock: bool = False,
    dfs: bool = False,
    coverage: bool = False,
    keep: bool = False,
    heap: str = '6g',
    max_emitted: int | None = None,
) -> TlcResult:
    """Run TLC on module `spec` (a name under /verif/specs or a generated module).

    `extra_modules` maps module name -> text, written to the scratch directory
    (use it for generated root modules / constant modules).
    `simulate` = dict(num=..., ) switches to simulation mode.
    """
    work = scratch_dir()
    try:
        for name, text in (extra_modules or {}).items():
            with open(os.path.join(work, f'{name}.tla'), 'w') as f:
                f.write(text)
        if extra_modules and spec in extra_modules:
            spec_path = os.path.join(work, f'{spec}.tla')
        else:
            # copy the root next to the cfg so that TLC's metadir etc. stay in scratch
            spec_path = os.path.join(SPECS, f'{spec}.tla')
        cfg_path = os.path.join(work, f'{spec}__run.cfg')
        with open(cfg_path, 'w') as f:
            f.write(cfg_text)
        nworkers = os.cpu_count() if workers == 'auto' else workers
        cmd = [
            'java',
            f'-Xmx{heap}',
            '-XX:+UseParallelGC',
            '-Xss64m',          # deep recursive operators (jets of nested formulas) need more than the default stack
            f'-DTLA-Library={SPECS}{os.pathsep}{work}',
        ]
        if dfs:
            cmd.append('-Dtlc2.tool.queue.IStateQueue=StateDeque')
        cmd += ['-cp', f'{JAR}{os.pathsep}{DEPS}', 'tlc2.TLC']
        cmd += ['-metadir', os.path.join(work, 'meta'), '-noGenerateSpecTE', '-config', cfg_path]
        if not deadlock:
            cmd.append('-deadlock')  # "-deadlock" DISABLES deadlock checking
        if simulate is not None:
            sim = ','.join(f'{k}={v}' for k, v in simulate.items())
            cmd += ['-simulate', sim]
            if depth is not None:
                cmd += ['-depth', str(depth)]
        if seed is not None:
            cmd += ['-seed', str(seed)]
        if coverage:
            cmd += ['-coverage', '1']
        cmd += ['-workers', str(nworkers), spec_path]
        run_env = dict(os.environ)
        run_env.pop('JAVA_TOOL_OPTIONS', None)
        run_env.update(env or {})
        t0 = time.time()
        try:
            proc = subprocess.run(
                cmd, cwd=work, env=run_env, capture_output=True, text=True, timeout=timeout
            )
            out = proc.stdout + proc.stderr
            timed_out = False
        except subprocess.TimeoutExpired as e:
            out = (e.stdout.decode() if isinstance(e.stdout, bytes) else (e.stdout or '')) + '\n[vb] TLC timed out\n'
            timed_out = True
            subprocess.run(['pkill', '-f', work], check=False)
        res = TlcResult(raw=out, wall_s=time.time() - t0)
        for line in out.splitlines():
            obj = _decode_printed(line)
            if obj is not None:
                if max_emitted is None or len(res.emitted) < max_emitted:
                    res.emitted.append(obj)
                continue
            m = _RE_STATES.search(line)
            if m:
                res.generated, res.states = int(m.group(1)), int(m.group(2))
            m = _RE_SIM.search(line)
            if m:
                res.generated = int(m.group(1))
                res.states = max(res.states, int(m.group(1)))
            m = _RE_DEPTH.search(line)
            if m:
                res.depth = int(m.group(1))
            m = _RE_INV.search(line) or _RE_ACTPROP.search(line)
            if m:
                res.violated = m.group(1)
            if _RE_TEMPORAL.search(line):
                res.violated = res.violated or 'TemporalProperty'
            if 'Postcondition' in line and 'violated' in line or 'POSTCONDITION' in line and 'violated' in line:
                res.postcondition_failed = True
        if res.violated:
            idx = out.find('is violated')
            res.counterexample = out[idx : idx + 6000]
        if timed_out and simulate is None:
            res.error = 'timeout'
        elif res.violated is None and not res.postcondition_failed:
            if 'Error:' in out and not timed_out:
                idx = out.find('Error:')
                res.error = out[idx : idx + 3000]
            elif not timed_out and 'Model checking completed' not in out and 'Finished in' not in out and simulate is None:
                res.error = out[-3000:]
        if coverage:
            for m in re.finditer(r'<(\w+) line \d+, col \d+ to line \d+, col \d+ of module (\w+)>: (\d+):(\d+)', out):
                res.coverage[m.group(1)] = (int(m.group(3)), int(m.group(4)))
        return res
    finally:
        if not keep:
            shutil.rmtree(work, ignore_errors=True)


TLAPS_STDLIB = '/opt/veriftools/tlapm/lib/tlapm/stdlib'   # TLAPS.tla, for the proof modules


def sany(module_path: str) -> tuple[bool, str]:
    lib = SPECS + (os.pathsep + TLAPS_STDLIB if os.path.isdir(TLAPS_STDLIB) else '')
    cmd = [
        'java',
        f'-DTLA-Library={lib}',
        '-cp',
        f'{JAR}{os.pathsep}{DEPS}',
        'tla2sany.SANY',
        module_path,
    ]
    proc = subprocess.run(cmd, capture_output=True, text=True, cwd=os.path.dirname(module_path))
    out = proc.stdout + proc.stderr
    ok = proc.returncode == 0 and 'error' not in out.lower().replace('errors: 0', '')
    return ok, out


def tla_value(x) -> str:
    """Python value -> TLA+ literal (ints, bools, strings, lists->sequences, dicts->records,
    sets/frozensets->sets, tuples->sequences)."""
    if isinstance(x, bool):
        return 'TRUE' if x else 'FALSE'
    if isinstance(x, int):
        if abs(x) >= 2**31:
            raise MachineryError(f'integer {x} does not fit TLC')
        return str(x) if x >= 0 else f'({x})'
    if isinstance(x, str):
        return json.dumps(x)
    if isinstance(x, (list, tuple)):
        return '<<' + ', '.join(tla_value(v) for v in x) + '>>'
    if isinstance(x, (set, frozenset)):
        return '{' + ', '.join(sorted(tla_value(v) for v in x)) + '}'
    if isinstance(x, dict):
        if not x:
            raise MachineryError('empty record')
        return '[' + ', '.join(f'{k} |-> {tla_value(v)}' for k, v in x.items()) + ']'
    raise MachineryError(f'cannot convert {type(x)} to TLA+')
