"""Deep "flagship" formulas proposed to ExprLang from outside (constant Start): the shapes users actually
estimate -- mixed logit, on cross-sectional and on panel data -- which the enumeration of ExprLang cannot reach
(6 to 12 operators).  The proposals are NOT an oracle: the specification accepts a proposal only if every node is
inside its domain (ProposalOK) and computes the expected values and jets itself."""

from __future__ import annotations

import random

from .exprenv import BETAS, Pool

# leaves of both pools, by index
ONE, B1, B2, X, CH, AV, ZETA, ALPHA = 1, 2, 3, 4, 5, 6, 7, 8
NLEAVES = 8
LEAVES = [('num', '1'), ('beta', 1), ('beta', 2), ('var', 1), ('var', 2), ('var', 3), ('draw', 1), ('draw', 2)]


def pool_cross() -> Pool:
    """3 observations, 3 draws each; choice among alternatives 1 and 3, alternative 3 unavailable in one observation"""
    return Pool(
        betas=BETAS[:2], vars=[('x', ['1', '2', '1/2']), ('ch', ['1', '3', '1']), ('av', ['1', '1', '0'])], leaves=LEAVES,
        unops=['MonteCarlo', 'exp', 'log'], binops=['Plus', 'Times'], naryops=[],
        draws=[('zeta', 'TZ', [['1', '2', '1/2'], ['3', '1', '2'], ['1/2', '1/2', '3']]),
               ('alpha', 'TA', [['2', '1', '1'], ['1/2', '3', '1'], ['2', '2', '1/2']])],
        ndraws=3, bound=1000,
    )


def pool_panel() -> Pool:
    """4 observations of 2 individuals (3 + 1), 3 draws per individual"""
    return Pool(
        betas=BETAS[:2], vars=[('x', ['1', '2', '1/2', '3']), ('ch', ['1', '3', '3', '1']), ('av', ['1', '1', '1', '0'])], leaves=LEAVES,
        unops=['MonteCarlo', 'PanelLikelihoodTrajectory', 'exp', 'log'], binops=['Plus', 'Times'], naryops=[],
        draws=[('zeta', 'TZ', [['1', '2', '1/2'], ['3', '1', '2']]),
               ('alpha', 'TA', [['2', '1', '1'], ['1/2', '3', '1']])],
        ndraws=3, panel=[1, 1, 1, 2], bound=1000,
    )


class _B:
    """builds one proposal: a list of operator nodes, children by index (leaves 1..8, operators from 9)"""

    def __init__(self, rng, share):
        self.ops = []
        self.rng = rng
        self.share = share
        self.memo = {}

    def add(self, op, kids, num=(0, 1), keys=()):
        key = (op, tuple(kids), num, tuple(keys))
        if self.share and key in self.memo:
            return self.memo[key]
        self.ops.append(dict(op=op, kids=list(kids), num=num, keys=list(keys)))
        i = NLEAVES + len(self.ops)
        self.memo[key] = i
        return i

    def times(self, a, b):
        return self.add('Times', [a, b])

    def plus(self, a, b):
        return self.add('Plus', [a, b])


def utility(b: _B, kind: int, with_draws: bool):
    """a small catalogue of utility functions of the parameters, the column x and the draws"""
    z = ZETA if with_draws else ONE
    a = ALPHA if with_draws else ONE
    if kind == 0:      # b1*x + b2*zeta   (random constant)
        return b.plus(b.times(B1, X), b.times(B2, z))
    if kind == 1:      # (b1 + b2*zeta) * x   (random coefficient)
        return b.times(b.plus(B1, b.times(B2, z)), X)
    if kind == 2:      # b2*alpha*x
        return b.times(b.times(B2, a), X)
    if kind == 3:      # b1 + zeta*alpha*b2  (two draw variables in one term)
        return b.plus(B1, b.times(b.times(z, a), B2))
    if kind == 4:      # b1*x
        return b.times(B1, X)
    if kind == 5:      # zeta (a pure error component) or 1
        return z
    return b.add('bioMultSum', [b.times(B1, X), b.times(B2, z), a])   # three-term sum


def proposals(seed: int, n: int, panel: bool):
    rng = random.Random(seed * 2 + (1 if panel else 0))
    out, seen = [], set()
    tries = 0
    while len(out) < n and tries < 50 * n:
        tries += 1
        with_draws = rng.random() < 0.8 or not panel
        b = _B(rng, share=rng.random() < 0.7)
        k1, k3 = rng.randrange(7), rng.randrange(7)
        u1, u3 = utility(b, k1, with_draws), utility(b, k3, with_draws)
        form = rng.randrange(4)
        if form == 0:        # logit with availabilities
            ll = b.add('_bioLogLogit', [CH, u1, ONE, u3, AV], keys=[1, 3])
            p = b.add('exp', [ll])
        elif form == 1:      # logit over the full choice set
            ll = b.add('_bioLogLogitFullChoiceSet', [CH, u1, u3], keys=[1, 3])
            p = b.add('exp', [ll])
        elif form == 2:      # binary logit written by hand: 1 / (1 + exp(u3 - u1))
            d = b.add('Minus', [u3, u1])
            p = b.add('Divide', [ONE, b.plus(ONE, b.add('exp', [d]))])
        else:                # a positive kernel exp(-(u1 - u3)^2 / 8)... kept simple: exp(u1) / (exp(u1) + exp(u3))
            e1, e3 = b.add('exp', [u1]), b.add('exp', [u3])
            p = b.add('Divide', [e1, b.plus(e1, e3)])
        inner = p
        if panel:
            inner = b.add('PanelLikelihoodTrajectory', [p])
        has_draw = with_draws and any(k in (0, 1, 2, 3, 5, 6) for k in (k1, k3))
        if has_draw:
            if rng.random() < 0.25:     # a draw outside the trajectory but inside the integral
                inner = b.times(inner, ZETA)
            inner = b.add('MonteCarlo', [inner])
        elif not panel:
            continue
        wrap = rng.randrange(4)
        if wrap == 0:
            root = b.add('log', [inner])
        elif wrap == 1:
            root = inner
        elif wrap == 2:
            root = b.plus(b.add('log', [inner]), b.times(B1, B1) if not panel else b.times(B1, B2))
        else:
            root = b.times(b.add('log', [inner]), B2)
        key = repr(b.ops)
        if key in seen:
            continue
        seen.add(key)
        out.append(b.ops)
    return out
