"""C19 binding between Sampling.tla / SamplingTrace.tla and biogeme.sampling_of_alternatives.

code -> spec : ChoiceSetsGeneration.sample_and_merge is run on generated contexts (tables of
               alternatives, partitions, sample sizes, individuals) under seeds derived from the
               check's seed; every row of the returned table is recorded (ids in order, attributes,
               correction as the recovered reduced pair (k, n) and as hex, weights, combined
               variables) and judged by TLC, which infers the random draw.  TLC returns for each
               accepted row the exact corrected weights of the logit on THAT sample; the driver
               compares them with GenerateModel.get_logit() evaluated on the row.
spec -> code : the completely sampled instances TLC emits (with exact logit / nested logit
               likelihoods as terms) are replayed through sample_and_merge + GenerateModel and through
               the ordinary biogeme models on the full choice set.
"""

from __future__ import annotations

import concurrent.futures
import itertools
import json
import math
import os
import random
import re
import shutil
from fractions import Fraction

from . import terms, tlc
from .tlc import MachineryError

FAMS = ('a', 'axc')
COMB = ('prod', 'diff', 'sum')
MAXDEN = 64
CORR_TOL = 1e-12
LL_REL = 1e-9

# --------------------------------------------------------------------------- TLC side
DEFAULT_ALTS = [(3, 1, 4), (7, 2, 9), (10, 3, 0), (12, 4, 5), (15, 5, 2), (21, 2, 7), (22, 6, 1), (30, 1, 3)]
MODEL_INVARIANTS = ['TypeOK', 'PickedOK', 'Accepted', 'Protocol', 'FullEquiv']


def root_module(alts, xs, name='SamplingMC', extends='Sampling', extra='') -> str:
    tab = ' @@ '.join(f'{i} :> [a |-> {a}, c |-> {c}]' for i, a, c in alts)
    return (f'---- MODULE {name} ----\nEXTENDS {extends}\nG_AltTab == {tab}\n'
            f'G_Xs == <<{", ".join(map(str, xs))}>>\n{extra}====\n')


def cfg(mode: str, maxstrata: int, order: str, invariants, spec='Spec', overrides='') -> str:
    return (f'SPECIFICATION {spec}\nCONSTANTS\n AltTab <- G_AltTab\n Xs <- G_Xs\n MaxStrata = {maxstrata}\n'
            f' Mode = "{mode}"\n Order = "{order}"\n{overrides}' + ''.join(f'INVARIANT {i}\n' for i in invariants))


def run_model(mode, nalts, maxstrata, order, xs=(2,), workers='auto', timeout=1500, emit=False, heap='4g'):
    invs = list(MODEL_INVARIANTS)
    if mode == 'lemma':
        invs.append('AcceptanceIsMembership')
    if mode == 'full':
        invs.append('NamesNotInModel')
    if emit:
        invs.append('EmitInv')
    return tlc.run('SamplingMC', cfg(mode, maxstrata, order, invs),
                   extra_modules={'SamplingMC': root_module(DEFAULT_ALTS[:nalts], xs)}, workers=workers,
                   timeout=timeout, heap=heap)


def run_mutant_model(kind: str, timeout=300):
    """Model-level controls: a sampler that draws k alternatives BESIDES the chosen one / a row that
    carries the correction of the first stratum everywhere must violate the protocol invariants."""
    if kind == 'k-besides-chosen':
        extra = ('G_Min(x, y) == IF x < y THEN x ELSE y\n'
                 'G_CanSample(st, ch, S) == /\\ S \\subseteq st.sub /\\ (ch \\in st.sub => ch \\in S)\n'
                 '    /\\ Cardinality(S \\ {ch}) = G_Min(st.k, Cardinality(st.sub \\ {ch}))\n')
        over = ' CanSample <- G_CanSample\n'
        inv = ['Protocol']
    elif kind == 'first-stratum-correction':
        extra = ('G_Entry(in, x, id) == [id |-> id, a |-> I(in.alts[id].a), c |-> I(in.alts[id].c),\n'
                 '     corr |-> Corr(in.strata[1]), comb |-> Comb(x, in.alts[id])]\n')
        over = ' Entry <- G_Entry\n'
        inv = ['Protocol']
    elif kind == 'equivalence-claimed-for-partial-sampling':
        # FullEquiv must distinguish partial from complete sampling (it is not vacuous)
        extra = ('G_IsComplete(in) == TRUE\n')
        over = ' IsComplete <- G_IsComplete\n'
        inv = ['FullEquiv']
    else:
        raise MachineryError(kind)
    mod = root_module(DEFAULT_ALTS[:4], (2,), extra=extra)
    return tlc.run('SamplingMC', cfg('main', 2, 'blocks', inv, overrides=over), extra_modules={'SamplingMC': mod},
                   workers=2, timeout=timeout, heap='2g')


# --------------------------------------------------------------------------- instances
def ordered_partitions(ids, maxm):
    ids = list(ids)
    for m in range(1, maxm + 1):
        for g in itertools.product(range(m), repeat=len(ids)):
            if len(set(g)) == m:
                yield [[i for i, s in zip(ids, g) if s == b] for b in range(m)]


def size_vectors(part):
    return itertools.product(*[range(1, len(b) + 1) for b in part])


def make_instance(alts, strata, mev=None, xs=(2, 5, 3), shuffle=None):
    """alts: [(id, a, c)], strata/mev: [(ids, k)].  One individual per alternative (every choice)."""
    inds = [(alt[0], xs[i % len(xs)]) for i, alt in enumerate(sorted(alts))]
    return dict(alts=[list(a) for a in alts], strata=[dict(sub=sorted(s), k=k) for s, k in strata],
                mev=[dict(sub=sorted(s), k=k) for s, k in (mev or [])], hasmev=bool(mev), inds=[list(i) for i in inds])


def random_instance(rng: random.Random, nmin, nmax, maxid=40, mev_prob=0.5, maxstrata=3):
    n = rng.randint(nmin, nmax)
    ids = rng.sample(range(1, maxid + 1), n)
    alts = [(i, rng.randint(1, 5), rng.randint(0, 9)) for i in ids]
    m = rng.randint(1, min(maxstrata, n))
    while True:
        g = [rng.randrange(m) for _ in ids]
        if len(set(g)) == m:
            break
    part = [[i for i, s in zip(ids, g) if s == b] for b in range(m)]
    strata = [(b, rng.randint(1, len(b))) for b in part]
    mev = None
    if rng.random() < mev_prob:
        sub = rng.sample(ids, rng.randint(1, n))
        mm = rng.randint(1, min(3, len(sub)))
        while True:
            g = [rng.randrange(mm) for _ in sub]
            if len(set(g)) == mm:
                break
        mev = [([i for i, s in zip(sub, g) if s == b]) for b in range(mm)]
        mev = [(b, rng.randint(1, len(b))) for b in mev]
    rng.shuffle(alts)
    return make_instance(alts, strata, mev)


def n_draws(inst, choice) -> int:
    """Number of distinct samplings (as sets) the spec allows for one individual."""
    tot = 1
    for st in inst['strata']:
        inside = 1 if choice in st['sub'] else 0
        tot *= math.comb(len(st['sub']) - inside, st['k'] - inside)
    for st in inst['mev']:
        tot *= math.comb(len(st['sub']), st['k'])
    return tot


# --------------------------------------------------------------------------- real code
def _expressions(fam):
    from biogeme.expressions import Variable, log
    from biogeme.sampling_of_alternatives import CrossVariableTuple

    comb = [
        CrossVariableTuple('xc_prod', Variable('x') * Variable('c')),
        CrossVariableTuple('xc_diff', Variable('x') - Variable('c')),
        CrossVariableTuple('xc_sum', Variable('x') + Variable('c')),
    ]
    util = log(Variable('a')) if fam == 'a' else log(Variable('a') * Variable('xc_sum'))
    return util, comb


def build_context(inst, fam='a', raw=None, individuals=None, alternatives=None, cnl=None):
    """SamplingContext of the real library for an instance (raw = (segments, sizes, mev segments, mev sizes)
    overrides the partition as given, for the input-validation cases)."""
    import pandas as pd
    from biogeme.partition import Partition
    from biogeme.sampling_of_alternatives import SamplingContext

    if alternatives is None:
        alternatives = pd.DataFrame({'alt_id': [a[0] for a in inst['alts']], 'a': [a[1] for a in inst['alts']],
                                     'c': [a[2] for a in inst['alts']]})
    if individuals is None:
        individuals = pd.DataFrame({'choice': [i[0] for i in inst['inds']], 'x': [i[1] for i in inst['inds']]})
    util, comb = _expressions(fam)
    if raw is None:
        segs = [set(s['sub']) for s in inst['strata']]
        ks = [s['k'] for s in inst['strata']]
    else:
        segs, ks = [set(s) for s in raw[0]], list(raw[1])
    full = set().union(*segs) if segs else set()
    mevp = mevk = None
    if inst.get('hasmev'):
        msegs = [set(s['sub']) for s in inst['mev']]
        mevp = Partition(msegs, full_set=set().union(*msegs))
        mevk = [s['k'] for s in inst['mev']]
    fname = os.path.join(os.getcwd(), f'c19_{os.getpid()}.dat')
    ctx = SamplingContext(
        the_partition=Partition(segs, full_set=full) if full else Partition(segs),
        sample_sizes=ks,
        individuals=individuals,
        choice_column='choice',
        alternatives=alternatives,
        id_column='alt_id',
        biogeme_file_name=fname,
        utility_function=util,
        combined_variables=comb,
        mev_partition=mevp,
        mev_sample_sizes=mevk,
        cnl_nests=cnl,
    )
    return ctx


def _fr(v):
    """float -> exact [num, den]; [0, 0] (no number) when it is not finite or does not fit."""
    try:
        f = Fraction(float(v))
    except (ValueError, OverflowError, TypeError):
        return [0, 0]
    if abs(f.numerator) >= 2**30 or f.denominator >= 2**30:
        return [0, 0]
    return [f.numerator, f.denominator]


def recover_corr(v) -> list:
    """The reduced pair (k, n), n <= MAXDEN, with ln(k/n) = v (within CORR_TOL); [0, 0] if there is none."""
    try:
        v = float(v)
        if not math.isfinite(v) or v > 1e-9:
            return [0, 0]
        f = Fraction(math.exp(v)).limit_denominator(MAXDEN)
        if f <= 0 or abs(math.log(f) - v) > CORR_TOL:
            return [0, 0]
        return [f.numerator, f.denominator]
    except (ValueError, OverflowError, TypeError):
        return [0, 0]


def recover_weight(v) -> list:
    """The reduced pair (n, k), k <= MAXDEN, with n/k = v within a relative CORR_TOL (a table re-read from
    the CSV file is 1 ulp off; two such fractions differ by at least 1/MAXDEN^2); [0, 0] if there is none."""
    try:
        v = float(v)
        if not math.isfinite(v) or v < 1.0 - 1e-9:
            return [0, 0]
        f = Fraction(v).limit_denominator(MAXDEN)
        if abs(f.numerator / f.denominator - v) > CORR_TOL * abs(v):
            return [0, 0]
        return [f.numerator, f.denominator]
    except (ValueError, OverflowError, TypeError):
        return [0, 0]


def _as_id(v) -> int:
    try:
        f = float(v)
        if f == int(f) and abs(f) < 2**30:
            return int(f)
    except (ValueError, OverflowError, TypeError):
        pass
    return -1


def extract_rows(df, inst) -> list:
    """One event per row of the generated table."""
    cols = set(df.columns)
    npos = 1 + max([int(m.group(1)) for c in cols for m in [re.fullmatch(r'alt_id_(\d+)', c)] if m], default=-1)
    nmev = 1 + max([int(m.group(1)) for c in cols for m in [re.fullmatch(r'_MEV_alt_id_(\d+)', c)] if m], default=-1)
    events = []
    for r in range(len(df)):
        rec = df.iloc[r]

        def get(name):
            return rec[name] if name in cols else float('nan')

        row = []
        for j in range(npos):
            v = get(f'_log_proba_{j}')
            e = dict(id=_as_id(get(f'alt_id_{j}')), a=_fr(get(f'a_{j}')), c=_fr(get(f'c_{j}')), corr=recover_corr(v),
                     corrhex=float(v).hex() if v == v else 'nan')
            for f in COMB:
                e[f] = _fr(get(f'xc_{f}_{j}'))
            row.append(e)
        mrow = []
        for j in range(nmev):
            v = get(f'_MEV__mev_weight_{j}')
            e = dict(id=_as_id(get(f'_MEV_alt_id_{j}')), a=_fr(get(f'_MEV_a_{j}')), c=_fr(get(f'_MEV_c_{j}')),
                     w=recover_weight(v), whex=float(v).hex() if v == v else 'nan')
            for f in COMB:
                e[f] = _fr(get(f'_MEV_xc_{f}_{j}'))
            mrow.append(e)
        ch, x = inst['inds'][r]
        ev = dict(kind='row', choice=ch, x=x, ochoice=_fr(get('choice')), ox=_fr(get('x')), row=row, hasm=bool(mrow))
        if not row:
            raise MachineryError('generated table without any alt_id_<j> column')
        if mrow:
            ev['mrow'] = mrow
        events.append(ev)
    return events


VARIANTS = ('plain', 'float', 'index', 'recycled')


def record_instance(item):
    """Run the real sample_and_merge once on an instance (seeded) -> inst event, row events, and the
    per-row values of GenerateModel.get_logit() for both utility families.
    variant: 'plain'; 'float' = id and choice columns of dtype float; 'index' = tables with non-default
    (reversed / repeated) index labels; 'recycled' = the table is generated, then read back through
    sample_and_merge(recycle=True) and the re-read table is the one recorded."""
    import numpy as np
    import pandas as pd
    from biogeme.sampling_of_alternatives import ChoiceSetsGeneration, GenerateModel

    inst, seed = item[0], item[1]
    variant = item[2] if len(item) > 2 else 'plain'
    np.random.seed(seed % (2**32))
    alternatives = pd.DataFrame({'alt_id': [a[0] for a in inst['alts']], 'a': [a[1] for a in inst['alts']],
                                 'c': [a[2] for a in inst['alts']]})
    individuals = pd.DataFrame({'choice': [i[0] for i in inst['inds']], 'x': [i[1] for i in inst['inds']]})
    if variant == 'float':
        alternatives['alt_id'] = alternatives['alt_id'].astype(float)
        individuals['choice'] = individuals['choice'].astype(float)
    elif variant == 'index':
        alternatives.index = [100 - 3 * i for i in range(len(alternatives))]
        individuals.index = [7 * (i // 2) for i in range(len(individuals))][::-1]
    ctx = build_context(inst, 'a', individuals=individuals, alternatives=alternatives)
    gen = ChoiceSetsGeneration(ctx)
    db = gen.sample_and_merge(recycle=False)
    note = ''
    if variant == 'recycled':
        db2 = gen.sample_and_merge(recycle=True)
        same = (list(db2.data.columns) == list(db.data.columns) and len(db2.data) == len(db.data)
                # pandas.read_csv's default float parser is not round-trip exact (1 ulp on the corrections)
                and bool(np.allclose(db2.data.to_numpy(dtype=float), db.data.to_numpy(dtype=float), rtol=1e-12, atol=1e-12)))
        note = '' if same else 'recycled-differs'
        db = db2
    try:
        os.remove(ctx.biogeme_file_name)
    except OSError:
        pass
    rows = extract_rows(db.data, inst)
    if len(rows) != len(inst['inds']):
        raise MachineryError('number of generated rows differs from the number of individuals')
    lik = {}
    for fam in FAMS:
        c = ctx if fam == 'a' else build_context(inst, fam, individuals=individuals, alternatives=alternatives)
        lp = GenerateModel(c).get_logit()
        lik[fam] = [float(v) for v in lp.get_value_c(database=db, prepare_ids=True)]
    iev = dict(kind='inst', alts=inst['alts'], strata=inst['strata'], hasmev=inst['hasmev'])
    if inst['hasmev']:
        iev['mev'] = inst['mev']
    return dict(inst=iev, rows=rows, lik=lik, seed=seed, variant=variant, note=note)


# --------------------------------------------------------------------------- input validation
def input_cases(rng: random.Random, n_valid: int, per_kind: int):
    """Raw inputs: (label, ids, segments, sizes, choices).  Invalid ones are single mutations of a valid one."""
    out = []

    def base():
        n = rng.randint(3, 7)
        ids = rng.sample(range(1, 30), n)
        m = rng.randint(1, min(3, n - 1))
        while True:
            g = [rng.randrange(m) for _ in ids]
            if len(set(g)) == m:
                break
        segs = [[i for i, s in zip(ids, g) if s == b] for b in range(m)]
        ks = [rng.randint(1, len(b)) for b in segs]
        choices = [rng.choice(ids) for _ in range(2)]
        return ids, segs, ks, choices

    for _ in range(n_valid):
        out.append(('valid',) + base())
    for _ in range(per_kind):
        ids, segs, ks, choices = base()
        big = max(range(len(segs)), key=lambda s: len(segs[s]))
        # an alternative of the table is in no stratum; the individuals chose alternatives that are covered
        if len(segs[big]) >= 2:
            s2 = [list(b) for b in segs]
            gone = s2[big].pop()
            k2 = [min(k, len(b)) for k, b in zip(ks, s2)]
            cov = [i for b in s2 for i in b]
            out.append(('not-covering', ids, s2, k2, [rng.choice(cov) for _ in range(2)]))
            out.append(('not-covering-chosen', ids, s2, k2, [gone, rng.choice(cov)]))
        if len(segs) >= 2:
            # fewer sizes than segments: the last stratum silently gets no size
            cov = [i for b in segs[:-1] for i in b]
            out.append(('fewer-sizes', ids, segs, ks[:-1], [rng.choice(cov) for _ in range(2)]))
            s2 = [list(b) for b in segs]
            s2[1].append(s2[0][0])
            out.append(('overlap', ids, s2, ks, choices))
        if len(segs) >= 3:
            # the two strata that share an alternative are not neighbours in the list
            s2 = [list(b) for b in segs]
            s2[-1].append(s2[0][0])
            out.append(('overlap', ids, s2, ks, choices))
        out.append(('empty-stratum', ids, segs + [[]], ks + [1], choices))
        s2 = [list(b) for b in segs]
        s2[0].append(99)
        out.append(('unknown-alternative', ids, s2, ks, choices))
        k2 = list(ks)
        k2[rng.randrange(len(ks))] = 0
        out.append(('size-zero', ids, segs, k2, choices))
        k2 = list(ks)
        s = rng.randrange(len(ks))
        k2[s] = len(segs[s]) + 1
        out.append(('size-too-large', ids, segs, k2, choices))
        out.append(('unknown-choice', ids, segs, ks, [choices[0], 77]))
    return out


def run_input_case(case):
    """-> 'accepted' | ('rejected', type) | ('crashed', type, message): the reaction of the real code."""
    import numpy as np
    import pandas as pd
    from biogeme.exceptions import BiogemeError
    from biogeme.sampling_of_alternatives import ChoiceSetsGeneration

    label, ids, segs, ks, choices = case
    np.random.seed(12345)
    inst = dict(alts=[[i, 1 + (i % 5), i % 7] for i in ids], hasmev=False, inds=[[c, 2] for c in choices])
    try:
        ctx = build_context(inst, 'a', raw=(segs, ks))
        ChoiceSetsGeneration(ctx).sample_and_merge(recycle=False)
        try:
            os.remove(ctx.biogeme_file_name)
        except OSError:
            pass
    except (BiogemeError, ValueError) as e:
        # Partition documents ValueError for segments that are not a partition; everything else is BiogemeError
        return ('rejected', type(e).__name__, str(e)[:200])
    except Exception as e:  # noqa
        return ('crashed', type(e).__name__, str(e)[:200])
    return ('accepted', '', '')


def input_event(case, outcome) -> dict:
    label, ids, segs, ks, choices = case
    return dict(kind='input', label=label, ids=[0] + list(ids), segs=[[0]] + [[0] + list(s) for s in segs],
                ks=[0] + list(ks), choices=[0] + list(choices), outcome=outcome[0], exc=outcome[1], msg=outcome[2])


# --------------------------------------------------------------------------- trace validation
def _strip(ev):
    return {k: v for k, v in ev.items() if not k.startswith('_')}


def validate(groups, parts=8, timeout=900, jvms=16):
    """groups: list of event lists (an `inst` event followed by its rows, or single input events);
    every event must carry a unique `tid`.  -> ({tid: verdict record}, [TlcResult])"""
    groups = [g for g in groups if g]
    if not groups:
        return {}, []
    parts = max(1, min(parts, len(groups)))
    bins = [[] for _ in range(parts)]
    load = [0] * parts
    for g in sorted(groups, key=len, reverse=True):
        k = load.index(min(load))
        bins[k] += g
        load[k] += len(g)
    work = tlc.scratch_dir('vb-strace-')
    mod = root_module(DEFAULT_ALTS[:2], (2,), name='SamplingTraceMC', extends='SamplingTrace')
    cfg_text = cfg('main', 1, 'any', ['Progress'], spec='TraceSpec')
    try:
        def one(k):
            path = os.path.join(work, f'trace{k}.json')
            with open(path, 'w') as f:
                json.dump([_strip(e) for e in bins[k]], f)
            for attempt in range(3):
                res = tlc.run('SamplingTraceMC', cfg_text, extra_modules={'SamplingTraceMC': mod}, workers=1,
                              env={'TRACE_FILE': path}, timeout=timeout, heap='2g')
                # another agent's cleanup can kill a JVM: retry when there is neither an error nor a verdict
                if res.error and 'Error:' not in res.raw and not res.emitted:
                    continue
                break
            return res

        with concurrent.futures.ThreadPoolExecutor(max_workers=jvms) as ex:
            results = list(ex.map(one, range(parts)))
        verdicts = {}
        for res in results:
            for o in res.emitted:
                if isinstance(o, dict) and 'tid' in o:
                    verdicts[o['tid']] = o
        return verdicts, results
    finally:
        shutil.rmtree(work, ignore_errors=True)


def row_ok(v) -> bool:
    return v is not None and v.get('verdict') == 'ok' and not v.get('fails') and v.get('drawn') is True


def spec_logprob(v, fam):
    """log of the chosen alternative's probability on the sample, from the exact terms TLC returned."""
    c, t = v['lik'][fam]['c'], v['lik'][fam]['t']
    return math.log(Fraction(c[0], c[1]) / Fraction(t[0], t[1]))


# --------------------------------------------------------------------------- spec -> code (complete sampling)
def _full_database(rec):
    import pandas as pd
    from biogeme.database import Database

    d = pd.DataFrame({'choice': [i[0] for i in rec['inds']], 'x': [i[1] for i in rec['inds']]})
    for i, a, c in rec['alts']:
        d[f'a_{i}'] = a
        d[f'c_{i}'] = c
    return Database('full', d.astype(float))


def _full_utilities(rec, fam):
    from biogeme.expressions import Variable, log

    if fam == 'a':
        return {i: log(Variable(f'a_{i}')) for i, _, _ in rec['alts']}
    return {i: log(Variable(f'a_{i}') * (Variable('x') + Variable(f'c_{i}'))) for i, _, _ in rec['alts']}


def _nests(spec, ids, names=None):
    """Fresh nest objects (the library writes default names into them).  names: the labelling emitted by the
    spec, '' = the nest is left unnamed (name=None, the library's default applies)."""
    from biogeme.expressions import Beta
    from biogeme.nests import NestsForNestedLogit, OneNestForNestedLogit

    names = names if names is not None else [''] * len(spec)
    return NestsForNestedLogit(
        choice_set=list(ids),
        tuple_of_nests=tuple(
            OneNestForNestedLogit(nest_param=Beta(f'mu_{k}', float(n['mu']), None, None, 1), list_of_alternatives=list(n['sub']),
                                  name=names[k] or None)
            for k, n in enumerate(spec)
        ),
    )


def _cnl_nests(spec, ids, names=None):
    from biogeme.expressions import Beta
    from biogeme.nests import NestsForCrossNestedLogit, OneNestForCrossNestedLogit

    names = names if names is not None else [''] * len(spec)
    return NestsForCrossNestedLogit(
        choice_set=list(ids),
        tuple_of_nests=tuple(
            OneNestForCrossNestedLogit(nest_param=Beta(f'cmu_{k}', float(n['mu']), None, None, 1),
                                       dict_of_alpha={i: num / den for i, num, den in n['alpha'] if num != 0}, name=names[k] or None)
            for k, n in enumerate(spec)
        ),
    )


NAMING_KINDS = ('default', 'same', 'default-clash', 'distinct', 'default-clash-reverse')


def _namings(part, pick):
    """The labellings of one nest structure to replay: the default one always; pick = 'all' or a number that
    selects ONE further labelling (rotating, so that all kinds are met over the instances)."""
    nm = part['namings']
    if [x['kind'] for x in nm] != list(NAMING_KINDS):
        raise MachineryError(f"unexpected labellings emitted by the spec: {[x['kind'] for x in nm]}")
    if pick == 'all':
        return nm
    return [nm[0], nm[1 + pick % (len(nm) - 1)]]


def _name_keyed_nested_logit(self, nests):
    """WRONG CODE for a negative control: GenerateModel.get_nested_logit with the MEV sums filed under the NAME
    of the nest (two nests of the same name share the sum of the one defined last)."""
    from biogeme.expressions import BelongsTo, ConditionalSum, ConditionalTermTuple, Variable, exp, log
    from biogeme.models import loglogit
    from biogeme.sampling_of_alternatives.sampling_context import LOG_PROBA_COL, MEV_WEIGHT

    sums = {}
    for nest in nests:
        terms_ = []
        for i, utility in self.mev_utilities.items():
            alt = Variable(f'{self.mev_prefix}{self.context.id_column}_{i}')
            weight = Variable(f'{self.mev_prefix}{MEV_WEIGHT}_{i}')
            terms_.append(ConditionalTermTuple(condition=BelongsTo(alt, set(nest.list_of_alternatives)),
                                               term=weight * exp(nest.nest_param * utility)))
        sums[nest.name] = ConditionalSum(terms_)
    corrected = {}
    for i, utility in self.utilities.items():
        alt = Variable(f'{self.context.id_column}_{i}')
        terms_ = []
        for nest in nests:
            mu = nest.nest_param
            terms_.append(ConditionalTermTuple(condition=BelongsTo(alt, set(nest.list_of_alternatives)),
                                               term=(mu - 1.0) * utility + ((1.0 / mu) - 1.0) * log(sums[nest.name])))
        corrected[i] = utility - Variable(f'{LOG_PROBA_COL}_{i}') + ConditionalSum(terms_)
    return loglogit(corrected, None, 0)


def replay_full(item):
    """Replay one completely sampled instance emitted by TLC.  -> dict(problems=[(key, detail, facts)], n=..)."""
    import numpy as np
    import biogeme.biogeme as bio
    from biogeme.models import logcnl, loglogit, lognested
    from biogeme.expressions import Variable
    from biogeme.sampling_of_alternatives import ChoiceSetsGeneration, GenerateModel

    rec, seed, mutate = item[:3]
    pick = item[3] if len(item) > 3 else 0
    np.random.seed(seed % (2**32))
    inst = dict(alts=rec['alts'], strata=rec['strata'], mev=rec['mev'], hasmev=rec['hasmev'], inds=rec['inds'])
    problems = []
    n = 0
    namings = {}  # (model, kind) -> [equal, refused]

    def tally(model, kind, what):
        namings.setdefault(f'{model}:{kind}', [0, 0])[0 if what == 'equal' else 1] += 1

    ctx = build_context(inst, 'a')
    db = ChoiceSetsGeneration(ctx).sample_and_merge(recycle=False)
    try:
        os.remove(ctx.biogeme_file_name)
    except OSError:
        pass
    if mutate == 'halve-one-correction':
        db.data['_log_proba_0'] = db.data['_log_proba_0'] + math.log(0.5)
    if mutate == 'name-keyed-nested':
        GenerateModel.get_nested_logit = _name_keyed_nested_logit
    fdb = _full_database(rec)
    ids = [a[0] for a in rec['alts']]
    shape = dict(strata=[len(s['sub']) for s in rec['strata']], hasmev=rec['hasmev'])

    def compare(key, fam, got, want_terms, want_ll, facts):
        nonlocal n
        want = [terms.evf({'k': 'f', 'f': 'log', 'a': [p]}) for p in want_terms]
        for r, (g, w) in enumerate(zip(got, want)):
            n += 1
            if not _close(g, w):
                problems.append((key, dict(fam=fam, row=r, individual=rec['inds'][r], got=g, expected=w, instance=inst,
                                           nest_names=facts.get('names')),
                                 dict(facts, fam=fam)))
                return False
        tot = terms.evf(want_ll)
        n += 1
        if not _close(float(np.sum(got)), tot):
            problems.append((key + ':total', dict(fam=fam, got=float(np.sum(got)), expected=tot, instance=inst), dict(facts, fam=fam)))
            return False
        return True

    def attempt(key, fam, naming, facts, build, want, structure):
        """Evaluate one model built by `build` under one labelling of its nests; the value must be the spec's; the
        library's own refusal (BiogemeError) is admissible only where the spec says the labelling may be refused."""
        nonlocal n
        facts = dict(facts, naming=naming['kind'], names=list(naming['names']))
        try:
            got = build()
        except Exception as e:  # noqa
            n += 1
            if type(e).__name__ == 'BiogemeError' and naming['may_refuse']:
                tally(key, naming['kind'], 'refused')
                return
            problems.append((f'full:{key}:exception',
                             dict(fam=fam, nests=structure, nest_names=naming['names'], error=f'{type(e).__name__}: {str(e)[:200]}', instance=inst),
                             dict(facts, fam=fam, exception=type(e).__name__)))
            return
        if compare(f'full:{key}', fam, got, want['p'], want['ll'], facts):
            tally(key, naming['kind'], 'equal')

    for fk, fam in enumerate(FAMS):
        c = ctx if fam == 'a' else build_context(inst, fam)
        gm = GenerateModel(c)
        lp = gm.get_logit()
        got = [float(v) for v in lp.get_value_c(database=db, prepare_ids=True)]
        compare('full:sampled-logit', fam, got, rec['logit'][fam]['p'], rec['logit'][fam]['ll'], dict(clause='sampled-logit', **shape))
        # the likelihood as BIOGEME computes it on the generated database
        the_biogeme = bio.BIOGEME(db, gm.get_logit())
        ll = float(the_biogeme.calculate_init_likelihood())
        n += 1
        if not _close(ll, terms.evf(rec['logit'][fam]['ll'])):
            problems.append(('full:sampled-logit:biogeme', dict(fam=fam, got=ll, expected=terms.evf(rec['logit'][fam]['ll']), instance=inst),
                             dict(clause='sampled-logit', fam=fam, **shape)))
        full = loglogit(_full_utilities(rec, fam), None, Variable('choice'))
        gotf = [float(v) for v in full.get_value_c(database=fdb, prepare_ids=True)]
        compare('full:full-logit', fam, gotf, rec['logit'][fam]['p'], rec['logit'][fam]['ll'], dict(clause='full-logit', **shape))
        for q, ns in enumerate(rec['nested']):
            if not rec['hasmev'] and (q > 0 or fam != 'a'):
                continue  # one representative of the "no second sample" configuration per instance
            todo = _namings(ns, pick if pick == 'all' else pick + fk + 2 * q) if rec['hasmev'] else ns['namings'][:1]
            for naming in todo:
                def sampled(naming=naming):
                    lpn = GenerateModel(c).get_nested_logit(_nests(ns['nests'], ids, naming['names']))
                    return [float(v) for v in lpn.get_value_c(database=db, prepare_ids=True)]

                def on_full(naming=naming):
                    fulln = lognested(_full_utilities(rec, fam), None, _nests(ns['nests'], ids, naming['names']), Variable('choice'))
                    return [float(v) for v in fulln.get_value_c(database=fdb, prepare_ids=True)]

                attempt('sampled-nested', fam, naming, dict(clause='sampled-nested', second_sample=rec['hasmev'], **shape), sampled,
                        ns['fams'][fam], ns['nests'])
                attempt('full-nested', fam, naming, dict(clause='full-nested', **shape), on_full, ns['fams'][fam], ns['nests'])
    # cross-nested logit (needs the second sample; without one the configuration fails like the nested logit)
    if rec['hasmev'] and mutate is None:
        cn = rec['cnl']
        for fk, fam in enumerate(FAMS):
            for naming in _namings(cn, pick if pick == 'all' else pick + fk + 1):
                def sampled(naming=naming):
                    cctx = build_context(inst, fam, cnl=_cnl_nests(cn['nests'], ids, naming['names']))
                    try:
                        cdb = ChoiceSetsGeneration(cctx).sample_and_merge(recycle=False)
                    finally:
                        try:
                            os.remove(cctx.biogeme_file_name)
                        except OSError:
                            pass
                    lpc = GenerateModel(cctx).get_cross_nested_logit()
                    return [float(v) for v in lpc.get_value_c(database=cdb, prepare_ids=True)]

                def on_full(naming=naming):
                    fullc = logcnl(_full_utilities(rec, fam), None, _cnl_nests(cn['nests'], ids, naming['names']), Variable('choice'))
                    return [float(v) for v in fullc.get_value_c(database=fdb, prepare_ids=True)]

                attempt('sampled-cnl', fam, naming, dict(clause='sampled-cnl', second_sample=True, **shape), sampled, cn['fams'][fam], cn['nests'])
                attempt('full-cnl', fam, naming, dict(clause='full-cnl', **shape), on_full, cn['fams'][fam], cn['nests'])
    return dict(problems=problems, n=n, namings=namings)


def _close(a, b, rel=LL_REL):
    if a != a or b != b:
        return False
    if abs(a) == float('inf') or abs(b) == float('inf'):
        return a == b
    return abs(a - b) <= rel * max(1.0, abs(a), abs(b))
