"""C11 binding between DrawTypes.tla / DrawTypesTrace.tla and biogeme's native draw catalogue.

spec -> code : the Halton behaviours TLC emits (exact rationals, or probit(rational) for the
               normal entries) are compared with native_random_number_generators[name].generator.
code -> spec : arrays produced by every entry are recorded as observations (shape, support flags,
               hex values, advertised mirror, 2x-1 of the unit entry under the same random
               stream, strata of the generated part, quantile flags) and judged by TLC.
The numeric accuracy of the normal quantile is an axiom check of the primitive `probit`
(Phi(z) = u with math.erfc); TLC only requires the flags.
"""

from __future__ import annotations

import json
import math
import os
import shutil
from fractions import Fraction

from . import tlc
from .tlc import MachineryError

SQRT2 = math.sqrt(2.0)
#: relative error allowed on the nearer tail probability, scaled by max(1, z^2) (the condition
#: number of p with respect to a relative perturbation of z): the reference AS241 and the
#: correct branches of the code stay below 1.1e-15 on 500k samples.
QTOL = 2e-14
HALTON_TOL = 1e-14
LOW_EDGE = 0.075      # below: AS241 tail branch is the right one (|u - 0.5| > 0.425)
MID_LO, MID_HI = 0.45, 0.925


# --------------------------------------------------------------------------- TLC side
def root_module(sizes, rand_sizes, name='DrawTypesMC', extends='DrawTypes', catalogue=True, extra='') -> str:
    def s(xs):
        return '{' + ', '.join(f'<<{a}, {b}>>' for a, b in sorted(set(xs))) + '}'

    return (f'---- MODULE {name} ----\nEXTENDS {extends}\nG_Sizes == {s(sizes)}\nG_RandSizes == {s(rand_sizes)}\n'
            + extra + ('ASSUME EmitCatalogue\n' if catalogue else '') + '====\n')


MODEL_INVARIANTS = ['TypeOK', 'Accepted', 'RadInvExact', 'DistinctBases', 'MirrorLaws', 'CatalogueOK']


def cfg(den: int, maxg: int, invariants, spec='Spec', overrides: str = '') -> str:
    inv = '\n'.join(f'INVARIANT {i}' for i in invariants)
    return (f'SPECIFICATION {spec}\nCONSTANTS\n Sizes <- G_Sizes\n RandSizes <- G_RandSizes\n Den = {den}\n MaxG = {maxg}\n'
            f'{overrides}{inv}\n')


def run_model(sizes, rand_sizes, den, maxg, emit=True, timeout=1500):
    invs = MODEL_INVARIANTS + (['EmitInv'] if emit else [])
    return tlc.run('DrawTypesMC', cfg(den, maxg, invs), extra_modules={'DrawTypesMC': root_module(sizes, rand_sizes)},
                   workers='auto', timeout=timeout)


def run_mutant_model(timeout=300):
    """Model-level control (this is the defect of the unchanged tree, planted in the model): a generator
    model in which every normal Halton entry uses base 2 while the catalogue keeps advertising 2, 3, 5
    must violate DistinctBases."""
    extra = ('G_MutUnderlying(e, nn, RR) ==\n'
             '    IF e.fam = "halton" THEN {[k \\in 1..GLen(e, nn, RR) |-> RadInv(e.skip + k, IF e.normal THEN 2 ELSE e.base)]}\n'
             '    ELSE {[k \\in 1..GLen(e, nn, RR) |-> Zero]}\n')
    mod = root_module([(1, 7)], [(1, 1)], catalogue=False, extra=extra)
    return tlc.run('DrawTypesMC', cfg(2, 1, ['DistinctBases'], overrides=' Underlying <- G_MutUnderlying\n'),
                   extra_modules={'DrawTypesMC': mod}, workers=1, timeout=timeout)


def split_emitted(res):
    cat = None
    behaviours = []
    for o in res.emitted:
        if isinstance(o, dict) and 'catalogue' in o:
            cat = o['catalogue']
        elif isinstance(o, dict) and 'out' in o:
            behaviours.append(o)
    if cat is None:
        raise MachineryError('TLC did not print the catalogue')
    return cat, behaviours


# --------------------------------------------------------------------------- numeric primitive
def tail_error(u: float, z: float):
    """-> (|Phi-hat - p|, p) on the nearer tail (p = u or 1-u, exact in floating point)."""
    if u < 0.5:
        p = u
        ph = 0.5 * math.erfc(-z / SQRT2)
    else:
        p = 1.0 - u
        ph = 0.5 * math.erfc(z / SQRT2)
    return abs(ph - p), p


def quantile_ok(u: float, z: float) -> bool:
    if not (math.isfinite(z) and 0.0 < u < 1.0):
        return False
    e, p = tail_error(u, z)
    return e <= QTOL * p * max(1.0, z * z)


def region(u: float) -> str:
    if u < LOW_EDGE:
        return 'low_tail'
    if MID_LO < u <= MID_HI:
        return 'central'
    return 'elsewhere'


def envelope_bound(env: dict | None, u: float):
    """Bound on |Phi(z) - u| recorded with the known finding, or None when there is none."""
    if not env:
        return None
    reg = region(u)
    if reg == 'low_tail':
        for upper, bound in env['low_tail']:
            if u <= upper:
                return bound
    elif reg == 'central':
        a = abs(u - 0.5)
        for upper, bound in env['central']:
            if a <= upper:
                return bound
    return None


def quantile_facts(u: float, z: float, env: dict | None, source: str) -> tuple[dict, dict]:
    e, p = tail_error(u, z) if math.isfinite(z) else (float('inf'), min(u, 1 - u))
    b = envelope_bound(env, u)
    facts = dict(clause='quantile', region=region(u), within_envelope=bool(b is not None and e <= b))
    detail = dict(source=source, u=u, u_hex=float(u).hex(), z=z, abs_error_in_probability=e,
                  relative_to_tail=e / p if p else None, tolerance=QTOL * max(1.0, z * z) if math.isfinite(z) else None,
                  envelope=b, **facts)
    return facts, detail


# --------------------------------------------------------------------------- real code
_SPY: list = []
_installed = False


def install_spy():
    """Record the uniform numbers handed to draws.get_normal_wichura_draws by the catalogue helpers
    (the 'underlying uniform numbers' of the normal entries).  Nothing in /repo is touched."""
    global _installed
    if _installed:
        return
    import numpy as np
    from biogeme import draws

    orig = draws.get_normal_wichura_draws

    def spy(*args, **kw):
        un = kw.get('uniform_numbers', args[2] if len(args) > 2 else None)
        _SPY.append(None if un is None else np.array(un, dtype=float).reshape(-1).copy())
        return orig(*args, **kw)

    spy.__wrapped__ = orig
    draws.get_normal_wichura_draws = spy
    _installed = True


def generator(name):
    from biogeme.native_draws import native_random_number_generators

    return native_random_number_generators[name].generator


def call(name: str, n: int, R: int, seed: int | None, gen=None):
    import numpy as np

    if seed is not None:
        np.random.seed(seed % (2**32))
    del _SPY[:]
    a = (gen or generator(name))(n, R)
    spied = [x for x in _SPY if x is not None]
    del _SPY[:]
    return np.asarray(a, dtype=float), (spied[-1] if spied else None)


def wichura(us):
    import numpy as np
    from biogeme import draws

    f = getattr(draws.get_normal_wichura_draws, '__wrapped__', draws.get_normal_wichura_draws)
    u = np.array(us, dtype=float)
    return f(1, u.size, uniform_numbers=u.copy()).reshape(-1)


# ---- spec -> code
def term_value(t):
    """-> ('q', Fraction) | ('probit', Fraction) | ('negprobit', Fraction)"""
    if t.get('k') == 'q':
        return 'q', Fraction(t['n'], t['d'])
    if t.get('f') == 'probit':
        return 'probit', Fraction(t['a'][0]['n'], t['a'][0]['d'])
    if t.get('f') == 'neg' and t['a'][0].get('f') == 'probit':
        return 'negprobit', Fraction(t['a'][0]['a'][0]['n'], t['a'][0]['a'][0]['d'])
    raise MachineryError(f'unexpected term {t}')


def replay_halton(rec: dict, env: dict | None, via: str = 'catalogue') -> dict:
    """Compare one emitted behaviour with the real generator.  -> dict(n=points, problems=[(key, detail, facts)])"""
    import numpy as np

    name, n, R = rec['name'], rec['n'], rec['R']
    problems = []
    if via == 'database':
        import pandas as pd
        import biogeme.database as db

        d = db.Database('c11', pd.DataFrame({'x': [float(i) for i in range(n)]}))
        tab = np.asarray(d.generate_draws({'v': name}, ['v'], R), dtype=float)
        if tab.shape != (n, R, 1):
            return dict(n=0, got=None, problems=[('halton:shape', dict(name=name, n=n, R=R, via=via, shape=list(tab.shape)),
                                                  dict(clause='shape', name=name))])
        a = tab[:, :, 0]
    else:
        a, _ = call(name, n, R, None)
    if a.shape != (n, R):
        return dict(n=0, got=None, problems=[('halton:shape', dict(name=name, n=n, R=R, via=via, shape=list(a.shape)),
                                              dict(clause='shape', name=name))])
    worst = 0.0
    for i in range(n):
        for j in range(R):
            kind, q = term_value(rec['out'][i][j])
            got = float(a[i, j])
            if kind == 'q':
                err = abs(Fraction(got) - q) if math.isfinite(got) else float('inf')
                worst = max(worst, float(err))
                if not err <= HALTON_TOL:
                    problems.append(('halton:value', dict(name=name, n=n, R=R, via=via, row=i, col=j, expected=str(q),
                                                          expected_float=float(q), got=got),
                                     dict(clause='halton', name=name)))
            else:
                u = float(q)
                if kind == 'negprobit':
                    got = -got
                if not quantile_ok(u, got):
                    facts, detail = quantile_facts(u, got, env, f'{name}({n},{R})[{i}][{j}] via {via}')
                    if facts['within_envelope']:
                        problems.append(('quantile', detail, facts))
                    else:
                        problems.append(('halton:value', dict(name=name, n=n, R=R, via=via, row=i, col=j,
                                                              expected=f'probit({q})', expected_uniform=u, got=got,
                                                              Phi_of_got=0.5 * math.erfc(-got / SQRT2) if math.isfinite(got) else None),
                                         dict(clause='halton', name=name)))
    return dict(n=n * R, worst=worst, got=a.tolist(), problems=problems)


# ---- code -> spec
def _hex(x: float) -> str:
    return float(x).hex()


def _stratum(u: float, G: int) -> int:
    if not math.isfinite(u):
        return -1
    s = math.floor(Fraction(u) * G)
    return int(max(-1, min(s, 2**30)))


def record_gen(cat: dict, name: str, n: int, R: int, seed: int, tid: int, gen=None, unit_gen=None) -> dict:
    """One call of the generator `name` as an observation for DrawTypesTrace."""
    import numpy as np

    e = cat[name]
    a, spied = call(name, n, R, seed, gen)
    if a.ndim == 2:
        rows, cols = int(a.shape[0]), [int(a.shape[1])] * int(a.shape[0])
    else:
        rows, cols = int(a.shape[0]) if a.ndim >= 1 else 0, []
    flat = a.reshape(-1)
    shape_ok = a.shape == (n, R)
    unit = None
    if e['sym'] and not e['normal']:
        unit, _ = call(e['unit'], n, R, seed, unit_gen)
        unit = unit.reshape(-1) if unit.shape == a.shape else None
    C = R // 2 if e['anti'] else R
    G = n * C
    # underlying uniform numbers of the generated part (row-major, first C columns of each row)
    under = None
    under_src = 'none'
    if shape_ok:
        first = a[:, :C].reshape(-1)
        if e['normal']:
            if spied is not None and spied.size == G:
                under, under_src = spied, 'argument uniform_numbers of get_normal_wichura_draws'
            elif e['fam'] != 'iid':
                under = np.array([0.5 * math.erfc(-float(z) / SQRT2) for z in first])
                under_src = 'Phi(z) (underlying uniform not observable)'
        elif e['sym']:
            under, under_src = (first + 1.0) / 2.0, '(v+1)/2'
        else:
            under, under_src = first, 'v'
    pts = []
    us = []
    for p, val in enumerate(flat):
        val = float(val)
        if e['support'] == 'unit':
            sup = 0.0 <= val <= 1.0
        elif e['support'] == 'sym':
            sup = -1.0 <= val <= 1.0
        else:
            sup = math.isfinite(val)
        m = _hex(1.0 - val) if e['mirror'] == 'one_minus' else _hex(-val)
        s = _hex(2.0 * float(unit[p]) - 1.0) if (e['sym'] and not e['normal'] and unit is not None) else (
            '?' if (e['sym'] and not e['normal']) else _hex(val))
        q = True
        uu = None
        if e['normal'] and shape_ok and under is not None and under_src.startswith('argument'):
            i, j = divmod(p, R)
            if j < C:
                uu = float(under[i * C + j])
                q = quantile_ok(uu, val)
        us.append(uu)
        pts.append(dict(v=_hex(val), m=m, s=s, sup=bool(sup), q=bool(q)))
    st = []
    if e['fam'] == 'mlhs' and under is not None:
        st = [_stratum(float(x), G) for x in under]
    return dict(kind='gen', tid=tid, name=name, n=n, R=R, rows=rows, cols=cols, pts=pts, st=st,
                _seed=seed, _under=under_src, _u=us, _vals=[float(x) for x in flat])


def strip(ev: dict) -> dict:
    return {k: v for k, v in ev.items() if not k.startswith('_')}


def balanced(events: list, parts: int) -> list:
    """Split events into `parts` groups of about the same number of points."""
    groups = [[] for _ in range(max(1, parts))]
    load = [0] * len(groups)
    for ev in sorted(events, key=lambda e: -len(e.get('pts', e.get('oks', [])))):
        k = load.index(min(load))
        groups[k].append(ev)
        load[k] += len(ev.get('pts', ev.get('oks', []))) + 5
    return [sorted(g, key=lambda e: e['tid']) for g in groups if g]


def validate(events: list, timeout: int = 1500, parts: int = 1, chunks: list | None = None):
    """-> ({tid: verdict record}, [TLC results]).  Several chunks run in as many JVMs side by side
    (each one worker: a trace is a linear walk)."""
    from concurrent.futures import ThreadPoolExecutor

    work = tlc.scratch_dir('vb-dtrace-')
    try:
        if chunks is None:
            chunks = balanced(events, parts) if parts > 1 else [events]
        chunks = [c for c in chunks if c]
        mod = root_module([(1, 1)], [(1, 1)], name='DrawTypesTraceRun', extends='DrawTypesTrace', catalogue=False)
        cfg_text = cfg(2, 1, ['Progress'], spec='TraceSpec')

        def one(k):
            path = os.path.join(work, f'trace{k}.json')
            with open(path, 'w') as f:
                json.dump([strip(e) for e in chunks[k]], f)
            return tlc.run('DrawTypesTraceRun', cfg_text, extra_modules={'DrawTypesTraceRun': mod}, workers=1,
                           env={'TRACE_FILE': path}, timeout=timeout, heap='3g')

        with ThreadPoolExecutor(max_workers=max(1, len(chunks))) as ex:
            results = list(ex.map(one, range(len(chunks))))
        verdicts = {}
        for res in results:
            for o in res.emitted:
                if isinstance(o, dict) and 'tid' in o and 'verdict' in o:
                    verdicts[o['tid']] = o
        return verdicts, results
    finally:
        shutil.rmtree(work, ignore_errors=True)


# ---- quantile samples
def quantile_batches(ncells: int, per_cell: int, seed: int) -> list:
    """Samples of (0,1): `per_cell` random floats in each of `ncells` equal cells plus the cell's
    lower edge, and special points (extreme tails, the branch points of AS241) put into their cells."""
    import numpy as np

    rng = np.random.default_rng(seed)
    cells = [[] for _ in range(ncells)]
    for c in range(ncells):
        lo, hi = c / ncells, (c + 1) / ncells
        xs = list(lo + (hi - lo) * rng.random(per_cell))
        xs.append(lo)
        cells[c] = [float(x) for x in xs if 0.0 < x < 1.0]
    special = [10.0 ** (-k) for k in (1, 2, 3, 4, 5, 6, 8, 10, 12, 16, 20, 30, 50, 100, 200, 300)]
    special += [5e-324, 2.2250738585072014e-308, 1e-320]
    special += [1.0 - 2.0 ** (-k) for k in range(1, 54)]
    for b in (0.075, 0.925, 0.45, 0.5, 0.55, 0.0654, 0.854):
        special += [b, float(np.nextafter(b, 0)), float(np.nextafter(b, 1))]
    special += list(10.0 ** (-300 * rng.random(per_cell)))
    special += list(1.0 - 10.0 ** (-16 * rng.random(per_cell)))
    for x in special:
        x = float(x)
        if 0.0 < x < 1.0:
            cells[min(int(x * ncells), ncells - 1)].append(x)
    return cells


def record_quantile(cells: list, first_tid: int) -> list:
    events = []
    allu = [x for c in cells for x in c]
    z = wichura(allu)
    pos = 0
    for c, xs in enumerate(cells):
        zs = [float(v) for v in z[pos: pos + len(xs)]]
        pos += len(xs)
        events.append(dict(kind='quantile', tid=first_tid + c, cell=c, oks=[quantile_ok(u, v) for u, v in zip(xs, zs)],
                           _u=xs, _z=zs))
    return events
