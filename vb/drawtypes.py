"""C11 binding between DrawTypes.tla / DrawTypesTrace.tla and biogeme's native draw catalogue.

spec -> code : the Halton behaviours TLC emits (exact rationals, or probit(rational) for the
               normal entries) are compared with native_random_number_generators[name].generator.
code -> spec : arrays produced by every entry are recorded as observations (shape, support flags,
               hex values, advertised mirror, 2x-1 of the unit entry under the same random
               stream, strata of the generated part, quantile flags) and judged by TLC.
The numeric accuracy of the normal quantile is an axiom check of the primitive `probit`
(Phi(z) = u with math.erfc); TLC only requires the flags.
"""

from __future__ import annotations

import json
import math
import os
import shutil
from fractions import Fraction

from . import tlc
from .tlc import MachineryError

SQRT2 = math.sqrt(2.0)
#: relative error allowed on the nearer tail probability, scaled by max(1, z^2) (the condition
#: number of p with respect to a relative perturbation of z): the reference AS241 and the
#: correct branches of the code stay below 1.1e-15 on 500k samples.
QTOL = 2e-14
HALTON_TOL = 1e-14
#: a normal value 'is what the quantile primitive returns for u' (relative; the primitive is evaluated on arrays of
#: different lengths, numpy may take different SIMD paths)
Z_TOL = 1e-11
LOW_EDGE = 0.075      # below: AS241 tail branch is the right one (|u - 0.5| > 0.425)
MID_LO, MID_HI = 0.45, 0.925


# --------------------------------------------------------------------------- TLC side
def root_module(sizes, rand_sizes, name='DrawTypesMC', extends='DrawTypes', catalogue=True, extra='') -> str:
    def s(xs):
        return '{' + ', '.join(f'<<{a}, {b}>>' for a, b in sorted(set(xs))) + '}'

    return (f'---- MODULE {name} ----\nEXTENDS {extends}\nG_Sizes == {s(sizes)}\nG_RandSizes == {s(rand_sizes)}\n'
            + extra + ('ASSUME EmitCatalogue\n' if catalogue else '') + '====\n')


MODEL_INVARIANTS = ['TypeOK', 'Accepted', 'RadInvExact', 'DistinctBases', 'MirrorLaws', 'CatalogueOK']


def cfg(den: int, maxg: int, invariants, spec='Spec', overrides: str = '') -> str:
    inv = '\n'.join(f'INVARIANT {i}' for i in invariants)
    return (f'SPECIFICATION {spec}\nCONSTANTS\n Sizes <- G_Sizes\n RandSizes <- G_RandSizes\n Den = {den}\n MaxG = {maxg}\n'
            f'{overrides}{inv}\n')


def run_model(sizes, rand_sizes, den, maxg, emit=True, timeout=1500):
    invs = MODEL_INVARIANTS + (['EmitInv'] if emit else [])
    return tlc.run('DrawTypesMC', cfg(den, maxg, invs), extra_modules={'DrawTypesMC': root_module(sizes, rand_sizes)},
                   workers='auto', timeout=timeout)


def run_mutant_model(timeout=300):
    """Model-level control (this is the defect of the unchanged tree, planted in the model): a generator
    model in which every normal Halton entry uses base 2 while the catalogue keeps advertising 2, 3, 5
    must violate DistinctBases."""
    extra = ('G_MutUnderlying(e, nn, RR) ==\n'
             '    IF e.fam = "halton" THEN {[k \\in 1..GLen(e, nn, RR) |-> RadInv(e.skip + k, IF e.normal THEN 2 ELSE e.base)]}\n'
             '    ELSE {[k \\in 1..GLen(e, nn, RR) |-> Zero]}\n')
    mod = root_module([(1, 7)], [(1, 1)], catalogue=False, extra=extra)
    return tlc.run('DrawTypesMC', cfg(2, 1, ['DistinctBases'], overrides=' Underlying <- G_MutUnderlying\n'),
                   extra_modules={'DrawTypesMC': mod}, workers=1, timeout=timeout)


def split_emitted(res):
    cat = None
    behaviours = []
    for o in res.emitted:
        if isinstance(o, dict) and 'catalogue' in o:
            cat = o['catalogue']
        elif isinstance(o, dict) and 'out' in o:
            behaviours.append(o)
    if cat is None:
        raise MachineryError('TLC did not print the catalogue')
    return cat, behaviours


# --------------------------------------------------------------------------- numeric primitive
def tail_error(u: float, z: float):
    """-> (|Phi-hat - p|, p) on the nearer tail (p = u or 1-u, exact in floating point)."""
    if u < 0.5:
        p = u
        ph = 0.5 * math.erfc(-z / SQRT2)
    else:
        p = 1.0 - u
        ph = 0.5 * math.erfc(z / SQRT2)
    return abs(ph - p), p


def quantile_ok(u: float, z: float) -> bool:
    if not (math.isfinite(z) and 0.0 < u < 1.0):
        return False
    e, p = tail_error(u, z)
    return e <= QTOL * p * max(1.0, z * z)


def region(u: float) -> str:
    if u < LOW_EDGE:
        return 'low_tail'
    if MID_LO < u <= MID_HI:
        return 'central'
    return 'elsewhere'


def envelope_bound(env: dict | None, u: float):
    """Bound on |Phi(z) - u| recorded with the known finding, or None when there is none."""
    if not env:
        return None
    reg = region(u)
    if reg == 'low_tail':
        for upper, bound in env['low_tail']:
            if u <= upper:
                return bound
    elif reg == 'central':
        a = abs(u - 0.5)
        for upper, bound in env['central']:
            if a <= upper:
                return bound
    return None


def quantile_facts(u: float, z: float, env: dict | None, source: str) -> tuple[dict, dict]:
    e, p = tail_error(u, z) if math.isfinite(z) else (float('inf'), min(u, 1 - u))
    b = envelope_bound(env, u)
    facts = dict(clause='quantile', region=region(u), within_envelope=bool(b is not None and e <= b))
    detail = dict(source=source, u=u, u_hex=float(u).hex(), z=z, abs_error_in_probability=e,
                  relative_to_tail=e / p if p else None, tolerance=QTOL * max(1.0, z * z) if math.isfinite(z) else None,
                  envelope=b, **facts)
    return facts, detail


# --------------------------------------------------------------------------- real code
_SPY: list = []
_installed = False


def install_spy():
    """Record the uniform numbers handed to draws.get_normal_wichura_draws by the catalogue helpers
    (the 'underlying uniform numbers' of the normal entries).  Nothing in /repo is touched."""
    global _installed
    if _installed:
        return
    import numpy as np
    from biogeme import draws

    orig = draws.get_normal_wichura_draws

    def spy(*args, **kw):
        un = kw.get('uniform_numbers', args[2] if len(args) > 2 else None)
        _SPY.append(None if un is None else np.array(un, dtype=float).reshape(-1).copy())
        return orig(*args, **kw)

    spy.__wrapped__ = orig
    draws.get_normal_wichura_draws = spy
    _installed = True


def generator(name):
    from biogeme.native_draws import native_random_number_generators

    return native_random_number_generators[name].generator


def call(name: str, n: int, R: int, seed: int | None, gen=None):
    import numpy as np

    if seed is not None:
        np.random.seed(seed % (2**32))
    del _SPY[:]
    a = (gen or generator(name))(n, R)
    spied = [x for x in _SPY if x is not None]
    del _SPY[:]
    return np.asarray(a, dtype=float), (spied[-1] if spied else None)


def wichura(us):
    import numpy as np
    from biogeme import draws

    f = getattr(draws.get_normal_wichura_draws, '__wrapped__', draws.get_normal_wichura_draws)
    u = np.array(us, dtype=float)
    return f(1, u.size, uniform_numbers=u.copy()).reshape(-1)


# ---- spec -> code
def term_value(t):
    """-> ('q', Fraction) | ('probit', Fraction) | ('negprobit', Fraction)"""
    if t.get('k') == 'q':
        return 'q', Fraction(t['n'], t['d'])
    if t.get('f') == 'probit':
        return 'probit', Fraction(t['a'][0]['n'], t['a'][0]['d'])
    if t.get('f') == 'neg' and t['a'][0].get('f') == 'probit':
        return 'negprobit', Fraction(t['a'][0]['a'][0]['n'], t['a'][0]['a'][0]['d'])
    raise MachineryError(f'unexpected term {t}')


def _zclose(z: float, zp: float) -> bool:
    return math.isfinite(z) and math.isfinite(zp) and abs(z - zp) <= Z_TOL * max(1.0, abs(zp))


def judge_array(name: str, n: int, R: int, a, terms_flat: list, env: dict | None, via: str, spied=None,
                where: str = '') -> dict:
    """Judge an array returned for generator(n, R) of a deterministic (Halton) entry against the exact
    values the spec printed (`terms_flat`, row-major).  -> dict(n=points, worst=, problems=[(key, detail, facts)])

    rational entries: |value - q| <= 1e-14, exact Fraction difference.
    normal entries (probit(q)): (a) the uniform numbers handed to the quantile primitive (when observable) are
    the rationals q; (b) Phi(z) = q on the nearer tail.  A deviation inside the region and envelope of the known
    finding about the PRIMITIVE is reported as that finding only if z is what the primitive returns for q --
    the finding is about get_normal_wichura_draws, not about which numbers an entry feeds it."""
    import numpy as np

    base = dict(name=name, n=n, R=R, via=via)
    if where:
        base['where'] = where
    a = np.asarray(a, dtype=float) if not isinstance(a, np.ndarray) or a.dtype != float else a
    if a.shape != (n, R):
        return dict(n=0, worst=0.0, problems=[('halton:shape', dict(base, shape=list(a.shape)), dict(clause='shape', name=name))])
    flat = a.reshape(-1)
    vals = [term_value(t) for t in terms_flat]
    if len(vals) != n * R:
        raise MachineryError(f'{len(vals)} expected values for {name}({n},{R})')
    problems = []
    worst = 0.0
    normal = [k for k, (kind, _) in enumerate(vals) if kind != 'q']
    zprim = None
    if normal:
        uexp = [float(q) for _, q in vals]
        try:
            zprim = wichura(uexp)
        except Exception:  # noqa  (a primitive that cannot be evaluated: nothing is excused)
            zprim = None
        if spied is not None and len(normal) == len(vals):
            sp = np.asarray(spied, dtype=float).reshape(-1)
            if sp.size != len(vals):
                problems.append(('halton:value', dict(base, what='underlying uniform numbers', expected_count=len(vals), got_count=int(sp.size)),
                                 dict(clause='halton', name=name)))
            else:
                for k, (_, q) in enumerate(vals):
                    got = float(sp[k])
                    err = abs(Fraction(got) - q) if math.isfinite(got) else float('inf')
                    if not err <= HALTON_TOL:
                        problems.append(('halton:value', dict(base, what='underlying uniform number handed to the quantile transform',
                                                              row=k // R, col=k % R, expected=str(q), expected_float=float(q), got=got),
                                         dict(clause='halton', name=name)))
    for k, (kind, q) in enumerate(vals):
        got = float(flat[k])
        i, j = divmod(k, R)
        if kind == 'q':
            err = abs(Fraction(got) - q) if math.isfinite(got) else float('inf')
            worst = max(worst, float(err))
            if not err <= HALTON_TOL:
                problems.append(('halton:value', dict(base, row=i, col=j, expected=str(q), expected_float=float(q), got=got),
                                 dict(clause='halton', name=name)))
        else:
            u = float(q)
            zp = None if zprim is None else float(zprim[k])
            if kind == 'negprobit':
                got = -got
            if not quantile_ok(u, got):
                facts, detail = quantile_facts(u, got, env, f'{name}({n},{R})[{i}][{j}] via {via} {where}'.strip())
                if facts['within_envelope'] and zp is not None and _zclose(got, zp):
                    problems.append(('quantile', detail, facts))
                else:
                    problems.append(('halton:value', dict(base, row=i, col=j, expected=f'probit({q})', expected_uniform=u, got=got,
                                                          Phi_of_got=0.5 * math.erfc(-got / SQRT2) if math.isfinite(got) else None,
                                                          quantile_primitive_of_expected_uniform=zp),
                                     dict(clause='halton', name=name)))
    return dict(n=n * R, worst=worst, problems=problems)


def _database_table(names: list, n: int, R: int):
    """Database.generate_draws for the listed draw types -> (table, [uniform_numbers seen by the quantile primitive])"""
    import numpy as np
    import pandas as pd
    import biogeme.database as db

    d = db.Database('c11', pd.DataFrame({'x': [float(i) for i in range(n)]}))
    del _SPY[:]
    tab = d.generate_draws({f'v{k}': nm for k, nm in enumerate(names)}, [f'v{k}' for k in range(len(names))], R)
    spied = [x for x in _SPY if x is not None]
    del _SPY[:]
    return np.asarray(tab, dtype=float), spied


def replay_halton(rec: dict, env: dict | None, via: str = 'catalogue') -> dict:
    """Compare one emitted behaviour with the real generator.  -> dict(n=points, problems=[(key, detail, facts)])"""
    name, n, R = rec['name'], rec['n'], rec['R']
    if via == 'database':
        tab, sp = _database_table([name], n, R)
        if tab.shape != (n, R, 1):
            return dict(n=0, got=None, problems=[('halton:shape', dict(name=name, n=n, R=R, via=via, shape=list(tab.shape)),
                                                  dict(clause='shape', name=name))])
        a, spied = tab[:, :, 0], (sp[-1] if sp else None)
    else:
        a, spied = call(name, n, R, None)
    res = judge_array(name, n, R, a, [t for row in rec['out'] for t in row], env, via, spied)
    res['got'] = a.tolist() if res['n'] else None
    return res


# --------------------------------------------------------------------------- every total length (HaltonSweep.tla)
SWEEP_INVARIANTS = ['TypeOK', 'Accepted', 'SweepIsGen', 'ChecksumOK']


def _plain_root(name: str, extends: str, extra: str = '') -> str:
    return f'---- MODULE {name} ----\nEXTENDS {extends}\nG_Sizes == {{}}\nG_RandSizes == {{}}\n{extra}====\n'


def _plain_cfg(spec: str, constants: str, invariants, properties=()) -> str:
    return (f'SPECIFICATION {spec}\nCONSTANTS\n Sizes <- G_Sizes\n RandSizes <- G_RandSizes\n Den = 2\n MaxG = 1\n{constants}'
            + ''.join(f'INVARIANT {i}\n' for i in invariants) + ''.join(f'PROPERTY {p}\n' for p in properties))


def run_sweep(maxlen: int, all_shapes_upto: int, lastk: int = 3, timeout: int = 1500, workers='auto'):
    consts = f' MaxLen = {maxlen}\n AllShapesUpTo = {all_shapes_upto}\n LastK = {lastk}\n'
    return tlc.run('HaltonSweepMC', _plain_cfg('SweepSpec', consts, SWEEP_INVARIANTS + ['SweepEmitInv'], ['PrefixStable']),
                   extra_modules={'HaltonSweepMC': _plain_root('HaltonSweepMC', 'HaltonSweep')}, workers=workers, timeout=timeout)


def run_mutant_sweep(timeout: int = 300):
    """Model-level control: a generator model that leaves the LAST member of the generated part at 0 whenever
    skip + length is k * base^j (k < base) -- a fill loop that stops one short at a block boundary -- must be
    reported by TLC (SweepIsGen) within the first lengths."""
    extra = ('G_Boundary(i, b) == \\E j \\in 0..12 : \\E k \\in 1..(b - 1) : i = k * IPow(b, j)\n'
             'G_MutUnderlying(e, nn, RR) ==\n'
             '    LET G == GLen(e, nn, RR) IN\n'
             '    {[k \\in 1..G |-> IF k = G /\\ G_Boundary(e.skip + G, e.base) THEN Zero ELSE RadInv(e.skip + k, e.base)]}\n')
    consts = ' MaxLen = 8\n AllShapesUpTo = 8\n LastK = 2\n Underlying <- G_MutUnderlying\n'
    return tlc.run('HaltonSweepMC', _plain_cfg('SweepSpec', consts, ['SweepIsGen']),
                   extra_modules={'HaltonSweepMC': _plain_root('HaltonSweepMC', 'HaltonSweep', extra)}, workers=1, timeout=timeout)


def split_sweep(res) -> list:
    return [o for o in res.emitted if isinstance(o, dict) and 'sweep' in o]


def sweep_tables(records: list) -> dict:
    """{name: dict(terms=[t_1..t_Lmax] (output value of flat position k), kind='q'|'probit', q=[Fraction], f=np.array,
    lengths=sorted lengths)}.  Member k of every array is the last member printed for length k (PrefixStable);
    overlapping printed members and the sampled positions must agree (sanity of the emission)."""
    import numpy as np

    by = {}
    for r in records:
        d = by.setdefault(r['sweep'], {})
        L, K = r['L'], len(r['last'])
        if L != r['n'] * r['R'] or K < 1:
            raise MachineryError(f'malformed sweep record {r}')
        for j, t in enumerate(r['last']):
            pos = L - K + 1 + j
            if d.setdefault(pos, t) != t:
                raise MachineryError(f"sweep records of {r['sweep']} disagree on member {pos}")
    out = {}
    for nm, d in by.items():
        Lmax = max(d)
        if sorted(d) != list(range(1, Lmax + 1)):
            raise MachineryError(f'sweep of {nm} does not cover every length up to {Lmax}')
        terms = [d[k] for k in range(1, Lmax + 1)]
        vals = [term_value(t) for t in terms]
        kinds = {k for k, _ in vals}
        if len(kinds) != 1 or kinds & {'negprobit'}:
            raise MachineryError(f'mixed kinds in the sweep of {nm}: {kinds}')
        out[nm] = dict(terms=terms, kind=kinds.pop(), q=[q for _, q in vals], f=np.array([float(q) for _, q in vals]))
    for r in records:
        tb = out[r['sweep']]
        for smp in r['samples']:
            if tb['terms'][smp['p'] - 1] != smp['v']:
                raise MachineryError(f"sampled position {smp['p']} of {r['sweep']} length {r['L']} is not member {smp['p']} of the sequence")
    return out


def _fsum(xs) -> Fraction | None:
    tot = Fraction(0)
    for x in xs:
        x = float(x)
        if not math.isfinite(x):
            return None
        tot += Fraction(x)
    return tot


def judge_sweep(rec: dict, tb: dict, a, spied, env: dict | None, via: str, zref=None) -> dict:
    """One answered request of the sweep against the array the real code returned.
    Always compared exactly: the printed LAST members (the last element of the array among them), the sampled
    positions and the checksum; and, vectorised, every member (PrefixStable)."""
    import numpy as np

    name, n, R, L = rec['sweep'], rec['n'], rec['R'], rec['L']
    base = dict(name=name, n=n, R=R, length=L, via=via)
    hal = dict(clause='halton', name=name)
    a = np.asarray(a, dtype=float)
    if a.shape != (n, R):
        return dict(n=0, problems=[('halton:shape', dict(base, shape=list(a.shape)), dict(clause='shape', name=name))])
    flat = a.reshape(-1)
    problems = []
    K = len(rec['last'])
    explicit = [(L - K + j, t) for j, t in enumerate(rec['last'])] + [(s['p'] - 1, s['v']) for s in rec['samples']]
    if explicit[K - 1][0] != L - 1:
        raise MachineryError('the last element is not among the printed members')
    if tb['kind'] == 'q':
        for pos, t in explicit:
            _, q = term_value(t)
            got = float(flat[pos])
            err = abs(Fraction(got) - q) if math.isfinite(got) else float('inf')
            if not err <= HALTON_TOL:
                problems.append(('halton:value', dict(base, what='last element' if pos == L - 1 else 'printed member', position=pos + 1,
                                                      row=pos // R, col=pos % R, expected=str(q), expected_float=float(q), got=got), hal))
        bad = np.nonzero(~(np.abs(flat - tb['f'][:L]) <= HALTON_TOL))[0]
        for pos in bad[:3]:
            problems.append(('halton:value', dict(base, what='member', position=int(pos) + 1, row=int(pos) // R, col=int(pos) % R,
                                                  expected=str(tb['q'][pos]), got=float(flat[pos]), members_off=int(bad.size)), hal))
        _, want = term_value(rec['osum'])
        tot = _fsum(flat)
        if tot is None or not abs(tot - want) <= HALTON_TOL * L:
            problems.append(('halton:checksum', dict(base, what='exact sum of the array', expected=str(want), expected_float=float(want),
                                                     got=None if tot is None else float(tot)), dict(clause='checksum', name=name)))
    else:
        uexp = tb['f'][:L]
        _, want = term_value(rec['usum'])
        if spied is not None:
            sp = np.asarray(spied, dtype=float).reshape(-1)
            if sp.size != L:
                problems.append(('halton:value', dict(base, what='underlying uniform numbers', expected_count=L, got_count=int(sp.size)), hal))
            else:
                bad = np.nonzero(~(np.abs(sp - uexp) <= HALTON_TOL))[0]
                for pos in ([L - 1] if (L - 1) in bad else []) + [int(x) for x in bad[:3] if x != L - 1]:
                    problems.append(('halton:value', dict(base, what='underlying uniform number handed to the quantile transform'
                                                          + (' (last element)' if pos == L - 1 else ''), position=pos + 1,
                                                          expected=str(tb['q'][pos]), got=float(sp[pos]), members_off=int(bad.size)), hal))
                tot = _fsum(sp)
                if tot is None or not abs(tot - want) <= HALTON_TOL * L:
                    problems.append(('halton:checksum', dict(base, what='exact sum of the underlying uniform numbers', expected=str(want),
                                                             got=None if tot is None else float(tot)), dict(clause='checksum', name=name)))
        if zref is None:
            zref = wichura(uexp)
        zr = np.asarray(zref, dtype=float)[:L]
        # members that are not what the quantile primitive returns for the expected uniform number are judged on their own
        # (never excused by the finding about the primitive); the others inherit the verdict of the primitive at that point
        off = set(int(x) for x in np.nonzero(~(np.abs(flat - zr) <= Z_TOL * np.maximum(1.0, np.abs(zr))))[0])
        for pos in ([L - 1] if (L - 1) in off else []) + [x for x in sorted(off) if x != L - 1][:3]:
            _, q = term_value(tb['terms'][pos])
            u, got = float(q), float(flat[pos])
            if not quantile_ok(u, got):
                problems.append(('halton:value', dict(base, what='last element' if pos == L - 1 else 'member', position=pos + 1,
                                                      row=pos // R, col=pos % R, expected=f'probit({q})', expected_uniform=u, got=got,
                                                      quantile_primitive_of_expected_uniform=float(zr[pos]), members_off=len(off)), hal))
    return dict(n=L, problems=problems)


def sweep_points(tb: dict, name: str, env: dict | None):
    """The normal entries: accuracy of the primitive at every expected uniform number of the sequence, judged once per
    member (the members are the same for every length).  -> (zref, [(key, detail, facts)])"""
    zref = wichura(tb['f'])
    problems = []
    for k, q in enumerate(tb['q']):
        u, z = float(q), float(zref[k])
        if not quantile_ok(u, z):
            facts, detail = quantile_facts(u, z, env, f'{name} member {k + 1}: get_normal_wichura_draws(uniform_numbers={q})')
            problems.append(('quantile', detail, facts))
    return zref, problems


def replay_sweep_chunk(item) -> dict:
    """(name, records, table, env, zref) -> dict(points=, calls=, problems=[...])   [runs in a pmap child]"""
    name, recs, tb, env, zref = item
    pts = 0
    problems = []
    for rec in recs:
        try:
            a, spied = call(name, rec['n'], rec['R'], None)
        except Exception as e:  # noqa
            problems.append(('halton:exc', dict(name=name, n=rec['n'], R=rec['R'], via='catalogue', error=f'{type(e).__name__}: {e}'[:300]),
                             dict(clause='exception', name=name)))
            continue
        r = judge_sweep(rec, tb, a, spied, env, 'catalogue', zref)
        pts += r['n']
        problems += r['problems'][:6]
    return dict(points=pts, calls=len(recs), problems=problems)


def replay_sweep_database(item) -> dict:
    """(order of the entries, {name: record} of ONE shape, tables, env, zrefs): one Database.generate_draws call producing
    all the listed entries at once (the table is (n, R, number of entries))."""
    order, recs, tables, env, zrefs = item
    any_rec = recs[order[0]]
    n, R = any_rec['n'], any_rec['R']
    try:
        tab, spied = _database_table(order, n, R)
    except Exception as e:  # noqa
        return dict(points=0, problems=[('halton:exc', dict(names=order, n=n, R=R, via='database', error=f'{type(e).__name__}: {e}'[:300]),
                                         dict(clause='exception', name=order[0]))])
    if tab.shape != (n, R, len(order)):
        return dict(points=0, problems=[('halton:shape', dict(names=order, n=n, R=R, via='database', shape=list(tab.shape)),
                                         dict(clause='shape', name=order[0]))])
    normals = [nm for nm in order if tables[nm]['kind'] != 'q']
    sp = dict(zip(normals, spied)) if len(spied) == len(normals) else {}
    pts = 0
    problems = []
    for j, nm in enumerate(order):
        r = judge_sweep(recs[nm], tables[nm], tab[:, :, j], sp.get(nm), env, f'database (entries asked in the order {order})', zrefs.get(nm))
        pts += r['n']
        problems += r['problems'][:6]
    return dict(points=pts, problems=problems)


# --------------------------------------------------------------------------- call histories (DrawCalls.tla)
def run_calls(names, sizes, maxcalls: int, maxscribbles: int, timeout: int = 900, workers=4):
    ns = '{' + ', '.join(f'"{x}"' for x in sorted(names)) + '}'
    ss = '{' + ', '.join(f'<<{a}, {b}>>' for a, b in sorted(set(sizes))) + '}'
    extra = f'G_CallNames == {ns}\nG_CallSizes == {ss}\n'
    consts = f' CallNames <- G_CallNames\n CallSizes <- G_CallSizes\n MaxCalls = {maxcalls}\n MaxScribbles = {maxscribbles}\n'
    return tlc.run('DrawCallsMC', _plain_cfg('CallSpec', consts, ['TypeOK', 'Accepted', 'HistoryFree', 'Retained', 'CallsEmitInv'], ['KeepsEarlier']),
                   extra_modules={'DrawCallsMC': _plain_root('DrawCallsMC', 'DrawCalls', extra)}, workers=workers, timeout=timeout)


def split_calls(res) -> list:
    return [o for o in res.emitted if isinstance(o, dict) and 'calls' in o]


def replay_history(item) -> dict:
    """(history, env): replay one history of DrawCalls in THIS process (the caller forks one process per history).
    After every event: the array just returned is judged against the spec's value (HistoryFree); every array the
    caller still owns must be unchanged in shape and content (Retained)."""
    import numpy as np

    hist, env = item
    held = {}      # k -> (object returned, private copy, event)
    problems = []
    pts = 0
    for pos, ev in enumerate(hist['calls']):
        nm, n, R, k = ev['name'], ev['n'], ev['R'], ev['k']
        where = f"event {pos + 1} of {[(e['op'], e['name']) for e in hist['calls']]}"
        if ev['op'] == 'call':
            del _SPY[:]
            try:
                obj = generator(nm)(n, R)
            except Exception as e:  # noqa
                problems.append(('history:exc', dict(name=nm, n=n, R=R, where=where, error=f'{type(e).__name__}: {e}'[:300]),
                                 dict(clause='exception', name=nm)))
                break
            spied = [x for x in _SPY if x is not None]
            del _SPY[:]
            r = judge_array(nm, n, R, obj, [t for row in ev['out'] for t in row], env, 'catalogue', spied[-1] if spied else None, where)
            pts += r['n']
            for key, detail, facts in r['problems']:
                key = key if key == 'quantile' else key.replace('halton:', 'history:')
                problems.append((key, detail, facts if key == 'quantile' else dict(facts, clause='history')))
            held[k] = (obj, np.array(obj, dtype=float, copy=True), ev)
        else:
            obj = held.pop(k)[0]
            if isinstance(obj, np.ndarray):   # the caller owns the array: overwrite it and flatten it in place
                try:
                    obj.fill(np.nan)
                    obj.shape = (obj.size,)
                except (AttributeError, ValueError):
                    pass
        for k2, (obj, copy, ev2) in held.items():
            cur = np.asarray(obj, dtype=float)
            if cur.shape != copy.shape or not np.array_equal(cur, copy, equal_nan=True):
                problems.append(('history:retained', dict(name=ev2['name'], n=ev2['n'], R=ev2['R'], call=k2, where=where,
                                                          shape_at_return=list(copy.shape), shape_now=list(cur.shape),
                                                          at_return=copy.reshape(-1)[:8].tolist(), now=cur.reshape(-1)[:8].tolist()),
                                 dict(clause='history', name=ev2['name'])))
        if any(k_ != 'quantile' for k_, _, _ in problems):
            break
    return dict(points=pts, problems=problems)


# ---- code -> spec
def _hex(x: float) -> str:
    return float(x).hex()


def _stratum(u: float, G: int) -> int:
    if not math.isfinite(u):
        return -1
    s = math.floor(Fraction(u) * G)
    return int(max(-1, min(s, 2**30)))


def record_gen(cat: dict, name: str, n: int, R: int, seed: int, tid: int, gen=None, unit_gen=None) -> dict:
    """One call of the generator `name` as an observation for DrawTypesTrace."""
    import numpy as np

    e = cat[name]
    a, spied = call(name, n, R, seed, gen)
    if a.ndim == 2:
        rows, cols = int(a.shape[0]), [int(a.shape[1])] * int(a.shape[0])
    else:
        rows, cols = int(a.shape[0]) if a.ndim >= 1 else 0, []
    flat = a.reshape(-1)
    shape_ok = a.shape == (n, R)
    unit = None
    if e['sym'] and not e['normal']:
        unit, _ = call(e['unit'], n, R, seed, unit_gen)
        unit = unit.reshape(-1) if unit.shape == a.shape else None
    C = R // 2 if e['anti'] else R
    G = n * C
    # underlying uniform numbers of the generated part (row-major, first C columns of each row)
    under = None
    under_src = 'none'
    if shape_ok:
        first = a[:, :C].reshape(-1)
        if e['normal']:
            if spied is not None and spied.size == G:
                under, under_src = spied, 'argument uniform_numbers of get_normal_wichura_draws'
            elif e['fam'] != 'iid':
                under = np.array([0.5 * math.erfc(-float(z) / SQRT2) for z in first])
                under_src = 'Phi(z) (underlying uniform not observable)'
        elif e['sym']:
            under, under_src = (first + 1.0) / 2.0, '(v+1)/2'
        else:
            under, under_src = first, 'v'
    pts = []
    us = []
    for p, val in enumerate(flat):
        val = float(val)
        if e['support'] == 'unit':
            sup = 0.0 <= val <= 1.0
        elif e['support'] == 'sym':
            sup = -1.0 <= val <= 1.0
        else:
            sup = math.isfinite(val)
        m = _hex(1.0 - val) if e['mirror'] == 'one_minus' else _hex(-val)
        s = _hex(2.0 * float(unit[p]) - 1.0) if (e['sym'] and not e['normal'] and unit is not None) else (
            '?' if (e['sym'] and not e['normal']) else _hex(val))
        q = True
        uu = None
        if e['normal'] and shape_ok and under is not None and under_src.startswith('argument'):
            i, j = divmod(p, R)
            if j < C:
                uu = float(under[i * C + j])
                q = quantile_ok(uu, val)
        us.append(uu)
        pts.append(dict(v=_hex(val), m=m, s=s, sup=bool(sup), q=bool(q)))
    st = []
    if e['fam'] == 'mlhs' and under is not None:
        st = [_stratum(float(x), G) for x in under]
    return dict(kind='gen', tid=tid, name=name, n=n, R=R, rows=rows, cols=cols, pts=pts, st=st,
                _seed=seed, _under=under_src, _u=us, _vals=[float(x) for x in flat])


def strip(ev: dict) -> dict:
    return {k: v for k, v in ev.items() if not k.startswith('_')}


def balanced(events: list, parts: int) -> list:
    """Split events into `parts` groups of about the same number of points."""
    groups = [[] for _ in range(max(1, parts))]
    load = [0] * len(groups)
    for ev in sorted(events, key=lambda e: -len(e.get('pts', e.get('oks', [])))):
        k = load.index(min(load))
        groups[k].append(ev)
        load[k] += len(ev.get('pts', ev.get('oks', []))) + 5
    return [sorted(g, key=lambda e: e['tid']) for g in groups if g]


def validate(events: list, timeout: int = 1500, parts: int = 1, chunks: list | None = None):
    """-> ({tid: verdict record}, [TLC results]).  Several chunks run in as many JVMs side by side
    (each one worker: a trace is a linear walk)."""
    from concurrent.futures import ThreadPoolExecutor

    work = tlc.scratch_dir('vb-dtrace-')
    try:
        if chunks is None:
            chunks = balanced(events, parts) if parts > 1 else [events]
        chunks = [c for c in chunks if c]
        mod = root_module([(1, 1)], [(1, 1)], name='DrawTypesTraceRun', extends='DrawTypesTrace', catalogue=False)
        cfg_text = cfg(2, 1, ['Progress'], spec='TraceSpec')

        def one(k):
            path = os.path.join(work, f'trace{k}.json')
            with open(path, 'w') as f:
                json.dump([strip(e) for e in chunks[k]], f)
            return tlc.run('DrawTypesTraceRun', cfg_text, extra_modules={'DrawTypesTraceRun': mod}, workers=1,
                           env={'TRACE_FILE': path}, timeout=timeout, heap='3g')

        with ThreadPoolExecutor(max_workers=max(1, len(chunks))) as ex:
            results = list(ex.map(one, range(len(chunks))))
        verdicts = {}
        for res in results:
            for o in res.emitted:
                if isinstance(o, dict) and 'tid' in o and 'verdict' in o:
                    verdicts[o['tid']] = o
        return verdicts, results
    finally:
        shutil.rmtree(work, ignore_errors=True)


# ---- quantile samples
def quantile_batches(ncells: int, per_cell: int, seed: int) -> list:
    """Samples of (0,1): `per_cell` random floats in each of `ncells` equal cells plus the cell's
    lower edge, and special points (extreme tails, the branch points of AS241) put into their cells."""
    import numpy as np

    rng = np.random.default_rng(seed)
    cells = [[] for _ in range(ncells)]
    for c in range(ncells):
        lo, hi = c / ncells, (c + 1) / ncells
        xs = list(lo + (hi - lo) * rng.random(per_cell))
        xs.append(lo)
        cells[c] = [float(x) for x in xs if 0.0 < x < 1.0]
    special = [10.0 ** (-k) for k in (1, 2, 3, 4, 5, 6, 8, 10, 12, 16, 20, 30, 50, 100, 200, 300)]
    special += [5e-324, 2.2250738585072014e-308, 1e-320]
    special += [1.0 - 2.0 ** (-k) for k in range(1, 54)]
    for b in (0.075, 0.925, 0.45, 0.5, 0.55, 0.0654, 0.854):
        special += [b, float(np.nextafter(b, 0)), float(np.nextafter(b, 1))]
    special += list(10.0 ** (-300 * rng.random(per_cell)))
    special += list(1.0 - 10.0 ** (-16 * rng.random(per_cell)))
    for x in special:
        x = float(x)
        if 0.0 < x < 1.0:
            cells[min(int(x * ncells), ncells - 1)].append(x)
    return cells


def record_quantile(cells: list, first_tid: int) -> list:
    events = []
    allu = [x for c in cells for x in c]
    z = wichura(allu)
    pos = 0
    for c, xs in enumerate(cells):
        zs = [float(v) for v in z[pos: pos + len(xs)]]
        pos += len(xs)
        events.append(dict(kind='quantile', tid=first_tid + c, cell=c, oks=[quantile_ok(u, v) for u, v in zip(xs, zs)],
                           _u=xs, _z=zs))
    return events
