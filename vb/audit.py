"""C12 support: the Audit.tla model instance, the builder of real formulas from emitted
audit DAGs, and the classification of what the library does with them."""

from __future__ import annotations

from .rt import forked

LEAVES = [
    ('Numeric', 'one'),       # 1
    ('Beta', 'b'),            # 2
    ('Variable', 'x'),        # 3
    ('Variable', 'y'),        # 4  key-valued column (1 or 3)
    ('Variable', 'nocol'),    # 5  FAULT: not a column
    ('Beta', 'x'),            # 6  FAULT: a parameter named like the column x
    ('bioDraws', 'xi'),       # 7  fault unless below MonteCarlo
    ('RandomVariable', 'omega'),  # 8  fault unless below Integrate('omega')
]
KEY_LEAVES = [1, 4]
FAULT_LEAVES = [5, 6, 7, 8]
PLAIN_UN = ['UnaryMinus', 'exp', 'sin', 'cos', 'bioNormalCdf', 'PowerConstant']
PLAIN_BIN = ['Plus', 'Minus', 'Times', 'bioMin', 'bioMax', 'And', 'Or', 'Equal', 'NotEqual', 'LessOrEqual',
             'GreaterOrEqual', 'Less', 'Greater']
SPECIAL = ['MonteCarlo', 'Integrate', 'PanelLikelihoodTrajectory', 'bioMultSum', 'BelongsTo', 'Elem', 'ConditionalSum',
           'bioLinearUtility', '_bioLogLogit', '_bioLogLogitBadKeys', '_bioLogLogitKeys', '_bioLogLogitFullChoiceSet', 'Catalog']


def module(panel: bool, thin, special=None) -> str:
    def sset(xs):
        return '{' + ', '.join(f'"{x}"' for x in xs) + '}'

    leaves = ', '.join(f'[kind |-> "{k}", name |-> "{n}"]' for k, n in LEAVES)
    cols = ['x', 'y'] + (['id'] if panel else [])
    return f'''---- MODULE AuditGen ----
EXTENDS Audit
G_Leaves == <<{leaves}>>
G_Columns == {sset(cols)}
G_PlainUn == {sset(PLAIN_UN)}
G_PlainBin == {sset(PLAIN_BIN)}
G_Special == {sset(special if special is not None else SPECIAL)}
G_KeyLeaves == {{{", ".join(map(str, KEY_LEAVES))}}}
G_FaultLeaves == {{{", ".join(map(str, FAULT_LEAVES))}}}
G_Thin == <<{", ".join(map(str, thin))}>>
====
'''


def cfg(panel: bool, max_ops: int, salt: int, estimation: bool = True, chain: bool = False) -> str:
    return f'''SPECIFICATION Spec
CONSTANTS
 Leaves <- G_Leaves
 Columns <- G_Columns
 Panel = {"TRUE" if panel else "FALSE"}
 Estimation = {"TRUE" if estimation else "FALSE"}
 PlainUn <- G_PlainUn
 PlainBin <- G_PlainBin
 Special <- G_Special
 KeyLeaves <- G_KeyLeaves
 FaultLeaves <- G_FaultLeaves
 MaxOps = {max_ops}
 Thin <- G_Thin
 Salt = {salt}
 Chain = {"TRUE" if chain else "FALSE"}
INVARIANT FaultFreeValid
INVARIANT LeafFaultAlwaysInvalid
INVARIANT DrawNeedsMC
INVARIANT EmitInv
'''


def database(panel: bool):
    import pandas as pd
    import biogeme.database as db

    cols = {'x': [2.0, 0.5, 1.5], 'y': [1.0, 3.0, 3.0]}
    if panel:
        cols['id'] = [7.0, 7.0, 4.0]
    d = db.Database('c12', pd.DataFrame(cols))
    if panel:
        d.panel('id')
    return d


class Builder:
    def __init__(self, ops, share=True):
        self.ops = ops
        self.nl = len(LEAVES)
        self.memo = {}
        self.share = share
        self.ncat = 0

    def build(self, i):
        if self.share and i in self.memo:
            return self.memo[i]
        e = self._build(i)
        self.memo[i] = e
        return e

    def _build(self, i):
        import biogeme.expressions as ex
        from biogeme.catalog import Catalog
        from biogeme.expressions import _bioLogLogit, _bioLogLogitFullChoiceSet
        from biogeme.expressions import binary_expressions as be
        from biogeme.expressions import comparison_expressions as ce
        from biogeme.expressions.unary_expressions import PowerConstant, UnaryMinus

        if i <= self.nl:
            kind, name = LEAVES[i - 1]
            if kind == 'Numeric':
                return ex.Numeric(1)
            if kind == 'Beta':
                return ex.Beta(name, 0.5, None, None, 0)
            if kind == 'Variable':
                return ex.Variable(name)
            if kind == 'bioDraws':
                return ex.bioDraws(name, 'UNIFORM')
            return ex.RandomVariable(name)
        n = self.ops[i - self.nl - 1]
        op = n['op']
        k = [self.build(j) for j in n['kids']]
        if op in ('Plus', 'Minus', 'Times', 'bioMin', 'bioMax', 'And', 'Or'):
            return getattr(be, op)(k[0], k[1])
        if op in ('Equal', 'NotEqual', 'LessOrEqual', 'GreaterOrEqual', 'Less', 'Greater'):
            return getattr(ce, op)(k[0], k[1])
        if op == 'UnaryMinus':
            return UnaryMinus(k[0])
        if op == 'PowerConstant':
            return PowerConstant(k[0], 2.0)
        if op in ('exp', 'sin', 'cos', 'bioNormalCdf'):
            return getattr(ex, op)(k[0])
        if op == 'MonteCarlo':
            return ex.MonteCarlo(k[0])
        if op == 'PanelLikelihoodTrajectory':
            return ex.PanelLikelihoodTrajectory(k[0])
        if op == 'Integrate':
            return ex.Integrate(k[0], n['name'])
        if op == 'bioMultSum':
            return ex.bioMultSum(k)
        if op == 'BelongsTo':
            return ex.BelongsTo(k[0], set(n['keys']))
        if op == 'Elem':
            return ex.Elem({key: k[1 + j] for j, key in enumerate(n['keys'])}, k[0])
        if op == 'ConditionalSum':
            return ex.ConditionalSum([ex.ConditionalTermTuple(condition=k[2 * j], term=k[2 * j + 1]) for j in range(len(k) // 2)])
        if op == 'bioLinearUtility':
            return ex.bioLinearUtility([ex.LinearTermTuple(beta=k[0], x=k[1])])
        if op == '_bioLogLogit':
            util = {key: k[1 + 2 * j] for j, key in enumerate(n['keys'])}
            av = {key: k[2 + 2 * j] for j, key in reversed(list(enumerate(n['avkeys'])))}
            return _bioLogLogit(util, av, k[0])
        if op == '_bioLogLogitKeys':
            nk = len(n['keys'])
            util = {key: k[1 + j] for j, key in enumerate(n['keys'])}
            av = {key: k[1 + nk + j] for j, key in enumerate(n['avkeys'])}
            return _bioLogLogit(util, av, k[0])
        if op == '_bioLogLogitFullChoiceSet':
            return _bioLogLogitFullChoiceSet({key: k[1 + j] for j, key in enumerate(n['keys'])}, k[0])
        if op == 'Catalog':
            self.ncat += 1
            return Catalog.from_dict(f'cat{self.ncat}', {'m1': k[0], 'm2': k[1]})
        raise KeyError(op)


def describe(ops, root, nl=len(LEAVES)) -> str:
    def go(i):
        if i <= nl:
            k, n = LEAVES[i - 1]
            return f'{k}:{n}'
        n = ops[i - nl - 1]
        extra = f"[{n['name']}]" if n['name'] else ''
        if n['op'] == '_bioLogLogit' and n['keys'] != n['avkeys']:
            extra = '[av keys differ]'
        if n['op'] == '_bioLogLogitKeys':
            extra = f"[util {n['keys']} av {n['avkeys']}]"
        return f"{n['op']}{extra}(" + ', '.join(go(j) for j in n['kids']) + ')'

    return go(root)


def classify(result) -> str:
    """forked() result -> 'ok' | 'BIO' (the library's own error, non-empty message) | '!<Type>' | 'died'"""
    st, val = result
    if st == 'ok':
        return 'ok'
    if st == 'exc':
        tname, mro, msg = val
        if 'BiogemeError' in mro:
            return 'BIO' if msg.strip() else '!BiogemeError-empty-message'
        return f'!{tname}'
    return 'died'


def run_entry_points(rec) -> dict:
    """What the library does with the formula at its entry points (each in its own forked child)."""
    panel = rec['panel']

    def biogeme_ctor():
        import biogeme.biogeme as bio

        d = database(panel)
        e = Builder(rec['ops']).build(rec['root'])
        b = bio.BIOGEME(d, e, number_of_draws=5)
        return True

    def biogeme_dict_ctor(key='log_like'):
        import biogeme.biogeme as bio

        d = database(panel)
        e = Builder(rec['ops']).build(rec['root'])
        b = bio.BIOGEME(d, {key: e}, number_of_draws=5)
        return True

    def biogeme_dict_ctor2():
        return biogeme_dict_ctor('loglike')     # the other documented spelling of the key

    def value():
        d = database(panel)
        e = Builder(rec['ops']).build(rec['root'])
        v = e.get_value_c(database=d, prepare_ids=True, number_of_draws=5)
        return [float(x) for x in v]

    def value_prepared():
        # the two-step form: the formula is prepared for the data first, then evaluated as it is
        d = database(panel)
        e = Builder(rec['ops']).build(rec['root'])
        e.prepare(d, 5)
        v = e.get_value_c(database=d, prepare_ids=False, number_of_draws=5)
        return [float(x) for x in v]

    out = {}
    eps = (('BIOGEME', biogeme_ctor), ('BIOGEME(dict)', biogeme_dict_ctor), ('BIOGEME(dict:loglike)', biogeme_dict_ctor2)) if rec['estimation'] else (('get_value_c', value), ('prepare + get_value_c', value_prepared))
    if rec.get('light'):
        eps = eps[:2] if rec['estimation'] else eps[:1]      # the second spelling of the key / the two-step form: on a sample only
    # one child for all entry points as long as only the library's own refusals (Python level) occur; an error
    # of any other kind may leave the engine in its sticky error state: then every entry point gets its own child
    def together():
        res = {}
        for name, fn in eps:
            try:
                res[name] = ('ok', fn())
            except BaseException as e:  # noqa
                res[name] = ('exc', (type(e).__name__, [c.__name__ for c in type(e).__mro__], str(e)[:400]))
                if type(e).__name__ != 'BiogemeError':
                    return None
        return res

    if len(eps) > 1:
        st, val = forked(together, timeout=300)
        if st == 'ok' and isinstance(val, dict):
            for name, _ in eps:
                res = val[name]
                out[name] = (classify(res), (res[1][2] if res[0] == 'exc' else '')[:200])
            return out
    for name, fn in eps:
        res = forked(fn, timeout=200)
        out[name] = (classify(res), (res[1][2] if res[0] == 'exc' else '')[:200])
    return out
