"""Program run under strace by checks/c15.py.

mode 'run':     builds a BIOGEME with save_iterations on and issues the given sequence of
                calculate_likelihood_and_derivatives calls; before each call a sentinel
                mkdir("/vbmark/eval-<k>") marks the position in the syscall log.
mode 'restart': a fresh process; runs estimate() on the same model and reports the starting
                values the optimiser was given (must be the saved ones) or the exception.
The model: LL = - sum_rows sum_i (beta_i - c_i)^2 + log(gate) where gate is a parameter that makes
the value non-finite when negative.  Parameter names need the sorted order (appearance differs).
"""

from __future__ import annotations

import json
import os
import sys


def build(spec):
    sys.path.insert(0, os.path.join(os.environ.get('VERIF_REPO', '/repo'), 'src'))
    import logging
    import warnings

    warnings.simplefilter('ignore')
    logging.disable(logging.CRITICAL)
    import pandas as pd
    import biogeme.biogeme as bio
    import biogeme.database as db
    import biogeme.expressions as ex

    names = spec['names']  # in order of appearance
    d = db.Database('c15', pd.DataFrame({'x': [1.0, 2.0]}))
    terms = []
    for i, nm in enumerate(names):
        b = ex.Beta(nm, float(spec['start'][i]), None, None, 0)
        terms.append(-((b - float(spec['centers'][i])) * (b - float(spec['centers'][i]))))
    gate = ex.Beta(spec['gate'], 1.0, None, None, 0)
    terms.append(ex.log(gate))
    if spec.get('nan_param'):
        # value 0 whatever the parameter, but at 0 the derivative is inf - inf = NaN (finite value, non-finite derivative)
        from biogeme.expressions.unary_expressions import PowerConstant

        m = ex.Beta(spec['nan_param'], 1.0, None, None, 0)
        terms.append(PowerConstant(m, 0.5) - PowerConstant(m, 0.5))
    terms.append(0 * ex.Variable('x'))
    f = ex.bioMultSum(terms)
    b = bio.BIOGEME(d, f, save_iterations=True, generate_html=False, generate_pickle=False)
    b.modelName = spec['model']
    return b


def mark(tag):
    try:
        os.mkdir(f'/vbmark/{tag}')
    except OSError:
        pass


def main():
    mode = sys.argv[1]
    spec = json.load(open(sys.argv[2]))
    os.chdir(spec['dir'])
    b = build(spec)
    free = list(b.free_beta_names)
    if mode == 'run':
        b.bestIteration = None
        out = []
        mark('begin')
        for k, x in enumerate(spec['points']):
            vec = [float.fromhex(x[nm]) for nm in free]
            mark(f'eval-{k + 1}')
            try:
                sc = bool((spec.get('scaled') or [False] * len(spec['points']))[k])
                r = b.calculate_likelihood_and_derivatives(vec, scaled=sc, hessian=False, bhhh=False)
                import numpy as np

                # the log likelihood of the sample (two observations: the scaling by 2 is exact)
                out.append(dict(k=k + 1, f=repr(float(r.function) * (2.0 if sc else 1.0)), scaled=sc, gfinite=bool(np.all(np.isfinite(np.asarray(r.gradient, dtype=float)))), names=free))
            except Exception as e:  # noqa
                out.append(dict(k=k + 1, error=f'{type(e).__name__}: {e}'[:200]))
        mark('end')
        json.dump(out, open(spec['out'], 'w'))
    elif mode == 'restart':
        rec = {}
        orig = b.optimize

        class Recorded(Exception):
            pass

        def spy(starting_values=None):
            rec['start'] = [float(v).hex() for v in starting_values]
            if not spec.get('restart_full', True):
                raise Recorded()   # large model: stop once the optimiser has been given its starting point
            return orig(starting_values)

        b.optimize = spy
        try:
            b.estimate()
            rec['ok'] = True
        except Recorded:
            rec['ok'] = True
        except BaseException as e:  # noqa
            rec['ok'] = False
            rec['error'] = f'{type(e).__name__}: {e}'[:300]
        rec['names'] = free
        json.dump(rec, open(spec['out'], 'w'))


if __name__ == '__main__':
    main()
