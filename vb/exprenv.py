"""One description of the ExprLang model instance (pools of leaves, parameters, columns),
rendered both as a TLA+ constants module and as real biogeme objects."""

from __future__ import annotations

from dataclasses import dataclass, field
from fractions import Fraction as F


def q(s) -> F:
    return F(s)


def tla_q(x: F) -> str:
    return f'Q({x.numerator}, {x.denominator})' if x.numerator >= 0 else f'Q(0 - {abs(x.numerator)}, {x.denominator})'


def tla_name(s: str) -> str:
    return '<<' + ', '.join(str(ord(c)) for c in s) + '>>'


@dataclass
class Pool:
    betas: list  # (name, free, [value per point])
    vars: list  # (name, [value per row])
    leaves: list  # ('num', value) | ('beta', idx1) | ('var', idx1)
    unops: list = field(default_factory=list)
    binops: list = field(default_factory=list)
    naryops: list = field(default_factory=list)
    exponents: list = field(default_factory=lambda: ['2', '3', '-1', '1/2'])
    keysets: list = field(default_factory=lambda: [[1, 3], [3, 1]])
    bound: int = 100
    draws: list = field(default_factory=list)   # (name, type, [[value per draw] per observation])
    ndraws: int = 1
    panel: list = field(default_factory=list)   # individual 1..NU of every observation (panel data), or empty

    @property
    def nunits(self):
        return max(self.panel) if self.panel else self.nrows

    @property
    def nrows(self):
        return len(self.vars[0][1]) if self.vars else 1

    @property
    def npoints(self):
        return len(self.betas[0][2]) if self.betas else 1

    def free_names_sorted(self):
        return sorted(b[0] for b in self.betas if b[1])

    def module(self, name: str = 'MCExprGen', thin=(1,), start=None) -> str:
        """start: list of proposed formulas, each a list of operator nodes dict(op, kids, num=(n, d), keys=[..])"""
        thin = ', '.join(str(t) for t in thin)
        def leaf(l):
            if l[0] == 'num':
                return f'Node("Numeric", << >>, {tla_q(q(l[1]))}, 0, << >>)'
            if l[0] == 'beta':
                return f'Node("Beta", << >>, Zero, {l[1]}, << >>)'
            if l[0] == 'draw':
                return f'Node("bioDraws", << >>, Zero, {l[1]}, << >>)'
            return f'Node("Variable", << >>, Zero, {l[1]}, << >>)'

        bt = ',\n    '.join(
            f'[name |-> {tla_name(n)}, free |-> {"TRUE" if fr else "FALSE"}, vals |-> <<{", ".join(tla_q(q(v)) for v in vals)}>>]'
            for n, fr, vals in self.betas
        )
        vt = ',\n    '.join(
            f'[name |-> {tla_name(n)}, vals |-> <<{", ".join(tla_q(q(v)) for v in vals)}>>]' for n, vals in self.vars
        )

        def sset(xs):
            return '{' + ', '.join(f'"{x}"' for x in xs) + '}'

        ks = '{' + ', '.join('<<' + ', '.join(str(k) for k in s) + '>>' for s in self.keysets) + '}'
        return f'''---- MODULE {name} ----
EXTENDS ExprLang
G_BetaTab == <<
    {bt} >>
G_VarTab == <<
    {vt} >>
G_DrawTab == << {", ".join(f'[name |-> {tla_name(n)}, type |-> "{t}", vals |-> <<' + ", ".join("<<" + ", ".join(tla_q(q(v)) for v in obs) + ">>" for obs in vals) + '>>]' for n, t, vals in self.draws)} >>
G_Leaves == << {", ".join(leaf(l) for l in self.leaves)} >>
G_UnOps == {sset(self.unops)}
G_BinOps == {sset(self.binops)}
G_NaryOps == {sset(self.naryops)}
G_Exponents == {{{", ".join(tla_q(q(e)) for e in self.exponents)}}}
G_KeySets == {ks}
G_Thin == <<{thin}>>
G_Panel == <<{', '.join(str(u) for u in self.panel)}>>
G_Start == {{{', '.join(self._start(f) for f in (start or [[]]))}}}
====
'''

    @staticmethod
    def _start(ops) -> str:
        if not ops:
            return 'G_Leaves'
        def node(n):
            num = n.get('num', (0, 1))
            kids = ', '.join(str(k) for k in n['kids'])
            keys = ', '.join(str(k) for k in n.get('keys', []))
            return f'Node("{n["op"]}", <<{kids}>>, Q({num[0]}, {num[1]}), 0, <<{keys}>>)'
        return 'G_Leaves \\o <<' + ', '.join(node(n) for n in ops) + '>>'

    def cfg(self, max_ops: int, invariants: list[str], constraint: str | None = None, thin=(1,), salt: int = 0) -> str:
        inv = '\n'.join(f'INVARIANT {i}' for i in invariants)
        return f'''SPECIFICATION Spec
CONSTANTS
 Leaves <- G_Leaves
 BetaTab <- G_BetaTab
 VarTab <- G_VarTab
 DrawTab <- G_DrawTab
 NDraws = {self.ndraws}
 Panel <- G_Panel
 Start <- G_Start
 NRows = {self.nrows}
 NPoints = {self.npoints}
 UnOps <- G_UnOps
 BinOps <- G_BinOps
 NaryOps <- G_NaryOps
 Exponents <- G_Exponents
 KeySets <- G_KeySets
 MaxOps = {max_ops}
 Thin <- G_Thin
 Salt = {salt}
 Bound = {self.bound}
{inv}
''' + (f'CONSTRAINT {constraint}\n' if constraint else '')


UNOPS = ['UnaryMinus', 'exp', 'log', 'logzero', 'sin', 'cos', 'bioNormalCdf', 'PowerConstant']
COMPARISONS = ['Equal', 'NotEqual', 'LessOrEqual', 'GreaterOrEqual', 'Less', 'Greater']
BINOPS = ['Plus', 'Minus', 'Times', 'Divide', 'Power', 'bioMin', 'bioMax', 'And', 'Or'] + COMPARISONS
NARYOPS = ['bioMultSum', 'BelongsTo', 'BelongsToHalf', 'Elem', 'ConditionalSum', 'bioLinearUtility', '_bioLogLogit', '_bioLogLogitFullChoiceSet']

# two fixed parameters with different values whose order of appearance (a_fix, Z_fix) is not their sorted order
BETAS = [('b2', True, ['1/2', '3']), ('B10', True, ['2', '-1']), ('a_fix', False, ['3/2', '3/2']), ('Z_fix', False, ['-2', '-2'])]
VARS = [('x', ['2', '1/2', '-1']), ('y', ['1', '3', '3']), ('av', ['1', '0', '1'])]


def pool_small(**kw) -> Pool:
    return Pool(
        betas=BETAS, vars=VARS,
        leaves=[('num', '2'), ('beta', 1), ('beta', 2), ('var', 1), ('var', 2)],
        unops=UNOPS, binops=BINOPS, naryops=NARYOPS, **kw,
    )


def pool_full(**kw) -> Pool:
    return Pool(
        betas=BETAS, vars=VARS,
        leaves=[('num', '2'), ('num', '1/2'), ('num', '1'), ('beta', 1), ('beta', 2), ('beta', 3), ('beta', 4), ('var', 1), ('var', 2), ('var', 3)],
        unops=UNOPS, binops=BINOPS, naryops=NARYOPS + ['bioMultSum3'], **kw,
    )


def pool_draws(**kw) -> Pool:
    """integrands for the Monte-Carlo operator: two draw variables of different (user-defined) types whose sorted
    order (alpha < zeta) differs from their order of appearance; 3 observations x 3 draws"""
    return Pool(
        betas=BETAS[:2], vars=VARS[:2],
        leaves=[('num', '2'), ('beta', 1), ('var', 1), ('draw', 1), ('draw', 2)],
        unops=UNOPS, binops=BINOPS, naryops=['bioMultSum', 'Elem', 'ConditionalSum'],
        draws=[('zeta', 'TZ', [['1', '2', '1/2'], ['3', '1', '2'], ['1/2', '1/2', '3']]),
               ('alpha', 'TA', [['2', '1', '1'], ['1/2', '3', '1'], ['2', '2', '1/2']])],
        ndraws=3, **kw,
    )


def pool_literals(**kw) -> Pool:
    """numeric literals that need more than six significant digits, below every unary operator (one operator only: the
    products of such numbers leave TLC's 32-bit integers)"""
    return Pool(
        betas=BETAS[:1], vars=VARS[:1],
        leaves=[('num', '1234567/1000000'), ('num', '12345678'), ('num', '-31/8'), ('num', '1000001/1000000'), ('beta', 1),
                ('num', '1'), ('num', '1000000001'), ('num', '1000000000')],
        # equality is exact: 1000000000 and 1000000001 are different numbers (comparisons of rationals that need no product)
        unops=['UnaryMinus', 'exp', 'log', 'logzero', 'sin', 'cos', 'bioNormalCdf'], binops=['Equal', 'NotEqual'], naryops=[], bound=2000000000, **kw,
    )


def pool_mc(**kw) -> Pool:
    """formulas CONTAINING the Monte-Carlo operator (the shape of a mixed model: log(MonteCarlo(f(beta, draws)))):
    two free parameters, one column, two draw variables of different user-defined types; 3 observations x 3 draws"""
    return Pool(
        betas=BETAS[:2], vars=VARS[:2],
        leaves=[('num', '2'), ('beta', 1), ('beta', 2), ('var', 1), ('draw', 1), ('draw', 2)],
        unops=['MonteCarlo', 'exp', 'log', 'UnaryMinus', 'PowerConstant'], binops=['Plus', 'Minus', 'Times', 'Divide', 'bioMax'],
        naryops=['bioMultSum'],
        draws=[('zeta', 'TZ', [['1', '2', '1/2'], ['3', '1', '2'], ['1/2', '1/2', '3']]),
               ('alpha', 'TA', [['2', '1', '1'], ['1/2', '3', '1'], ['2', '2', '1/2']])],
        ndraws=3, **kw,
    )


def pool_panel(**kw) -> Pool:
    """panel data with draws (the shape of a mixed model on panel data: log(MonteCarlo(PanelLikelihoodTrajectory(f)))):
    4 observations of 2 individuals (3 + 1), 3 draws per individual"""
    return Pool(
        betas=BETAS[:2], vars=[('x', ['1', '2', '1/2', '3'])],
        leaves=[('beta', 1), ('beta', 2), ('var', 1), ('draw', 1)],
        unops=['MonteCarlo', 'PanelLikelihoodTrajectory', 'exp', 'log'], binops=['Plus', 'Times'], naryops=[],
        draws=[('zeta', 'TZ', [['1', '2', '1/2'], ['3', '1', '2']])],
        ndraws=3, panel=[1, 1, 1, 2], **kw,
    )


def pool_mid(**kw) -> Pool:
    return Pool(
        betas=BETAS, vars=VARS,
        leaves=[('num', '2'), ('num', '1'), ('beta', 1), ('beta', 2), ('beta', 3), ('beta', 4), ('var', 1), ('var', 2), ('var', 3)],
        unops=UNOPS, binops=BINOPS, naryops=NARYOPS, **kw,
    )


# ------------------------------------------------------------------------------ real objects
def database(pool: Pool, name: str = 'vb'):
    import numpy as np
    import pandas as pd
    import biogeme.database as db

    df = pd.DataFrame({n: [float(q(v)) for v in vals] for n, vals in pool.vars})
    if pool.panel:
        df['unit_id'] = [10 * u for u in pool.panel]
    d = db.Database(name, df)
    if pool.panel:
        d.panel('unit_id')
    if pool.draws:
        def gen(vals):
            table = np.array([[float(q(v)) for v in obs] for obs in vals])

            def g(sample_size, number_of_draws):
                return table[:sample_size, :number_of_draws].copy()

            return g

        d.set_random_number_generators({typ: (gen(vals), f'deterministic series of {name_}') for name_, typ, vals in pool.draws})
    return d


def beta_dict(pool: Pool, point: int, only_free: bool = True) -> dict:
    return {n: float(q(vals[point])) for n, fr, vals in pool.betas if fr or not only_free}


class Builder:
    """Builds the biogeme expression denoted by an emitted DAG.

    share=True: one Python object per DAG node (sharing as in the DAG);
    share=False: the tree unfolding (a fresh object per occurrence)."""

    def __init__(self, pool: Pool, ops: list, share: bool = True, init_point: int = 0):
        self.pool = pool
        self.ops = ops
        self.share = share
        self.nl = len(pool.leaves)
        self.memo: dict[int, object] = {}
        self.init_point = init_point

    def node(self, i: int) -> dict:
        if i <= self.nl:
            l = self.pool.leaves[i - 1]
            return dict(op={'num': 'Numeric', 'beta': 'Beta', 'var': 'Variable', 'draw': 'bioDraws'}[l[0]], leaf=l)
        return self.ops[i - self.nl - 1]

    def build(self, i: int):
        if self.share and i in self.memo:
            return self.memo[i]
        e = self._build(i)
        if self.share:
            self.memo[i] = e
        return e

    def _build(self, i: int):
        import biogeme.expressions as ex
        from biogeme.expressions import _bioLogLogit, _bioLogLogitFullChoiceSet
        from biogeme.expressions.unary_expressions import PowerConstant, UnaryMinus
        from biogeme.expressions import binary_expressions as be
        from biogeme.expressions import comparison_expressions as ce

        n = self.node(i)
        op = n['op']
        if op == 'Numeric':
            return ex.Numeric(float(q(n['leaf'][1])))
        if op == 'Beta':
            name, free, vals = self.pool.betas[n['leaf'][1] - 1]
            return ex.Beta(name, float(q(vals[self.init_point])), None, None, 0 if free else 1)
        if op == 'Variable':
            return ex.Variable(self.pool.vars[n['leaf'][1] - 1][0])
        if op == 'bioDraws':
            name, typ, _ = self.pool.draws[n['leaf'][1] - 1]
            return ex.bioDraws(name, typ)
        kids = n['kids']
        k = [self.build(j) for j in kids]
        if op in ('Plus', 'Minus', 'Times', 'Divide', 'Power', 'bioMin', 'bioMax', 'And', 'Or'):
            return getattr(be, op)(k[0], k[1])
        if op in COMPARISONS:
            return getattr(ce, op)(k[0], k[1])
        if op == 'UnaryMinus':
            return UnaryMinus(k[0])
        if op == 'PowerConstant':
            return PowerConstant(k[0], float(F(n['num'][0], n['num'][1])))
        if op in ('exp', 'log', 'logzero', 'sin', 'cos', 'bioNormalCdf', 'MonteCarlo', 'PanelLikelihoodTrajectory'):
            return getattr(ex, op)(k[0])
        if op == 'bioMultSum':
            return ex.bioMultSum(k)
        if op == 'BelongsTo':
            div = F(n['num'][0], n['num'][1]) if n['num'][0] else F(1)
            return ex.BelongsTo(k[0], {float(F(key) / div) for key in n['keys']})
        if op == 'Elem':
            return ex.Elem({key: k[1 + j] for j, key in enumerate(n['keys'])}, k[0])
        if op == 'ConditionalSum':
            return ex.ConditionalSum(
                [ex.ConditionalTermTuple(condition=k[2 * j], term=k[2 * j + 1]) for j in range(len(k) // 2)]
            )
        if op == 'bioLinearUtility':
            return ex.bioLinearUtility(
                [ex.LinearTermTuple(beta=k[2 * j], x=k[2 * j + 1]) for j in range(len(k) // 2)]
            )
        if op in ('_bioLogLogit', '_bioLogLogitFullChoiceSet'):
            if op == '_bioLogLogitFullChoiceSet':
                return _bioLogLogitFullChoiceSet({key: k[1 + j] for j, key in enumerate(n['keys'])}, k[0])
            util = {key: k[1 + 2 * j] for j, key in enumerate(n['keys'])}
            # the availability dictionary is written in the REVERSE key order: the pairing is by alternative id
            av = {key: k[2 + 2 * j] for j, key in reversed(list(enumerate(n['keys'])))}
            return _bioLogLogit(util, av, k[0])
        raise KeyError(op)

    def py_accepts(self, i: int) -> bool:
        """The pure-Python evaluator defines get_value for this node and all descendants
        (table B.2 of DESIGN.md) and no data variable occurs."""
        n = self.node(i)
        if n['op'] in ('Variable', 'BelongsTo', 'bioLinearUtility', 'bioNormalCdf', 'MonteCarlo', 'bioDraws', 'PanelLikelihoodTrajectory'):
            return False
        return all(self.py_accepts(j) for j in n.get('kids', []))


def canonical(ops: list, root: int, nl: int) -> str:
    """Canonical text of the tree unfolding (used to count distinct formulas)."""
    memo = {}

    def go(i):
        if i <= nl:
            return f'L{i}'
        if i in memo:
            return memo[i]
        n = ops[i - nl - 1]
        s = f"{n['op']}[{n['num']}|{n['keys']}](" + ','.join(go(j) for j in n['kids']) + ')'
        memo[i] = s
        return s

    return go(root)


def reach(ops: list, root: int, nl: int) -> set:
    seen = set()
    stack = [root]
    while stack:
        i = stack.pop()
        if i in seen:
            continue
        seen.add(i)
        if i > nl:
            stack.extend(ops[i - nl - 1]['kids'])
    return seen


def features(ops: list, root: int, nl: int) -> list:
    """Structural features of a DAG that known findings refer to."""
    out = set()
    for i in reach(ops, root, nl):
        if i <= nl:
            continue
        n = ops[i - nl - 1]
        k = n['kids']
        if n['op'] == 'ConditionalSum' and len(set(k[0::2])) < len(k[0::2]):
            out.add('ConditionalSum.same_condition_node_twice')
        if n['op'] == 'bioLinearUtility' and len(set(k[0::2])) < len(k[0::2]):
            out.add('bioLinearUtility.same_beta_twice')
        if n['op'] == 'PowerConstant' and k[0] > nl:
            out.add('PowerConstant.over_operator_child')
    # a node used both in a value-only slot (choice / availability / key / condition) of some
    # operator and in a differentiated slot somewhere in the formula
    value_only, other = set(), set()
    for i in reach(ops, root, nl):
        if i <= nl:
            continue
        n = ops[i - nl - 1]
        k = n['kids']
        if n['op'] == '_bioLogLogit':
            vo = {0} | {2 + 2 * j for j in range(len(n['keys']))}
        elif n['op'] == '_bioLogLogitFullChoiceSet':
            vo = {0}
        elif n['op'] == 'Elem':
            vo = {0}
        elif n['op'] == 'ConditionalSum':
            vo = set(range(0, len(k), 2))
        elif n['op'] in COMPARISONS or n['op'] in ('And', 'Or', 'BelongsTo'):
            vo = set(range(len(k)))        # the operands of comparisons and logical operators are evaluated for their value only
        else:
            vo = set()
        for slot, kid in enumerate(k):
            (value_only if slot in vo else other).add(kid)
    if value_only & other:
        out.add('node_shared_between_value_only_and_differentiated_slot')
    return sorted(out)
