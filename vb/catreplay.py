"""Replay of what TLC printed from specs/Catalog.tla into the real Catalog / Controller /
CentralController / Configuration classes (property C16).

`check_table`   one structure: every configuration (identifier, selected members, values of the
                configured and of the hand-written formula, every permutation of the terms),
                the set of configurations, iteration, the operator catalogue, and -- for helper
                generated structures -- the documented shape of what the helper returns.
`replay_paths`  operator sequences with the configuration the specification expects after each
                step (also the histories of BehindSpec: one controller moved individually, then the
                configuration re-selected / an operator given the configuration held before).
`replay_confobj` histories of one Configuration object (ConfSpec: create / read / assign).
`check_order`   structures whose catalogs list the names of a shared controller in another order:
                verdict of the specification against what the constructors do.
All return {'n': evaluations, 'mismatches': [{'key', 'detail', 'match'}], ...}; they never
decide anything themselves beyond comparing with the printed expectations.
"""

from __future__ import annotations

import itertools
import random
import zlib

from .catenv import Real, Struct, database, dec, handwritten, show_tree

SEVERAL_TRIES = 64


class Table:
    """Expected observables of one structure, as printed by TLC (kind = meta / conf)."""

    def __init__(self, st: Struct, emitted: list):
        self.st = st
        metas = [e for e in emitted if e.get('kind') == 'meta' and e['label'] == st.label]
        self.meta = metas[0]
        self.rows = {}
        for e in emitted:
            if e.get('kind') == 'conf' and e['label'] == st.label:
                self.rows[tuple(e['cfg'])] = e
        self.ids = sorted(dec(i) for i in self.meta['ids'])
        self.id_of = {cfg: dec(r['id']) for cfg, r in self.rows.items()}
        self.cfg_of = {v: k for k, v in self.id_of.items()}
        self.sorted_names = [dec(n) for n in self.meta['sorted']]

    def sel(self, cfg) -> dict:
        return {dec(s['cat']): dec(s['alt']) for s in self.rows[tuple(cfg)]['sel']}


def _mm(out, key, match, *context, **detail):
    """Record one mismatch.  `detail` = what the call site states explicitly; `context` = dictionaries of
    surrounding facts (the step being replayed, what _state_mismatch found, ...).  The merge can never fail
    and never loses a value: a context key that is already present with ANOTHER value is kept under
    `context.<key>` (a step context and a call site may both know a `want`, a `got`, a `step` ...)."""
    merged = dict(detail)
    for ctx in context:
        for k, v in (ctx or {}).items():
            kk = k
            while kk in merged and merged[kk] != v:
                kk = 'context.' + kk
            merged.setdefault(kk, v)
    out.append(dict(key=key, detail=merged, match=match))


def _values(expr, db, betas):
    return [float(v) for v in expr.get_value_c(database=db, betas=betas, prepare_ids=True)]


def _state_mismatch(real: Real, tab: Table, cfg, where: str, light: bool = False):
    """Compare the whole observable state of the real objects with the specification's.
    light: only what can be read WITHOUT asking the central controller (asking it is itself a call that an
    implementation may use to refresh what it remembers: on half of the paths the state is read passively)."""
    want_id = tab.id_of[tuple(cfg)]
    if not light:
        got = real.cc.get_configuration().get_string_id()
        if got != want_id:
            return dict(what='get_configuration', where=where, got=got, want=want_id)
        got = str(real.expr.current_configuration())
        if got != want_id:
            return dict(what='current_configuration', where=where, got=got, want=want_id)
    for name, alt in tab.sel(cfg).items():
        for cat in real.catalogs.get(name, [None]):
            if cat is None:
                return dict(what='catalog missing', where=where, catalog=name)
            if cat.selected_name() != alt:
                return dict(what='selected member', where=where, catalog=name, got=cat.selected_name(), want=alt, configuration=want_id)
            if cat.selected().expression is not cat.named_expressions[[n.name for n in cat.named_expressions].index(alt)].expression:
                return dict(what='selected expression object', where=where, catalog=name, configuration=want_id)
    return None


# ------------------------------------------------------------------------------------- table
def check_table(args):
    st, tab, mutate = args
    from biogeme.configuration import Configuration, SelectionTuple

    out = []
    n = 0
    real = Real(st, mutate=mutate)
    db = database(st)
    betas = real.beta_values()
    facts = dict(struct=st.label)

    # ---- the shape of the structure (decisive for helper-generated catalogs)
    for node in st.nodes:
        if node['op'] != 'cat':
            continue
        c = st.ctrls[node['v'] - 1]
        cats = real.catalogs.get(node['name'])
        n += 1
        if not cats:
            _mm(out, 'shape:catalog-missing', dict(kind='shape', **facts), catalog=node['name'], found=sorted(real.catalogs))
            continue
        for cat in cats:
            names = [m.name for m in cat.named_expressions]
            if names != node['names'] or cat.controlled_by.controller_name != c['name'] \
                    or list(cat.controlled_by.specification_names) != c['alts']:
                _mm(out, 'shape:catalog', dict(kind='shape', **facts), catalog=node['name'], members=names, want_members=node['names'],
                    controller=cat.controlled_by.controller_name, want_controller=c['name'])
    for name, objs in real.controllers.items():
        n += 1
        if len({id(o) for o in objs}) != 1:
            _mm(out, 'shape:controller-objects', dict(kind='shape', **facts), controller=name,
                what='catalogs of one controller name are governed by different Controller objects')
    if sorted(real.catalogs) != sorted({nd['name'] for nd in st.nodes if nd['op'] == 'cat'}):
        _mm(out, 'shape:catalog-set', dict(kind='shape', **facts), got=sorted(real.catalogs),
            want=sorted({nd['name'] for nd in st.nodes if nd['op'] == 'cat'}))

    # ---- the space of configurations
    cc = real.cc
    n += 5
    if [c.controller_name for c in cc.controllers] != tab.sorted_names:
        _mm(out, 'space:controller-order', dict(kind='space', **facts), got=[c.controller_name for c in cc.controllers], want=tab.sorted_names)
    if cc.number_of_configurations() != tab.meta['nconf'] or real.expr.number_of_multiple_expressions() != tab.meta['nconf']:
        _mm(out, 'space:count', dict(kind='space', **facts), got=cc.number_of_configurations(), want=tab.meta['nconf'])
    got_set = real.expr.set_of_configurations()
    got_ids = sorted(c.get_string_id() for c in got_set)
    if got_ids != tab.ids or len(got_set) != tab.meta['nconf']:
        _mm(out, 'space:set_of_configurations', dict(kind='space', **facts), got=got_ids, want=tab.ids)
    if sorted(Configuration.from_string(i).get_string_id() for i in cc.all_configurations_ids) != tab.ids:
        _mm(out, 'space:all_configurations_ids', dict(kind='space', **facts), got=sorted(cc.all_configurations_ids), want=tab.ids)
    ops = cc.prepare_operators()
    if len(ops) != tab.meta['nops']:
        _mm(out, 'space:operator-catalogue', dict(kind='space', **facts), got=sorted(ops), want_count=tab.meta['nops'])

    # ---- every configuration
    cfgs = sorted(tab.rows)
    for pos, cfg in enumerate(cfgs):
        row = tab.rows[cfg]
        want_id = tab.id_of[cfg]
        f = dict(kind='configuration', **facts)
        # leave the configuration first, so that selecting it is a real transition
        other = cfgs[(pos + 1) % len(cfgs)]
        real.expr.configure_catalogs(Configuration.from_string(tab.id_of[other]))
        names = [c['name'] for c in st.ctrls]
        sels = [SelectionTuple(controller=nm, selection=st.ctrls[k]['alts'][cfg[k]]) for k, nm in enumerate(names)]
        how = pos % 3
        if how == 0:
            conf = Configuration(sels)
        elif how == 1:
            conf = Configuration(reversed(sels))
        else:
            conf = Configuration.from_dict({s.controller: s.selection for s in sels})
        n += 1
        if conf.get_string_id() != want_id or str(conf) != want_id:
            _mm(out, 'id:print', f, got=conf.get_string_id(), want=want_id)
        real.expr.configure_catalogs(conf)
        bad = _state_mismatch(real, tab, cfg, 'configure_catalogs')
        n += 1
        if bad:
            _mm(out, 'select:' + bad['what'], dict(kind='select', **facts), bad)
        # value of the configured formula = value the specification computes = hand-written formula
        want_vals = [float(v) for v in row['vals']]
        got_vals = _values(real.expr, db, betas)
        hw = handwritten(st, row['tree'])
        hw_vals = _values(hw, db, betas)
        n += 2
        if got_vals != want_vals:
            _mm(out, 'value:configured', dict(kind='value', path='configured', **facts), configuration=want_id, got=got_vals, want=want_vals,
                handwritten=show_tree(st, row['tree']))
        if hw_vals != want_vals:
            _mm(out, 'value:handwritten', dict(kind='value', path='handwritten', **facts), configuration=want_id, got=hw_vals, want=want_vals,
                handwritten=show_tree(st, row['tree']))
        # every order of the terms
        for text in row['perms']:
            text = dec(text)
            n += 1
            c2 = Configuration.from_string(text)
            if c2.get_string_id() != want_id or c2 != conf or hash(c2) != hash(conf) or c2 not in got_set:
                _mm(out, 'id:parse', f, text=text, got=c2.get_string_id(), want=want_id)
            real.expr.configure_catalogs(Configuration.from_string(tab.id_of[other]))
            cc.set_configuration_from_id(text)
            bad = _state_mismatch(real, tab, cfg, 'set_configuration_from_id')
            if bad:
                _mm(out, 'id:apply:' + bad['what'], f, bad, text=text)
        # parse(print) = identity on the printed form
        if Configuration.from_string(conf.get_string_id()).get_string_id() != conf.get_string_id():
            _mm(out, 'id:roundtrip', f, id=conf.get_string_id())

    # ---- iteration: each configuration exactly once, the formula being configured accordingly
    visited = []
    for e in real.expr:
        cid = str(e.current_configuration())
        visited.append(cid)
        n += 1
        if cid in tab.cfg_of:
            want_vals = [float(v) for v in tab.rows[tab.cfg_of[cid]]['vals']]
            got_vals = _values(e, db, betas)
            if got_vals != want_vals:
                _mm(out, 'iterate:value', dict(kind='iterate', **facts), configuration=cid, got=got_vals, want=want_vals)
            bad = _state_mismatch(real, tab, tab.cfg_of[cid], 'iteration')
            if bad:
                _mm(out, 'iterate:' + bad['what'], dict(kind='iterate', **facts), bad)
    if sorted(visited) != tab.ids:
        _mm(out, 'iterate:visits', dict(kind='iterate', **facts), got=sorted(visited), want=tab.ids)
    return dict(n=n, mismatches=out, configurations=len(cfgs))


# ------------------------------------------------------------------------------------- paths
def _reach(st: Struct, cfg, k: int, d: int):
    """configurations reachable by moving a MULTISET of k controllers by d each (diagnosis only)."""
    sizes = [len(c['alts']) for c in st.ctrls]
    res = set()
    for combo in itertools.combinations_with_replacement(range(len(sizes)), k):
        g = list(cfg)
        for c in combo:
            g[c] = (g[c] + d) % sizes[c]
        res.add(tuple(g))
    return res


VIAS = ('expression', 'central', 'index', 'name', 'second')


def replay_path(st: Struct, tab: Table, path: dict, pidx: int, patch=None, values_from=None, db=None):
    """-> (evaluations, mismatches, stats, last configuration, real objects).
    `values_from`: the value of the configured formula is compared after every step from that index on."""
    from biogeme.configuration import Configuration, SelectionTuple
    from biogeme.controller import CentralController

    out = []
    n = 0
    real = Real(st)
    if patch:
        patch()
    cc = real.cc
    ops = cc.prepare_operators()
    names = [c['name'] for c in st.ctrls]
    facts = dict(struct=st.label)
    cur = tuple(0 for _ in names)
    stats = {}
    bad0 = _state_mismatch(real, tab, cur, 'initial state')
    if bad0:
        _mm(out, 'initial:' + bad0['what'], dict(kind='initial', **facts), bad0)
    for sidx, step in enumerate(path['steps']):
        op = step['op']
        want = tuple(step['cfg'])
        want_id = tab.id_of[want]
        f = dict(kind='operator', op=op, **facts)
        given = tuple(step.get('from', cur))   # the configuration an operator is given to start from
        ctx = dict(step_index=sidx, op=op, a=step['a'], b=step['b'], dir=step['dir'], step=step['step'], circular=step['circ'],
                   before=tab.id_of[cur], want=want_id, via=step.get('via', ''), given=tab.id_of[given])
        n += 1

        def start_config():
            # the CURRENT configuration as the central controller reports it, or the one the caller holds
            if given == cur and (pidx + sidx) % 2 == 0:
                return cc.get_configuration()
            return Configuration.from_string(tab.id_of[given])

        if op == 'setindex':
            name, k = names[step['a'] - 1], step['b']
            via = step.get('via', 'any')
            if via not in VIAS:
                via = VIAS[(pidx + sidx) % len(VIAS)]
            ctx['via'] = via
            if via == 'expression':
                real.expr.select_expression(name, k)
            elif via == 'central':
                cc.set_controller(name, k)
            elif via == 'index':
                cc.dict_of_controllers[name].set_index(k)
            elif via == 'name':
                cc.dict_of_controllers[name].set_name(st.ctrls[step['a'] - 1]['alts'][k])
            else:
                # a second central controller on the same formula: built beside the first one, or installed as
                # the formula's central controller (real.cc remains the first; both are read after every step)
                if (pidx + sidx) % 2:
                    second = CentralController(expression=real.expr)
                else:
                    second = real.expr.set_central_controller()
                second.set_controller(name, k)
        elif op == 'setconf':
            asked = tab.cfg_of[dec(step['text'])] if step.get('text') else want   # the configuration that is asked for
            sels = [SelectionTuple(controller=nm, selection=st.ctrls[k]['alts'][asked[k]]) for k, nm in enumerate(names)]
            if (pidx + sidx) % 2:
                real.expr.configure_catalogs(Configuration(sels))
            else:
                cc.set_configuration(Configuration(reversed(sels)))
        elif op == 'fromstring':
            text = dec(step['text'])
            conf = Configuration.from_string(text)
            if conf.get_string_id() != want_id:
                _mm(out, 'id:parse', dict(kind='configuration', **facts), text=text, got=conf.get_string_id(), want=want_id)
            cc.set_configuration_from_id(text)
        elif op in ('inc', 'dec', 'pair'):
            before = start_config()
            s = step['step']
            if op == 'inc':
                key = f'Increase {names[step["a"] - 1]}'
                direct = cc.increased_controller(controller_name=names[step['a'] - 1], current_config=before, step=s)
            elif op == 'dec':
                key = f'Decrease {names[step["a"] - 1]}'
                direct = cc.decreased_controller(controller_name=names[step['a'] - 1], current_config=before, step=s)
            else:
                key = f'Pair_{names[step["a"] - 1]}_{names[step["b"] - 1]}_{step["dir"]}'
                direct = cc.two_controllers(first_controller_name=names[step['a'] - 1], second_controller_name=names[step['b'] - 1],
                                            direction=step['dir'], current_config=before, step=s)
            if direct[0].get_string_id() != want_id:
                _mm(out, f'operator:{op}:method', f, ctx, got=direct[0].get_string_id())
            if key not in ops:
                _mm(out, "operator:missing", f, ctx, operator_key=key)
            else:
                new, ret = ops[key](before, s)
                if new.get_string_id() != want_id:
                    _mm(out, f'operator:{op}', f, ctx, got=new.get_string_id(), operator_key=key)
                if ret != step['ret'] or direct[1] != step['ret']:
                    _mm(out, f'operator:{op}:count', dict(kind='count', op=op, **facts), ctx, got=ret, want_count=step['ret'])
                if new not in cc.all_configurations:
                    _mm(out, f'operator:{op}:closure', f, ctx, got=new.get_string_id())
        elif op in ('sevinc', 'sevdec'):
            key = 'Increase_several' if op == 'sevinc' else 'Decrease_several'
            before = start_config()
            allowed = {tuple(a) for a in step['allowed']}
            k = step['ret']
            d = 1 if op == 'sevinc' else -1
            reached = False
            seen = set()
            for t in range(SEVERAL_TRIES):
                random.seed(zlib.crc32(f'{st.label}/{pidx}/{sidx}/{t}'.encode()))
                new, ret = ops[key](before, step['step'])
                n += 1
                got_id = new.get_string_id()
                got = tab.cfg_of.get(got_id)
                if got is None or new not in cc.all_configurations:
                    _mm(out, f'operator:{op}:closure', f, ctx, got=got_id)
                    continue
                seen.add(got)
                if ret != k:
                    _mm(out, f'operator:{op}:count', dict(kind='count', op=op, **facts), ctx, got=ret, want_count=k)
                if got not in allowed:
                    right = got in _reach(st, given, k, d)
                    wrong = got in _reach(st, given, k, -d)
                    clause = 'repeated-controller' if right else ('direction' if wrong else 'other')
                    _mm(out, f'operator:{op}:{clause}', dict(kind='several', op=op, clause=clause, **facts), ctx, got=got_id,
                        allowed=sorted(tab.id_of[a] for a in allowed), try_index=t)
                if got == want:
                    reached = True
                    break
            stats['several_tries'] = stats.get('several_tries', 0) + t + 1
            if not reached:
                _mm(out, f'operator:{op}:never-produced', dict(kind='several', op=op, clause='never-produced', **facts), ctx,
                    tries=SEVERAL_TRIES, seen=sorted(tab.id_of[a] for a in seen))
                cc.set_configuration(Configuration.from_string(want_id))
        elif op == 'modify':
            ctrl = cc.dict_of_controllers[names[step['a'] - 1]]
            r = ctrl.modify_controller(step=step['step'], circular=step['circ'])
            moved = abs(want[step['a'] - 1] - cur[step['a'] - 1])
            tag = 'circular' if step['circ'] else ('clamped' if moved != abs(step['step']) else 'inside')
            stats[f'modify_return[{tag},{"+" if step["step"] > 0 else "-"}]:{"step" if r == step["step"] else ("moved" if r == moved else "other")}'] = 1
        elif op == 'iterate':
            visited = [str(e.current_configuration()) for e in real.expr]
            n += len(visited)
            if sorted(visited) != tab.ids:
                _mm(out, 'iterate:visits', dict(kind='iterate', **facts), ctx, got=sorted(visited), want=tab.ids)
            last = tab.cfg_of.get(visited[-1]) if visited else None
            if last is None:
                break
            want = last  # the order of the visit is free: the configuration left behind is the last one visited
        bad = _state_mismatch(real, tab, want, f'after step {sidx} ({op})', light=(pidx % 2 == 1 and sidx + 1 < len(path['steps'])))
        if bad:
            _mm(out, f'state:{op}:' + bad['what'], f, bad, ctx)
            # re-synchronise so that one defect is reported once per path, not at every later step
            for name_, k_ in zip(names, want):
                cc.dict_of_controllers[name_].set_index(k_)
        elif values_from is not None and sidx >= values_from:
            want_vals = [float(v) for v in tab.rows[want]['vals']]
            got_vals = _values(real.expr, db, real.beta_values())
            n += 1
            if got_vals != want_vals:
                _mm(out, f'value:after-step:{op}', dict(kind='value', path='after-step', op=op, struct=st.label), ctx,
                    configuration=tab.id_of[want], got=got_vals, want=want_vals)
        cur = want
    return n, out, stats, cur, real


def replay_paths(args):
    """A batch of paths of one structure.  The value of the configured formula is compared at the
    end of every `value_every`-th path."""
    st, tab, paths, base, value_every, patch = args[:6]
    values_from = args[6] if len(args) > 6 else None
    n = 0
    out = []
    stats = {}
    db = database(st)
    for j, path in enumerate(paths):
        k, mm, s, cur, real = replay_path(st, tab, path, base + j, patch, values_from, db)
        n += k
        for key, v in s.items():
            stats[key] = stats.get(key, 0) + v
        if value_every and (base + j) % value_every == 0:
            want_vals = [float(v) for v in tab.rows[cur]['vals']]
            got_vals = _values(real.expr, db, real.beta_values())
            n += 1
            if got_vals != want_vals:
                _mm(mm, 'value:after-path', dict(kind='value', path='after-operators', struct=st.label), configuration=tab.id_of[cur],
                    got=got_vals, want=want_vals)
        for m in mm[:6]:
            m['detail']['path'] = [(s_['op'], s_['a'], s_['b'], s_['dir'], s_['step'], s_['circ'], s_.get('via', ''), s_.get('from'))
                                   for s_ in path['steps']]
        out += mm[:6]
    return dict(n=n, mismatches=out, stats=stats, paths=len(paths))


def path_key(label: str, path: dict) -> str:
    return label + ':' + ';'.join(
        f"{s['op']},{s['a']},{s['b']},{s['dir']},{s['step']},{int(s['circ'])},{''.join(map(str, s['cfg']))},{dec(s['text'])},"
        f"{s.get('via', '')},{''.join(map(str, s.get('from', [])))}" for s in path['steps'])


# ------------------------------------------------------------------------------------- (c) order of the member names
def check_order(args):
    """One structure whose catalogs share a controller, with the verdict of the specification
    (`refused`: some catalog lists the names in another order than the controller).
    refused by the library (BiogemeError)          -> agrees with `refused`, disagrees with `accepted`;
    accepted by the library                        -> the whole table of the specification (written for the reading
                                                      "a selection designates the member of that NAME") must hold:
                                                      every catalog presents the member with the matching name, the
                                                      configured formula has the value of the hand-written one."""
    st, tab, patch = args
    from biogeme.exceptions import BiogemeError

    if patch:
        patch()
    out = []
    verdict = tab.meta['verdict']
    facts = dict(kind='order', struct=st.label, verdict=verdict)
    info = dict(verdict=verdict, misordered=sorted(dec(c) for c in tab.meta['misordered']))
    try:
        Real(st)
        built, err = True, None
    except BiogemeError as exc:
        built, err = False, ('BiogemeError', str(exc)[:300])
    except Exception as exc:  # noqa: BLE001 -- any other exception is itself a finding
        built, err = False, (type(exc).__name__, str(exc)[:300])
    n = 1
    if not built:
        if err[0] != 'BiogemeError':
            _mm(out, 'order:wrong-exception', dict(clause='wrong-exception', **facts), info, got=err, want='BiogemeError or a structure that works by name')
        elif verdict != 'refused':
            _mm(out, 'order:well-formed-structure-refused', dict(clause='well-formed-refused', **facts), info, got=err, want=verdict)
        return dict(n=n, mismatches=out, outcome='refused', configurations=0)
    res = check_table((st, tab, None))
    n += res['n']
    if verdict == 'refused':
        # accepted although the documented rule refuses it: only tolerable if it then works BY NAME
        for m in res['mismatches']:
            _mm(out, 'order:accepted:' + m['key'], dict(clause='accepted-but-not-by-name', table_key=m['key'], **facts), info, m['detail'],
                what='the structure is accepted although a catalog lists the names of its controller in another order, and the '
                     'catalogs of that controller do not present the member with the matching name')
    else:
        out += res['mismatches']
    return dict(n=n, mismatches=out, outcome='accepted', configurations=res['configurations'])


# ------------------------------------------------------------------------------------- (a) one Configuration object
READERS = ('get_string_id', 'str', 'repr', 'selections', 'equality', 'roundtrip', 'get_selection')


def replay_confobj(args):
    """Histories of ONE Configuration object (ConfSpec): create / read / assign, with the observables the
    specification expects after each step (identifier, sorted pairs, equality with an object built from each
    selection of the set)."""
    st, csels, paths, base, patch = args
    from biogeme.configuration import Configuration, SelectionTuple

    if patch:
        patch()
    names = [c['name'] for c in st.ctrls]
    out = []
    n = 0

    def tuples(sel):
        return [SelectionTuple(controller=names[c], selection=st.ctrls[c]['alts'][v]) for c, v in enumerate(sel) if v >= 0]

    def build(sel, how):
        lst = tuples(sel)
        if how == 0:
            return Configuration(lst)
        if how == 1:
            return Configuration(list(reversed(lst)))
        if how == 2:
            return Configuration.from_dict({t.controller: t.selection for t in reversed(lst)})
        return Configuration(t for t in lst)

    for j, path in enumerate(paths):
        pidx = base + j
        fresh = [build(sel, 0) for sel in csels]   # one independent object per selection of the set
        obj = None
        mm = []
        history = [(s['op'], s['sel']) for s in path['steps']]

        def read(step, sidx, where):
            nonlocal n
            want_id = dec(step['id'])
            pairs = [(dec(p['ctrl']), dec(p['alt'])) for p in step['pairs']]
            f = dict(kind='confobj', struct=st.label)
            ctx = dict(step_index=sidx, where=where, history=history[:sidx + 1], want=want_id)
            start = (pidx + sidx) % len(READERS)
            for reader in READERS[start:] + READERS[:start]:
                n += 1
                if reader == 'get_string_id':
                    got = obj.get_string_id()
                    if got != want_id:
                        _mm(mm, 'confobj:get_string_id', dict(reader=reader, **f), ctx, got=got)
                elif reader == 'str':
                    if str(obj) != want_id:
                        _mm(mm, 'confobj:str', dict(reader=reader, **f), ctx, got=str(obj))
                elif reader == 'repr':
                    if repr(obj) != repr(want_id):
                        _mm(mm, 'confobj:repr', dict(reader=reader, **f), ctx, got=repr(obj), want=repr(want_id))
                elif reader == 'selections':
                    got = [tuple(t) for t in obj.selections]
                    if got != pairs or obj.set_of_controllers() != {p[0] for p in pairs}:
                        _mm(mm, 'confobj:selections', dict(reader=reader, **f), ctx, got=got, want=pairs)
                elif reader == 'equality':
                    for k, (other, same) in enumerate(zip(fresh, step['eq'])):
                        got = (obj == other, other == obj, obj in {other}, other in {obj}, hash(obj) == hash(other))
                        ok = all(got) if same else not any(got[:4])
                        if not ok:
                            _mm(mm, 'confobj:equality', dict(reader=reader, **f), ctx, other=other.get_string_id(), want_equal=same,
                                got=dict(zip(('obj==other', 'other==obj', 'obj in {other}', 'other in {obj}', 'same hash'), got)))
                            break
                elif reader == 'roundtrip':
                    back = Configuration.from_string(str(obj))
                    got = (back.get_string_id(), [tuple(t) for t in back.selections])
                    if got != (want_id, pairs) or back != obj or hash(back) != hash(obj):
                        _mm(mm, 'confobj:roundtrip', dict(reader=reader, **f), ctx, got=got, want=(want_id, pairs), equal_to_object=(back == obj))
                else:
                    want_sel = {nm: None for nm in names}
                    want_sel.update(dict(pairs))
                    got = {nm: obj.get_selection(nm) for nm in names}
                    if got != want_sel:
                        _mm(mm, 'confobj:get_selection', dict(reader=reader, **f), ctx, got=got, want=want_sel)

        last = None
        for sidx, step in enumerate(path['steps']):
            op = step['op']
            how = (pidx + sidx) % 4
            if op == 'create':
                obj = build(step['sel'], how)
            elif op == 'empty':
                obj = Configuration()
            elif op == 'assign':
                lst = tuples(step['sel'])
                obj.selections = lst if how % 2 == 0 else list(reversed(lst))
            elif op == 'read':
                read(step, sidx, 'ReadId step')
            last = step
            n += 1
        if last is not None and last['set'] and last['op'] != 'read':
            read(last, len(path['steps']) - 1, 'after the last step')
        out += mm[:4]
    return dict(n=n, mismatches=out, paths=len(paths))


def confobj_key(label: str, path: dict) -> str:
    return label + ':confobj:' + ';'.join(f"{s['op']}{''.join(map(str, s['sel']))}" for s in path['steps'])
