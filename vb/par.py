"""Parallel, crash-isolated map over items, for replaying behaviours into the real code.

The C++ engine keeps a sticky error state, so after any exception the process that saw it is
abandoned and a fresh fork continues with the remaining items."""

from __future__ import annotations

import os
import pickle
import tempfile

from .rt import forked


def _run_batch(fn, batch):
    out = []
    for it in batch:
        try:
            out.append(('ok', fn(it)))
        except BaseException as e:  # noqa
            out.append(('exc', (type(e).__name__, [c.__name__ for c in type(e).__mro__], str(e)[:400])))
            break
    return out


def _run_stripe(fn, items, idxs, chunk, timeout):
    res = {}
    pos = 0
    while pos < len(idxs):
        batch = idxs[pos : pos + chunk]
        st, val = forked(_run_batch, fn, [items[i] for i in batch], timeout=timeout)
        if st == 'ok' and isinstance(val, list) and val:
            for i, r in zip(batch, val):
                res[i] = r
            pos += len(val)
        else:
            # the child died (or returned nothing): blame the first item, go on with the next
            if chunk > 1 and len(batch) > 1:
                # retry one by one to find the culprit
                st1, val1 = forked(_run_batch, fn, [items[batch[0]]], timeout=timeout)
                if st1 == 'ok' and isinstance(val1, list) and val1:
                    res[batch[0]] = val1[0]
                else:
                    res[batch[0]] = ('died', repr(val1 if st1 != 'ok' else val)[:200])
            else:
                res[batch[0]] = ('died', repr(val)[:200])
            pos += 1
    return res


def pmap(fn, items, nproc: int | None = None, chunk: int = 40, timeout: float = 300.0, quiet: bool = True):
    """-> list aligned with items of ('ok', result) | ('exc', info) | ('died', info)."""
    items = list(items)
    if not items:
        return []
    nproc = min(nproc or os.cpu_count() or 4, len(items))
    stripes = [list(range(k, len(items), nproc)) for k in range(nproc)]
    tmpd = tempfile.mkdtemp(prefix='vb-par-', dir=os.environ.get('VERIF_SCRATCH', '/var/tmp'))
    pids = []
    for k, idxs in enumerate(stripes):
        pid = os.fork()
        if pid == 0:
            try:
                if quiet:  # the engine prints warnings from C++
                    dn = os.open(os.devnull, os.O_WRONLY)
                    os.dup2(dn, 1)
                    os.dup2(dn, 2)
                res = _run_stripe(fn, items, idxs, chunk, timeout)
                with open(os.path.join(tmpd, f'{k}.pkl'), 'wb') as f:
                    pickle.dump(res, f)
            finally:
                os._exit(0)
        pids.append(pid)
    for pid in pids:
        os.waitpid(pid, 0)
    out = [('died', 'no result')] * len(items)
    for k in range(len(stripes)):
        path = os.path.join(tmpd, f'{k}.pkl')
        if os.path.exists(path):
            with open(path, 'rb') as f:
                for i, r in pickle.load(f).items():
                    out[i] = r
    import shutil

    shutil.rmtree(tmpd, ignore_errors=True)
    return out
