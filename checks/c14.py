"""C14 -- what is written to disk reads back unchanged and never overwrites earlier output.

Three specifications decide the verdicts:

specs/Files.tla (+ FileNames.tla, FilesTrace.tla)  the output directory: every output operation
    (write_html / write_pickle / write_latex / write_f12, dump_on_file, estimate, validate,
    create_backup, recycle, load) creates exactly the documented fresh name(s) and leaves every
    existing file as it was.  TLC explores every history of the scenario alphabets from several
    initial directories (holes in the numbering, colliding model names, 101 earlier pickles) and
    checks NoOverwrite / NothingLost / FreshNames / LeastRule / LoadsWhatWasWritten on the model;
    (B) each history is replayed with the REAL functions in a scratch directory and compared after
    every step, (C) the recorded (name -> sha256) snapshots are judged by FilesTrace.tla.
specs/Parameters.tla   the parameter set and its TOML file: Set / Dump / Read / hand edits / missing
    file; the table of parameters (kinds, defaults, admissible values, values to refuse, admissible
    spellings) is extracted from biogeme.default_parameters; TLC prints one history per EDGE of the
    abstract state graph; each is replayed on the real Parameters and the real file (parsed with
    tomllib) is compared with the specification's file.
specs/ResultsIO.tla (extends Results.tla)  Load(WritePickle(r)) = r on every statistic and table, the
    earlier pickles stay, and what each report lists; replayed on real bioResults objects.
"""

from __future__ import annotations

import os

for _v in ('OMP_NUM_THREADS', 'OPENBLAS_NUM_THREADS', 'MKL_NUM_THREADS'):
    os.environ.setdefault(_v, '1')

import copy
import json
import sys
import time
from concurrent.futures import ThreadPoolExecutor

sys.path.insert(0, '/verif')

from vb import check, par, rt, tlc
from vb import filesio as fio
from vb import paramio as pio
from vb import resultsio as rio

PID = 'C14'


def run_tlc(*a, **kw):
    """tlc.run; a JVM that vanished without a verdict (killed from outside) is started again"""
    res = None
    for _ in range(3):
        res = tlc.run(*a, **kw)
        killed = res.error is not None and res.error != 'timeout' and 'Error:' not in res.raw and res.violated is None
        if not killed:
            break
    return res


class Agg:
    """violations grouped by (key, facts): one report per group with a count and a few examples"""

    def __init__(self, chk):
        self.chk = chk
        self.groups: dict = {}

    def add(self, key: str, detail: dict, match: dict):
        g = self.groups.setdefault((key, json.dumps(match, sort_keys=True)), dict(count=0, examples=[], match=match))
        g['count'] += 1
        if len(g['examples']) < 3:
            g['examples'].append(detail)

    def flush(self):
        for (key, _), g in self.groups.items():
            self.chk.violation(key, dict(count=g['count'], examples=g['examples']), match=g['match'])


def facts(key: str, m: dict) -> dict:
    """what a known-finding matcher may look at"""
    f = dict(key=key, area=key.split(':')[0])
    if 'raises' in key:
        f['kind'] = 'exception'
        f['exception'] = key.split('raises ')[-1]
    if 'message' in m:
        f['message'] = m['message'][:60]
    if 'op' in m and isinstance(m['op'], list):
        f['step'] = m['op'][0]
    return f


RESULTS_CFG = '''SPECIFICATION IOSpec
CONSTANTS
 Outcomes <- {family}
 Companions <- MC_Companions
 CompileStats <- MC_CompileStats
 Mutant = "none"
 StaleChoices <- {stale}
 IOMutant = "{mutant}"
INVARIANT RawWellFormed
INVARIANT RoundTrip
INVARIANT KeepsEarlier
INVARIANT ReportsComplete
INVARIANT ReportsRoundTrip
INVARIANT IOEmitInv
'''


def body(chk: check.Check):
    pool = ThreadPoolExecutor(max_workers=6)
    try:
        _body(chk, pool)
    except BaseException:
        # do not sit out the TLC runs that are still going (only the children of THIS process)
        pool.shutdown(wait=False, cancel_futures=True)
        import subprocess
        subprocess.run(['pkill', '-P', str(os.getpid()), '-f', 'tlc2.TLC'], check=False)
        raise


def _body(chk: check.Check, pool):
    # replays create and delete thousands of small files: tmpfs when there is one (TLC stays in /var/tmp)
    saved = os.environ.get('VERIF_SCRATCH')
    if not saved and os.access('/dev/shm', os.W_OK):
        os.environ['VERIF_SCRATCH'] = '/dev/shm'
    rt.setup(chk.seed)
    if saved is None:
        os.environ.pop('VERIF_SCRATCH', None)
    quick = chk.tier == 'quick'
    agg = Agg(chk)
    tm: dict = {}
    chk.rule = ('histories of output operations in one directory, Set/Dump/Read/edit histories of the parameter file (one per edge '
                'of the abstract state graph, per parameter) and raw estimation outcomes x earlier pickles, all enumerated by TLC '
                'and replayed through the real biogeme; distinct = distinct histories / outcomes replayed; evaluations = '
                'comparisons with the specification')

    # ------------------------------------------------------------------ launch every TLC run
    scns = fio.scenarios(chk.tier)
    fjobs = {}
    for sc in scns:
        kw = dict(extra_modules={'FilesGen': sc.module()}, timeout=1500, heap='3g')
        if sc.simulate:
            kw.update(simulate=sc.simulate, depth=sc.max_ops + 1, seed=chk.seed % 100000 + 1, workers=1)
            cfgtxt = sc.cfg(fio.MODEL_INVARIANTS + ['EmitInv'])
        else:
            kw.update(workers=3)
            cfgtxt = sc.cfg(fio.MODEL_INVARIANTS + ['EmitInv'], fio.MODEL_PROPERTIES)
        fjobs[sc.label] = pool.submit(run_tlc, 'FilesGen', cfgtxt, **kw)
    sc0 = scns[0]
    fmut = {
        'overwrite': pool.submit(run_tlc, 'FilesGen', sc0.cfg(fio.MODEL_INVARIANTS, fio.MODEL_PROPERTIES, mutant='overwrite', max_ops=2),
                                 extra_modules={'FilesGen': sc0.module()}, workers=1, timeout=600, heap='1g'),
        'highest': pool.submit(run_tlc, 'FilesGen', sc0.cfg(fio.MODEL_INVARIANTS, fio.MODEL_PROPERTIES, mutant='highest', max_ops=2),
                               extra_modules={'FilesGen': sc0.module()}, workers=1, timeout=600, heap='1g'),
    }
    sc_rec = [s for s in scns if s.label == 'estimate+recycle'][0]
    frecycle = pool.submit(run_tlc, 'FilesGen', sc_rec.cfg(['RecycleLatest'], max_ops=3), extra_modules={'FilesGen': sc_rec.module()},
                           workers=1, timeout=600, heap='1g')
    dense = fio.Scenario('recycle, dense numbering', [fio.op('estimate', 'm'), fio.op('recycle', 'm'), fio.op('write', 'pickle', 'm', 'o1')],
                         [set(), {'m.pickle'}, {'m.pickle', 'm~00.pickle'}], 4, max_env=0)
    fdense = pool.submit(run_tlc, 'FilesGen', dense.cfg(['RecycleLatest']), extra_modules={'FilesGen': dense.module()},
                         workers=1, timeout=600, heap='1g')

    rows = pio.table(chk.tier)
    singles = [[r['key']] for r in rows]
    pjobs = {}
    if quick:
        pjobs['every parameter alone, histories of <= 4 steps'] = (rows, pool.submit(
            run_tlc, 'ParamGen', pio.cfg(4, pio.MODEL_INVARIANTS + ['EmitInv'], pio.MODEL_PROPERTIES),
            extra_modules={'ParamGen': pio.module(rows, singles)}, workers=4, timeout=1500, heap='3g'))
    else:
        pjobs['every parameter alone, full value sets, histories of <= 3 steps'] = (rows, pool.submit(
            run_tlc, 'ParamGen', pio.cfg(3, pio.MODEL_INVARIANTS + ['EmitInv'], pio.MODEL_PROPERTIES),
            extra_modules={'ParamGen': pio.module(rows, singles)}, workers=4, timeout=1500, heap='4g'))
        qrows = pio.table('quick')
        by = {r['key']: r for r in qrows}
        pairs = [['Output/generate_html', 'Output/generate_pickle'], ['Output/identification_threshold', 'Output/only_robust_stats'],
                 ['Estimation/optimization_algorithm', 'Estimation/save_iterations'], ['SimpleBounds/second_derivatives', 'SimpleBounds/tolerance'],
                 ['MonteCarlo/number_of_draws', 'MonteCarlo/seed'], ['Biogeme/version', 'TrustRegion/dogleg'],
                 ['SimpleBounds/initial_radius', 'MultiThreading/number_of_threads']]
        assert all(k in by for pr in pairs for k in pr)
        pjobs['pairs of parameters, histories of <= 4 steps'] = (qrows, pool.submit(
            run_tlc, 'ParamGen', pio.cfg(4, pio.MODEL_INVARIANTS + ['EmitInv'], pio.MODEL_PROPERTIES),
            extra_modules={'ParamGen': pio.module(qrows, pairs)}, workers=4, timeout=1500, heap='4g'))
        walk = ['Output/generate_html', 'Output/identification_threshold', 'Estimation/optimization_algorithm',
                'Estimation/bootstrap_samples', 'SimpleBounds/second_derivatives', 'MonteCarlo/seed', 'Biogeme/version',
                'Specification/missing_data']
        assert all(k in by for k in walk)
        # (in simulation mode TLC evaluates EmitInv on every generated successor: every one-step deviation
        #  from the walks is printed as well)
        pjobs['random walks over 8 parameters of different sections at once'] = (qrows, pool.submit(
            run_tlc, 'ParamGen', pio.cfg(10, ['TypeOK', 'RoundTrip', 'EmitInv'], view=False),
            extra_modules={'ParamGen': pio.module(qrows, [walk])}, workers=1, timeout=1500, heap='4g',
            simulate=dict(num=25), depth=11, seed=chk.seed % 100000 + 7, max_emitted=30000))
    pmut = pool.submit(run_tlc, 'ParamGen', pio.cfg(2, ['TypeOK', 'RoundTrip'], mutant='native_bool'),
                       extra_modules={'ParamGen': pio.module(rows, singles[:3])}, workers=1, timeout=600, heap='1g')

    rfamily, rstale = ('IO_Small', 'IO_Stale4') if quick else ('IO_Full', 'IO_Stale2')
    rjob = pool.submit(run_tlc, 'ResultsIO', RESULTS_CFG.format(family=rfamily, stale=rstale, mutant='none'), workers=4,
                       timeout=2400, heap='6g')
    rmut = pool.submit(run_tlc, 'ResultsIO', RESULTS_CFG.format(family='MC_Tiny', stale='IO_Stale4', mutant='load_first'), workers=1,
                       timeout=600, heap='2g')

    # ------------------------------------------------------------------ files: replay + trace validation
    t_ = time.time()
    all_traces = []
    control_hist = None
    vjobs = []
    for sc in scns:
        res = fjobs[sc.label].result()
        chk.add_tlc(f'Files: {sc.label}', res)
        hists, seen = [], set()
        for h in res.emitted:
            if not h['steps']:
                continue
            k = json.dumps(h, sort_keys=True)
            if k not in seen:
                seen.add(k)
                hists.append(h)
        res.raw, res.emitted = '', []
        out = par.pmap(fio.replay, [dict(hist=h, slices=sc.slices) for h in hists], chunk=25, timeout=900)
        traces = []
        for h, (st, val) in zip(hists, out):
            chk.replayed += 1
            if st != 'ok':
                agg.add(f'files:replay {st}', dict(history=[s['op'] for s in h['steps']], error=val), dict(area='files', kind='crash'))
                continue
            chk.count(('files', sc.label, json.dumps([h['pre'], [s['op'] for s in h['steps']]])), val['n'])
            for m in val['mismatches']:
                agg.add(m['key'], dict(scenario=sc.label, initial=h['pre'][:12], **m), facts(m['key'], m))
            traces.append(fio.encode_trace(len(all_traces) + len(traces), val['trace']))
            if control_hist is None and sc.label == 'reports+holes' and not val['mismatches'] and h['pre'] \
                    and h['steps'][0]['op']['k'] == 'write' and h['steps'][0]['op']['a'] == 'html' and '~' in h['steps'][0]['new'][0]:
                control_hist = (h, sc, traces[-1])
        mid = hists[len(hists) // 2]
        chk.sample(dict(files_scenario=sc.label, initial_directory=mid['pre'][:8],
                        history=[[s['op']['k'], s['op']['a'], s['op']['b'], 'creates', s['new'], 'reads', s['from']] for s in mid['steps']]),
                   limit=8)
        all_traces += traces
        # judge the traces of this scenario while the next one is replayed
        vjobs.append((sc, traces, pool.submit(fio.validate, traces, sc.slices, max(sc.max_index, 16))))
    # ------------------------------------------------------------------ results: replay
    tm['files_replay'] = round(time.time() - t_, 1)
    t_ = time.time()
    res = rjob.result()
    chk.add_tlc(f'ResultsIO on {rfamily} x {rstale}', res)
    recs = res.emitted
    res.raw, res.emitted = '', []
    out = par.pmap(rio.replay, [dict(rec=r) for r in recs], chunk=8, timeout=900)
    skipped = 0
    control_res = None
    for rec, (st, val) in zip(recs, out):
        chk.replayed += 1
        desc = f"{rio.rr.describe(rec['raw'])} earlier pickles {rec['io']['stale']}"
        if st != 'ok':
            agg.add(f'results:replay {st}:{val[0] if st == "exc" else ""}', dict(outcome=desc, error=val),
                    dict(area='results', kind='exception', exception=val[0] if st == 'exc' else st))
            continue
        chk.count(('res', desc), val['n'])
        skipped += val['skipped']['undef'] + val['skipped']['sentinel']
        for m in val['mismatches']:
            f = facts('results:' + m['key'], m)
            f['init_loglikelihood_available'] = rec['raw']['L0']['ex']
            agg.add('results:' + m['key'], dict(outcome=desc, **m), f)
        if not val['mismatches']:
            if control_res is None and rec['raw']['K'] == 2 and rec['io']['stale']:
                control_res = rec
            if rec['raw']['K'] == 3 and rec['io']['stale']:
                chk.sample(dict(results_round_trip=val['sample'], comparisons=val['n']), limit=3)
    chk.extra['result_figures_not_compared_undefined'] = skipped
    for kind in ('estimate', 'quick_estimate'):
        st, val = rt.forked(rio.real_reports, kind)
        chk.replayed += 1
        if st != 'ok':
            agg.add(f'results:real {kind}:{st}', dict(error=val), dict(area='results', kind='crash'))
            continue
        chk.count(('res', kind), val['n'])
        for m in val['mismatches']:
            f = facts('results:' + m['key'], m)
            f['object'] = kind
            agg.add('results:' + m['key'], m, f)
    tm['results'] = round(time.time() - t_, 1)

    # ------------------------------------------------------------------ parameters: replay
    t_ = time.time()
    par_hist_total = 0
    control_par = None
    for name, (prow, fut) in pjobs.items():
        res = fut.result()
        chk.add_tlc(f'Parameters: {name}', res)
        hists, seen = [], set()
        for h in res.emitted:
            k = json.dumps(h['steps'], sort_keys=True)
            if k not in seen:
                seen.add(k)
                hists.append(h)
        res.raw, res.emitted = '', []
        out = par.pmap(pio.replay, [dict(hist=h, rows=prow, fname='biogeme.toml' if i % 2 == 0 else 'my parameters.toml')
                                    for i, h in enumerate(hists)], chunk=60, timeout=900)
        for h, (st, val) in zip(hists, out):
            chk.replayed += 1
            par_hist_total += 1
            hkey = ('par', json.dumps(h['steps'], sort_keys=True))
            if st != 'ok':
                agg.add(f'parameters:replay {st}', dict(history=h['steps'], error=val), dict(area='parameters', kind='crash'))
                continue
            chk.count(hkey, val['n'])
            for m in val['mismatches']:
                agg.add(m['key'], m, facts(m['key'], m))
        control_par = control_par or prow
        ex = [h for h in hists if len(h['steps']) >= 3 and any(s['k'] == 'edit' for s in h['steps']) and h['steps'][-1]['k'] == 'read']
        if ex:
            chk.sample(dict(parameter_history=[[s['k'], s['p'], s['v'], s['outcome']] for s in ex[len(ex) // 2]['steps']],
                            expected_object=ex[len(ex) // 2]['obj'], expected_file=ex[len(ex) // 2]['file']['focus']))
    chk.extra['parameter_histories_replayed'] = par_hist_total
    chk.extra['parameters'] = {r['key']: dict(kind=r['kind'], admissible=r['adm'], refused=r['ref'], file_ok=r['fok'], file_refused=r['fbad'])
                               for r in rows}
    # the constructor of BIOGEME in a directory without parameter file: Read of a missing file
    st, val = rt.forked(biogeme_in_empty_directory, rows)
    chk.replayed += 1
    if st != 'ok':
        agg.add('parameters:BIOGEME() in a directory without biogeme.toml:raises ' + (val[0] if st == 'exc' else st),
                dict(error=val), dict(area='parameters', kind='exception', exception=val[0] if st == 'exc' else st, step='biogeme',
                     message=val[2][:60] if st == 'exc' else ''))
    else:
        chk.count(('par', 'BIOGEME()'), val['n'])
        for m in val['mismatches']:
            agg.add(m['key'], m, facts(m['key'], m))
    tm['parameters'] = round(time.time() - t_, 1)
    t_ = time.time()

    for sc, traces, fut in vjobs:
        verdicts, vres = fut.result()
        chk.add_tlc(f'FilesTrace: {sc.label}', vres)
        if len(verdicts) != len(traces):
            raise tlc.MachineryError(f'FilesTrace {sc.label}: {len(verdicts)} verdicts for {len(traces)} traces')
        for t in traces:
            chk.traces += 1
            v = verdicts[t['tid']]
            if v != 'ok':
                clause = v.split(':', 1)[1]
                agg.add(f'files:trace rejected:{clause}', dict(scenario=sc.label, verdict=v, steps=[s['op'] for s in t['steps']],
                                                                failing_step=t['steps'][int(v.split(':')[0]) - 1]),
                        dict(area='files', kind='trace', clause=clause))
    tm['trace_validation_wait'] = round(time.time() - t_, 1)
    chk.extra['wall_by_part_s'] = tm

    # ------------------------------------------------------------------ recycle: which pickle is read (observation, not part of C14)
    r1, r2 = frecycle.result(), fdense.result()
    for nm, r in (('Files: RecycleLatest with holes', r1), ('Files: RecycleLatest, dense numbering', r2)):
        chk.add_tlc(nm, r, expect_ok=False)
    if r2.violated:
        chk.violation('model:RecycleLatest on a dense numbering', dict(counterexample=r2.counterexample[:2000]))
    chk.extra['recycle_observation'] = dict(
        statement='estimate(recycle=True) reads the pickle that sorts LAST as a string; the real code does exactly that (replayed, '
                  'including 101 earlier pickles: m~99.pickle is read although m~100.pickle is newer).  That file is the most recent '
                  'one only while the numbering has no holes and stays below ~99',
        dense_numbering_RecycleLatest_holds=r2.violated is None,
        with_holes_TLC_reports=r1.violated,
        counterexample_with_holes=(r1.counterexample or '')[:1500])

    # ------------------------------------------------------------------ negative controls
    for name, inv in (('overwrite', {'FreshNames', 'NoOverwrite'}), ('highest', {'LeastRule'})):
        r = fmut[name].result()
        chk.add_tlc(f'Files with seeded defect {name}', r, expect_ok=False)
        chk.control(f'Files.tla with seeded naming defect "{name}": TLC must report {sorted(inv)}', r.violated in inv, f'TLC reported {r.violated}')
    r = pmut.result()
    chk.add_tlc('Parameters with seeded defect native_bool', r, expect_ok=False)
    chk.control('Parameters.tla dumping booleans as TOML booleans: TLC must report RoundTrip', r.violated == 'RoundTrip', f'TLC reported {r.violated}')
    r = rmut.result()
    chk.add_tlc('ResultsIO with seeded defect load_first', r, expect_ok=False)
    chk.control('ResultsIO.tla loading name.pickle whatever was written: TLC must report RoundTrip', r.violated == 'RoundTrip',
                f'TLC reported {r.violated}')

    if control_hist is None:
        raise tlc.MachineryError('no history for the negative controls of Files')
    h, sc, good_trace = control_hist
    # (a) somebody takes the predicted fresh name first: the replay must see another name than TLC expected,
    #     while the recorded trace (judged on the recorded directory) is still a correct behaviour
    st, val = rt.forked(fio.replay, dict(hist=h, slices=sc.slices, control='precreate'))
    keys = {m['key'] for m in val['mismatches']} if st == 'ok' else {st}
    v_pre, _ = fio.validate([fio.encode_trace(0, val['trace'])]) if st == 'ok' else ({0: 'n/a'}, None)
    chk.control('predicted fresh name created by somebody else before the operation: replay differs from the expected history, '
                'the trace is still accepted', 'files:write:created names' in keys and v_pre.get(0) == 'ok', f'{sorted(keys)} trace={v_pre.get(0)}')
    # (b) an implementation that reuses name.ext: replay and trace validation must both object
    st, val = rt.forked(fio.replay, dict(hist=h, slices=sc.slices, control='overwrite'))
    keys = {m['key'] for m in val['mismatches']} if st == 'ok' else {st}
    v_ov, _ = fio.validate([fio.encode_trace(0, val['trace'])]) if st == 'ok' else ({0: 'n/a'}, None)
    chk.control('get_new_file_name replaced by name.ext (overwriting implementation): replay mismatch and trace rejected',
                bool(keys) and v_ov.get(0, 'ok') != 'ok', f'{sorted(keys)[:3]} trace={v_ov.get(0)}')
    # (c) one sha of an old file corrupted in a recorded trace
    bad = copy.deepcopy(good_trace)
    bad['tid'] = 0
    victim = next(s for s in bad['steps'] if any(e['n'] != fio.SENTINEL for e in s['before']) and s['op']['k'] != 'extremove')
    old = next(e for e in victim['before'] if e['n'] != fio.SENTINEL)
    for e in victim['after']:
        if e['n'] == old['n']:
            e['s'] = 9999
    v_c, _ = fio.validate([bad])
    chk.control('one sha of an existing file changed in a recorded trace: FilesTrace must answer old-file-changed',
                v_c.get(0, '').endswith('old-file-changed'), f'verdict {v_c.get(0)}')
    # (d) drop the created file from a recorded snapshot
    bad = copy.deepcopy(good_trace)
    bad['tid'] = 0
    s0 = bad['steps'][0]
    s0['after'] = [e for e in s0['after'] if e['n'] in {x['n'] for x in s0['before']}]
    v_d, _ = fio.validate([bad])
    chk.control('the created file removed from a recorded snapshot: FilesTrace must answer new-names',
                v_d.get(0, '').endswith('new-names'), f'verdict {v_d.get(0)}')
    # parameters: one boolean flipped in the dumped file behind the specification's back
    if control_par is None:
        raise tlc.MachineryError('no history for the negative control of Parameters')
    prow = control_par
    # (the file is written by the driver, so the control does not depend on dump_file working)
    flip = dict(steps=[dict(k='read', p='', v='', outcome='ok')], obj=[['Output/generate_html', 'b:True']], failed=False,
                file=dict(ex=True, alien=False, focus=[['Output/generate_html', 's:True']]), prewrite=True)
    st0, val0 = rt.forked(pio.replay, dict(hist=flip, rows=prow))
    st1, val1 = rt.forked(pio.replay, dict(hist=flip, rows=prow, tamper='flip_bool'))
    k0 = {m['key'] for m in val0['mismatches']} if st0 == 'ok' else {st0}
    k1 = {m['key'] for m in val1['mismatches']} if st1 == 'ok' else {st1}
    chk.control('one boolean flipped in the dumped file: the replay must report the object and the file',
                {'parameters:object:value differs', 'parameters:file:entry differs'} <= (k1 - k0), f'untampered {sorted(k0)} tampered {sorted(k1)}')
    # results: the pickle modified on disk; the expected estimate shifted
    if control_res is None:
        raise tlc.MachineryError('no record for the negative controls of ResultsIO')
    for tamper, must in (('pickle', 'stats:logLike'), ('expected', 'loaded object: html report:Value')):
        st, val = rt.forked(rio.replay, dict(rec=control_res, tamper=tamper))
        keys = {m['key'] for m in val['mismatches']} if st == 'ok' else {st}
        chk.control({'pickle': 'estimate and log likelihood changed inside the pickle file before loading',
                     'expected': "the specification's estimate of the first parameter shifted by 1"}[tamper],
                    must in keys, f'{sorted(keys)[:4]}')

    agg.flush()
    chk.uncovered += [
        'byte-level fidelity of the pickle / TOML encodings (the specifications see files as maps); comments of the generated '
        'parameter file',
        'values whose admissibility the documentation leaves open are not generated: a bool given to an int/float parameter '
        '(accepted by set_value because bool is an int, then dumped as "True" and refused on reading), NaN, numpy integers, '
        'integers beyond 64 bits',
        'what a Parameters object holds after a REFUSED read (the library imports entry by entry, so earlier entries of the file '
        'are already applied): only the refusal itself is checked',
        'directories or dangling symbolic links that carry a candidate name (get_new_file_name looks at regular files only), '
        'two processes writing into one directory at the same time (the name is chosen, then the file is opened)',
        'F12 labels are the first 10 characters of the parameter name (ALOGIT format): parameters that agree on 10 characters '
        'cannot be told apart in that report; not generated',
        'the files of the saved-iterations mechanism (__model.iter, rewritten in place by design) belong to C15; snapshots keep '
        'only *.html, *.pickle, *.tex, *.F12, *.dat',
        'recycle: WHICH pickle is read is replayed as documented by the warning (last in string order); that this is the most recent '
        'one is not part of C14 and does not hold with holes / beyond ~99 (see recycle_observation)',
        'reports of results without second derivatives are checked on one real quick_estimate() only (the Results specification '
        'always has a Hessian)',
    ]
    chk.assumptions += [
        'tomllib (standard library) is the independent reader of the parameter file; hand edits are written by a 20-line TOML writer',
        'figures parsed back from the reports are compared to the printed precision (3 significant digits; 12 in F12)',
        'which pickle file is read is observed through a sys.addaudithook("open") hook, no change in /repo',
    ]


def biogeme_in_empty_directory(rows) -> dict:
    """BIOGEME(...) where no biogeme.toml exists = Parameters.Read of a missing file: the file is created
    from the defaults and the object holds the defaults (specification: Read, outcome "created")."""
    import shutil
    import tempfile
    import tomllib

    old = os.getcwd()
    work = tempfile.mkdtemp(prefix='c14-bio-', dir=old)
    os.chdir(work)
    try:
        import biogeme.biogeme as bio
        from biogeme import models
        from biogeme.expressions import Beta, Variable

        b = Beta('b', 0, None, None, 0)
        V = {1: b * Variable('x1'), 2: b * Variable('x2')}
        m = bio.BIOGEME(fio.database('tiny'), models.loglogit(V, None, Variable('ch')))
        mism, n = [], 0
        got = pio._get_all(m.biogeme_parameters)
        n += 1
        if not os.path.exists('biogeme.toml'):
            mism.append(dict(key='parameters:BIOGEME():file not created'))
            return dict(n=n, mismatches=mism)
        with open('biogeme.toml', 'rb') as f:
            doc = tomllib.load(f)
        for r in rows:
            section, name = r['key'].split('/')
            n += 2
            if not pio.same(got.get(r['key']), r['def']):
                mism.append(dict(key='parameters:BIOGEME():object:value differs', parameter=r['key'], got=repr(got.get(r['key'])), want=r['def']))
            want = r['def'] if r['kind'] != 'bool' else ('s:True' if r['def'] == 'b:True' else 's:False')
            if name not in doc.get(section, {}) or not pio.same(doc[section][name], want):
                mism.append(dict(key='parameters:BIOGEME():file:entry differs', parameter=r['key'], got=repr(doc.get(section, {}).get(name)), want=want))
        return dict(n=n, mismatches=mism)
    finally:
        os.chdir(old)
        shutil.rmtree(work, ignore_errors=True)


if __name__ == '__main__':
    check.main(PID, body)
