"""C14 -- what is written to disk reads back unchanged and never overwrites earlier output.

Three specifications decide the verdicts:

specs/Files.tla (+ FileNames.tla, FilesTrace.tla)  the output directory: every output operation
    (write_html / write_pickle / write_latex / write_f12, dump_on_file, estimate, validate,
    create_backup, recycle, load) creates exactly the documented fresh name(s) and leaves every
    existing file as it was; a file name carries the name of its model (m.ext, m~NN.ext) and every lookup
    by model name (files_of_type, estimate(recycle=True)) sees the files of ITS model only.  TLC explores
    every history of the scenario alphabets from several initial directories (holes in the numbering,
    colliding model names, models whose names share a prefix, 101 earlier pickles) and checks
    NoOverwrite / NothingLost / FreshNames / LeastRule / LoadsWhatWasWritten / SeesOwnFilesOnly /
    RecycleOwnModel (/ FoundAreOwn) on the model;
    (B) each history is replayed with the REAL functions in a scratch directory and compared after
    every step, (C) the recorded (name -> sha256) snapshots are judged by FilesTrace.tla.
specs/Parameters.tla   the parameter set and its TOML file: Set / Dump / Read / hand edits / missing
    file; the table of parameters (kinds, defaults, admissible values, values to refuse, admissible
    spellings) is extracted from biogeme.default_parameters; TLC prints one history per EDGE of the
    abstract state graph; each is replayed on the real Parameters and the real file (parsed with
    tomllib) is compared with the specification's file.
specs/ResultsIO.tla (extends Results.tla)  Load(WritePickle(r)) = r on every statistic and table, the
    earlier pickles stay, and what each report lists; replayed on real bioResults objects.
"""

from __future__ import annotations

import os

for _v in ('OMP_NUM_THREADS', 'OPENBLAS_NUM_THREADS', 'MKL_NUM_THREADS'):
    os.environ.setdefault(_v, '1')

import copy
import json
import sys
import time
from concurrent.futures import ThreadPoolExecutor

sys.path.insert(0, '/verif')

from vb import check, par, rt, tlc
from vb import filesio as fio
from vb import paramio as pio
from vb import resultsio as rio

PID = 'C14'


def run_tlc(*a, **kw):
    """tlc.run; a JVM that vanished without a verdict (killed from outside) is started again"""
    res = None
    for _ in range(3):
        res = tlc.run(*a, **kw)
        killed = res.error is not None and res.error != 'timeout' and 'Error:' not in res.raw and res.violated is None
        if not killed:
            break
    return res


class Agg:
    """violations grouped by (key, facts): one report per group with a count and a few examples"""

    def __init__(self, chk):
        self.chk = chk
        self.groups: dict = {}
        self.reported = 0

    def add(self, key: str, detail: dict, match: dict):
        g = self.groups.setdefault((key, json.dumps(match, sort_keys=True)), dict(count=0, examples=[], match=match))
        g['count'] += 1
        if len(g['examples']) < 3:
            g['examples'].append(detail)

    def flush(self):
        """hand the groups over to the check (once each)"""
        groups, self.groups = self.groups, {}
        for (key, _), g in groups.items():
            self.reported += 1
            self.chk.violation(key, dict(count=g['count'], examples=g['examples']), match=g['match'])


def facts(key: str, m: dict) -> dict:
    """what a known-finding matcher may look at"""
    f = dict(key=key, area=key.split(':')[0])
    if 'raises' in key:
        f['kind'] = 'exception'
        f['exception'] = key.split('raises ')[-1]
    if 'message' in m:
        f['message'] = m['message'][:60]
    if 'op' in m and isinstance(m['op'], list):
        f['step'] = m['op'][0]
    return f


RESULTS_CFG = '''SPECIFICATION IOSpec
CONSTANTS
 Outcomes <- {family}
 Companions <- MC_Companions
 CompileStats <- MC_CompileStats
 Mutant = "none"
 StaleChoices <- {stale}
 IOMutant = "{mutant}"
INVARIANT RawWellFormed
INVARIANT RoundTrip
INVARIANT KeepsEarlier
INVARIANT ReportsComplete
INVARIANT ReportsRoundTrip
INVARIANT IOEmitInv
'''


def body(chk: check.Check):
    pool = ThreadPoolExecutor(max_workers=6)
    agg = Agg(chk)
    try:
        _body(chk, pool, agg)
    except BaseException as e:
        # do not sit out the TLC runs that are still going (only the children of THIS process)
        pool.shutdown(wait=False, cancel_futures=True)
        import subprocess
        subprocess.run(['pkill', '-P', str(os.getpid()), '-f', 'tlc2.TLC'], check=False)
        if isinstance(e, Exception) and (agg.groups or agg.reported):
            # the library under test misbehaves AND something in the machinery gave up on what it produced:
            # what was found is reported (exit 1); the failure is kept as an undetected control
            import traceback
            agg.flush()
            chk.control('the check ran to completion', False, ''.join(traceback.format_exception_only(type(e), e))[:600])
            return
        raise


def guarded(chk, name: str, fn):
    """a negative control never takes the check down: what it raises (e.g. because the library under
    test does not behave as the control assumes) counts as 'not detected'"""
    try:
        detected, note = fn()
    except Exception as e:  # noqa
        detected, note = False, f'the control could not be run: {type(e).__name__}: {str(e)[:300]}'
    chk.control(name, bool(detected), str(note)[:600])


def _keys(st, val) -> set:
    return {m['key'] for m in val['mismatches']} if st == 'ok' else {f'replay {st}'}


def _body(chk: check.Check, pool, agg):
    # replays create and delete thousands of small files: tmpfs when there is one (TLC stays in /var/tmp)
    saved = os.environ.get('VERIF_SCRATCH')
    if not saved and os.access('/dev/shm', os.W_OK):
        os.environ['VERIF_SCRATCH'] = '/dev/shm'
    rt.setup(chk.seed)
    if saved is None:
        os.environ.pop('VERIF_SCRATCH', None)
    quick = chk.tier == 'quick'
    tm: dict = {}
    chk.rule = ('histories of output operations in one directory, Set/Dump/Read/edit histories of the parameter file (one per edge '
                'of the abstract state graph, per parameter) and raw estimation outcomes x earlier pickles, all enumerated by TLC '
                'and replayed through the real biogeme; distinct = distinct histories / outcomes replayed; evaluations = '
                'comparisons with the specification')

    # ------------------------------------------------------------------ launch every TLC run
    scns = fio.scenarios(chk.tier)
    if len({s.slices for s in scns}) != 1:
        raise tlc.MachineryError('the scenarios of one tier share one number of validation folds (their traces are judged together)')
    fjobs = {}
    for sc in scns:
        kw = dict(extra_modules={'FilesGen': sc.module()}, timeout=1500, heap='3g')
        if sc.simulate:
            kw.update(simulate=sc.simulate, depth=sc.max_ops + 1, seed=chk.seed % 100000 + 1, workers=1)
            cfgtxt = sc.cfg(sc.all_invariants() + ['EmitInv'])
        else:
            kw.update(workers=3)
            cfgtxt = sc.cfg(sc.all_invariants() + ['EmitInv'], fio.MODEL_PROPERTIES)
        fjobs[sc.label] = pool.submit(run_tlc, 'FilesGen', cfgtxt, **kw)
    sc0 = scns[0]
    sc_pre = [s for s in scns if s.label == 'prefix: mode / mode_price'][0]
    fmut = {
        'prefix': pool.submit(run_tlc, 'FilesGen', sc_pre.cfg(['RecycleOwnModel'], mutant='prefix', max_ops=2),
                              extra_modules={'FilesGen': sc_pre.module()}, workers=1, timeout=600, heap='1g'),
        'overwrite': pool.submit(run_tlc, 'FilesGen', sc0.cfg(fio.MODEL_INVARIANTS, fio.MODEL_PROPERTIES, mutant='overwrite', max_ops=2),
                                 extra_modules={'FilesGen': sc0.module()}, workers=1, timeout=600, heap='1g'),
        'highest': pool.submit(run_tlc, 'FilesGen', sc0.cfg(fio.MODEL_INVARIANTS, fio.MODEL_PROPERTIES, mutant='highest', max_ops=2),
                               extra_modules={'FilesGen': sc0.module()}, workers=1, timeout=600, heap='1g'),
    }
    sc_rec = [s for s in scns if s.label == 'estimate+recycle'][0]
    frecycle = pool.submit(run_tlc, 'FilesGen', sc_rec.cfg(['RecycleLatest'], max_ops=3), extra_modules={'FilesGen': sc_rec.module()},
                           workers=1, timeout=600, heap='1g')
    dense = fio.Scenario('recycle, dense numbering', [fio.op('estimate', 'm'), fio.op('recycle', 'm'), fio.op('write', 'pickle', 'm', 'o1')],
                         [set(), {'m.pickle'}, {'m.pickle', 'm~00.pickle'}], 4, max_env=0)
    fdense = pool.submit(run_tlc, 'FilesGen', dense.cfg(['RecycleLatest']), extra_modules={'FilesGen': dense.module()},
                         workers=1, timeout=600, heap='1g')

    rows = pio.table(chk.tier)
    singles = [[r['key']] for r in rows]
    pjobs = {}
    if quick:
        pjobs['every parameter alone, histories of <= 4 steps'] = (rows, pool.submit(
            run_tlc, 'ParamGen', pio.cfg(4, pio.MODEL_INVARIANTS + ['EmitInv'], pio.MODEL_PROPERTIES),
            extra_modules={'ParamGen': pio.module(rows, singles)}, workers=4, timeout=1500, heap='3g'))
    else:
        pjobs['every parameter alone, full value sets, histories of <= 3 steps'] = (rows, pool.submit(
            run_tlc, 'ParamGen', pio.cfg(3, pio.MODEL_INVARIANTS + ['EmitInv'], pio.MODEL_PROPERTIES),
            extra_modules={'ParamGen': pio.module(rows, singles)}, workers=4, timeout=1500, heap='4g'))
        qrows = pio.table('quick')
        by = {r['key']: r for r in qrows}
        pairs = [['Output/generate_html', 'Output/generate_pickle'], ['Output/identification_threshold', 'Output/only_robust_stats'],
                 ['Estimation/optimization_algorithm', 'Estimation/save_iterations'], ['SimpleBounds/second_derivatives', 'SimpleBounds/tolerance'],
                 ['MonteCarlo/number_of_draws', 'MonteCarlo/seed'], ['Biogeme/version', 'TrustRegion/dogleg'],
                 ['SimpleBounds/initial_radius', 'MultiThreading/number_of_threads']]
        assert all(k in by for pr in pairs for k in pr)
        pjobs['pairs of parameters, histories of <= 4 steps'] = (qrows, pool.submit(
            run_tlc, 'ParamGen', pio.cfg(4, pio.MODEL_INVARIANTS + ['EmitInv'], pio.MODEL_PROPERTIES),
            extra_modules={'ParamGen': pio.module(qrows, pairs)}, workers=4, timeout=1500, heap='4g'))
        walk = ['Output/generate_html', 'Output/identification_threshold', 'Estimation/optimization_algorithm',
                'Estimation/bootstrap_samples', 'SimpleBounds/second_derivatives', 'MonteCarlo/seed', 'Biogeme/version',
                'Specification/missing_data']
        assert all(k in by for k in walk)
        # (in simulation mode TLC evaluates EmitInv on every generated successor: every one-step deviation
        #  from the walks is printed as well)
        pjobs['random walks over 8 parameters of different sections at once'] = (qrows, pool.submit(
            run_tlc, 'ParamGen', pio.cfg(10, ['TypeOK', 'RoundTrip', 'EmitInv'], view=False),
            extra_modules={'ParamGen': pio.module(qrows, [walk])}, workers=1, timeout=1500, heap='4g',
            simulate=dict(num=25), depth=11, seed=chk.seed % 100000 + 7, max_emitted=30000))
    pmut = pool.submit(run_tlc, 'ParamGen', pio.cfg(2, ['TypeOK', 'RoundTrip'], mutant='native_bool'),
                       extra_modules={'ParamGen': pio.module(rows, singles[:3])}, workers=1, timeout=600, heap='1g')

    rfamily, rstale = ('IO_Small', 'IO_Stale4') if quick else ('IO_Full', 'IO_Stale2')
    rjob = pool.submit(run_tlc, 'ResultsIO', RESULTS_CFG.format(family=rfamily, stale=rstale, mutant='none'), workers=4,
                       timeout=2400, heap='6g')
    rmut = pool.submit(run_tlc, 'ResultsIO', RESULTS_CFG.format(family='MC_Tiny', stale='IO_Stale4', mutant='load_first'), workers=1,
                       timeout=600, heap='2g')

    # ------------------------------------------------------------------ files: replay + trace validation
    t_ = time.time()
    all_traces = []
    control_hist = None     # (history, scenario, clean): chosen by its SHAPE; a history the library replays cleanly is preferred
    control_prefix = None   # a history in which model "mode" looks for its pickles next to those of mode_price only
    vjobs = []
    pending: list = []      # recorded traces waiting for a FilesTrace JVM (one JVM per ~900 traces, several scenarios together)
    label_of: dict = {}
    for sc in scns:
        res = fjobs[sc.label].result()
        chk.add_tlc(f'Files: {sc.label}', res)
        hists, seen = [], set()
        for h in res.emitted:
            if not h['steps']:
                continue
            k = json.dumps(h, sort_keys=True)
            if k not in seen:
                seen.add(k)
                hists.append(h)
        res.raw, res.emitted = '', []
        out = par.pmap(fio.replay, [dict(hist=h, slices=sc.slices) for h in hists], chunk=25, timeout=900)
        traces = []
        for h, (st, val) in zip(hists, out):
            chk.replayed += 1
            if st != 'ok':
                agg.add(f'files:replay {st}', dict(history=[s['op'] for s in h['steps']], error=val), dict(area='files', kind='crash'))
                continue
            chk.count(('files', sc.label, json.dumps([h['pre'], [s['op'] for s in h['steps']]])), val['n'])
            for m in val['mismatches']:
                agg.add(m['key'], dict(scenario=sc.label, initial=h['pre'][:12], **m), dict(facts(m['key'], m), scenario=sc.label))
            traces.append(fio.encode_trace(len(all_traces) + len(traces), val['trace']))
        for h, (st, val) in zip(hists, out):
            clean = st == 'ok' and not val['mismatches']
            first = h['steps'][0]
            if sc.label == 'reports+holes' and (control_hist is None or (clean and not control_hist[2])) and h['pre'] \
                    and first['op']['k'] == 'write' and first['op']['a'] == 'html' and '~' in first['new'][0]:
                control_hist = (h, sc, clean)
            if sc.label == 'prefix: mode / mode_price' and (control_prefix is None or (clean and not control_prefix[2])) \
                    and first['op'] == fio.op('recycle', 'mode') and 'mode_price.pickle' in h['pre'] and first['new']:
                control_prefix = (h, sc, clean)
        if not hists:
            raise tlc.MachineryError(f'Files: {sc.label}: TLC emitted no history ({res.violated or "no violation"})')
        mid = hists[len(hists) // 2]
        chk.sample(dict(files_scenario=sc.label, initial_directory=mid['pre'][:8],
                        history=[[s['op']['k'], s['op']['a'], s['op']['b'], 'creates', s['new'], 'reads', s['from']] for s in mid['steps']]),
                   limit=8)
        all_traces += traces
        # judge the traces of the scenarios replayed so far while the next one is replayed
        for t in traces:
            label_of[t['tid']] = sc.label
        pending += traces
        if len(pending) >= 900 or sc is scns[-1]:
            batch, pending = pending, []
            if batch:
                vjobs.append((sorted({label_of[t['tid']] for t in batch}), batch, pool.submit(fio.validate, batch, sc.slices)))
    # ------------------------------------------------------------------ results: replay
    tm['files_replay'] = round(time.time() - t_, 1)
    t_ = time.time()
    res = rjob.result()
    chk.add_tlc(f'ResultsIO on {rfamily} x {rstale}', res)
    recs = res.emitted
    res.raw, res.emitted = '', []
    out = par.pmap(rio.replay, [dict(rec=r) for r in recs], chunk=8, timeout=900)
    skipped = 0
    control_res = None
    for rec, (st, val) in zip(recs, out):
        chk.replayed += 1
        desc = f"{rio.rr.describe(rec['raw'])} earlier pickles {rec['io']['stale']}"
        if st != 'ok':
            agg.add(f'results:replay {st}:{val[0] if st == "exc" else ""}', dict(outcome=desc, error=val),
                    dict(area='results', kind='exception', exception=val[0] if st == 'exc' else st))
            continue
        chk.count(('res', desc), val['n'])
        skipped += val['skipped']['undef'] + val['skipped']['sentinel']
        for m in val['mismatches']:
            f = facts('results:' + m['key'], m)
            f['init_loglikelihood_available'] = rec['raw']['L0']['ex']
            agg.add('results:' + m['key'], dict(outcome=desc, **m), f)
        if not val['mismatches']:
            if control_res is None and rec['raw']['K'] == 2 and rec['io']['stale']:
                control_res = rec
            if rec['raw']['K'] == 3 and rec['io']['stale']:
                chk.sample(dict(results_round_trip=val['sample'], comparisons=val['n']), limit=3)
    chk.extra['result_figures_not_compared_undefined'] = skipped
    for kind in ('estimate', 'quick_estimate'):
        st, val = rt.forked(rio.real_reports, kind)
        chk.replayed += 1
        if st != 'ok':
            agg.add(f'results:real {kind}:{st}', dict(error=val), dict(area='results', kind='crash'))
            continue
        chk.count(('res', kind), val['n'])
        for m in val['mismatches']:
            f = facts('results:' + m['key'], m)
            f['object'] = kind
            agg.add('results:' + m['key'], m, f)
    tm['results'] = round(time.time() - t_, 1)

    # ------------------------------------------------------------------ parameters: replay
    t_ = time.time()
    par_hist_total = 0
    control_par = None
    for name, (prow, fut) in pjobs.items():
        res = fut.result()
        chk.add_tlc(f'Parameters: {name}', res)
        hists, seen = [], set()
        for h in res.emitted:
            k = json.dumps(h['steps'], sort_keys=True)
            if k not in seen:
                seen.add(k)
                hists.append(h)
        res.raw, res.emitted = '', []
        out = par.pmap(pio.replay, [dict(hist=h, rows=prow, fname='biogeme.toml' if i % 2 == 0 else 'my parameters.toml')
                                    for i, h in enumerate(hists)], chunk=60, timeout=900)
        for h, (st, val) in zip(hists, out):
            chk.replayed += 1
            par_hist_total += 1
            hkey = ('par', json.dumps(h['steps'], sort_keys=True))
            if st != 'ok':
                agg.add(f'parameters:replay {st}', dict(history=h['steps'], error=val), dict(area='parameters', kind='crash'))
                continue
            chk.count(hkey, val['n'])
            for m in val['mismatches']:
                agg.add(m['key'], m, facts(m['key'], m))
        control_par = control_par or prow
        ex = [h for h in hists if len(h['steps']) >= 3 and any(s['k'] == 'edit' for s in h['steps']) and h['steps'][-1]['k'] == 'read']
        if ex:
            chk.sample(dict(parameter_history=[[s['k'], s['p'], s['v'], s['outcome']] for s in ex[len(ex) // 2]['steps']],
                            expected_object=ex[len(ex) // 2]['obj'], expected_file=ex[len(ex) // 2]['file']['focus']))
    chk.extra['parameter_histories_replayed'] = par_hist_total
    chk.extra['parameters'] = {r['key']: dict(kind=r['kind'], admissible=r['adm'], refused=r['ref'], file_ok=r['fok'], file_refused=r['fbad'])
                               for r in rows}
    chk.extra['admissible_values_not_of_the_class_of_the_default'] = {
        r['key']: [t for t in r['adm'] if t[0] != r['def'][0]] for r in rows if any(t[0] != r['def'][0] for t in r['adm'])}
    # the constructor of BIOGEME in a directory without parameter file: Read of a missing file
    st, val = rt.forked(biogeme_in_empty_directory, rows)
    chk.replayed += 1
    if st != 'ok':
        agg.add('parameters:BIOGEME() in a directory without biogeme.toml:raises ' + (val[0] if st == 'exc' else st),
                dict(error=val), dict(area='parameters', kind='exception', exception=val[0] if st == 'exc' else st, step='biogeme',
                     message=val[2][:60] if st == 'exc' else ''))
    else:
        chk.count(('par', 'BIOGEME()'), val['n'])
        for m in val['mismatches']:
            agg.add(m['key'], m, facts(m['key'], m))
    tm['parameters'] = round(time.time() - t_, 1)
    t_ = time.time()

    for labels, traces, fut in vjobs:
        verdicts, vres = fut.result()
        chk.add_tlc(f'FilesTrace: {" + ".join(labels)}', vres)
        if len(verdicts) != len(traces) and not (agg.groups or agg.reported):
            raise tlc.MachineryError(f'FilesTrace {labels}: {len(verdicts)} verdicts for {len(traces)} traces')
        for t in traces:
            if t['tid'] not in verdicts:   # (only with violations already on record: what the library left behind is beyond judging)
                chk.extra['traces_without_verdict'] = chk.extra.get('traces_without_verdict', 0) + 1
                continue
            chk.traces += 1
            v = str(verdicts[t['tid']])
            if v != 'ok':
                clause = v.split(':', 1)[-1]
                at = v.split(':')[0]
                agg.add(f'files:trace rejected:{clause}', dict(scenario=label_of[t['tid']], verdict=v, steps=[s['op'] for s in t['steps']],
                                                                failing_step=t['steps'][int(at) - 1] if at.isdigit() and 0 < int(at) <= len(t['steps']) else None),
                        dict(area='files', kind='trace', clause=clause, scenario=label_of[t['tid']]))
    tm['trace_validation_wait'] = round(time.time() - t_, 1)
    chk.extra['wall_by_part_s'] = tm

    # ------------------------------------------------------------------ recycle: which pickle is read (observation, not part of C14)
    r1, r2 = frecycle.result(), fdense.result()
    for nm, r in (('Files: RecycleLatest with holes', r1), ('Files: RecycleLatest, dense numbering', r2)):
        chk.add_tlc(nm, r, expect_ok=False)
    if r2.violated:
        chk.violation('model:RecycleLatest on a dense numbering', dict(counterexample=r2.counterexample[:2000]))
    chk.extra['recycle_observation'] = dict(
        statement='estimate(recycle=True) reads the pickle that sorts LAST as a string; the real code does exactly that (replayed, '
                  'including 101 earlier pickles: m~99.pickle is read although m~100.pickle is newer).  That file is the most recent '
                  'one only while the numbering has no holes and stays below ~99',
        dense_numbering_RecycleLatest_holds=r2.violated is None,
        with_holes_TLC_reports=r1.violated,
        counterexample_with_holes=(r1.counterexample or '')[:1500])

    # ------------------------------------------------------------------ what was found is on record before any control runs
    agg.flush()

    # ------------------------------------------------------------------ negative controls
    # (each one guarded: a library that does not behave as a control assumes makes it 'not detected', never a crash;
    #  vb.check reports violations before undetected controls)
    def tlc_control(key, title, want, run_name):
        def fn():
            r = fmut[key].result() if key in fmut else key.result()
            chk.add_tlc(run_name, r, expect_ok=False)
            return r.violated in want, f'TLC reported {r.violated}'
        guarded(chk, title, fn)

    tlc_control('overwrite', 'Files.tla with seeded naming defect "overwrite": TLC must report FreshNames or NoOverwrite',
                {'FreshNames', 'NoOverwrite'}, 'Files with seeded defect overwrite')
    tlc_control('highest', 'Files.tla with seeded naming defect "highest": TLC must report LeastRule', {'LeastRule'},
                'Files with seeded defect highest')
    tlc_control('prefix', 'Files.tla with seeded lookup defect "prefix" (every file whose name starts with the model name): TLC must report '
                'RecycleOwnModel (model mode is handed the results of mode_price)', {'RecycleOwnModel'}, 'Files with seeded defect prefix')
    tlc_control(pmut, 'Parameters.tla dumping booleans as TOML booleans: TLC must report RoundTrip', {'RoundTrip'},
                'Parameters with seeded defect native_bool')
    tlc_control(rmut, 'ResultsIO.tla loading name.pickle whatever was written: TLC must report RoundTrip', {'RoundTrip'},
                'ResultsIO with seeded defect load_first')

    # --- files, real code.  The traces handed to FilesTrace for the corruption controls are the ones the SPECIFICATION
    #     describes for an emitted history (fio.expected_trace), so they do not depend on the library under test.
    ctl_traces, ctl_expect = [], {}

    def want_verdict(name, trace_steps, accept):
        tid = len(ctl_traces)
        ctl_traces.append(fio.encode_trace(tid, trace_steps))
        ctl_expect[tid] = (name, accept)

    if control_hist is not None:
        h, sc, _ = control_hist
        good = fio.expected_trace(h)
        want_verdict('the trace the specification describes for a history (no corruption) is accepted', good, lambda v: v == 'ok')
        # (a) somebody takes the predicted fresh name first: the replay must see another name than TLC expected,
        #     while the recorded trace (judged on the recorded directory) is still a correct behaviour
        st_a, val_a = rt.forked(fio.replay, dict(hist=h, slices=sc.slices, control='precreate'))
        if st_a == 'ok':
            want_verdict('predicted fresh name created by somebody else before the operation: the recorded trace is still accepted',
                         val_a['trace'], lambda v: v == 'ok')
        guarded(chk, 'predicted fresh name created by somebody else before the operation: replay differs from the expected history',
                lambda: ('files:write:created names' in _keys(st_a, val_a), f'{sorted(_keys(st_a, val_a))}'))
        # (b) an implementation that reuses name.ext: replay and trace validation must both object
        st_b, val_b = rt.forked(fio.replay, dict(hist=h, slices=sc.slices, control='overwrite'))
        if st_b == 'ok':
            want_verdict('get_new_file_name replaced by name.ext (overwriting implementation): trace rejected', val_b['trace'],
                         lambda v: v not in ('ok', None))
        guarded(chk, 'get_new_file_name replaced by name.ext (overwriting implementation): replay mismatch',
                lambda: (bool(_keys(st_b, val_b)), f'{sorted(_keys(st_b, val_b))[:3]}'))
        # (c) one sha of an old file corrupted in a recorded trace
        bad = copy.deepcopy(good)
        victim = next(s for s in bad if any(n != fio.SENTINEL for n in s['before']) and s['op']['k'] != 'extremove')
        old = next(n for n in sorted(victim['before']) if n != fio.SENTINEL and n in victim['after'])
        victim['after'][old] = 'corrupted'
        want_verdict('one sha of an existing file changed in a trace: FilesTrace must answer old-file-changed', bad,
                     lambda v: str(v).endswith('old-file-changed'))
        # (d) drop the created file from a snapshot
        bad = copy.deepcopy(good)
        bad[0]['after'] = {n: x for n, x in bad[0]['after'].items() if n in bad[0]['before']}
        want_verdict('the created file removed from a snapshot: FilesTrace must answer new-names', bad,
                     lambda v: str(v).endswith('new-names'))
    else:
        chk.control('a history for the negative controls of Files (first step writes a numbered report)', False, 'none emitted')
    if control_prefix is not None:
        h, sc, _ = control_prefix
        good = fio.expected_trace(h)
        # (e) files_of_type replaced by the single pattern <model>*.<ext>: model mode must be seen to read a pickle of mode_price
        st_e, val_e = rt.forked(fio.replay, dict(hist=h, slices=sc.slices, control='loose_lookup'))
        if st_e == 'ok':
            want_verdict('files_of_type replaced by the pattern <model>*.<ext>: trace rejected (files-of-type / loaded-file / new-names)',
                         val_e['trace'], lambda v: str(v).split(':')[-1] in ('files-of-type', 'loaded-file', 'new-names'))
        guarded(chk, 'files_of_type replaced by the pattern <model>*.<ext> (sees mode_price.pickle, mode_validation.pickle as files of model '
                'mode): the replay must report the listed files and the file read',
                lambda: ({'files:recycle:files of the model (holds files of another model)', 'files:recycle:file read'} <= _keys(st_e, val_e),
                         f'{sorted(_keys(st_e, val_e))}'))
        # (f) a file of another model slipped into the recorded answer of files_of_type
        bad = copy.deepcopy(good)
        bad[0]['listed'] = bad[0]['listed'] + ['mode_price.pickle']
        want_verdict("mode_price.pickle added to the recorded files_of_type('pickle') of model mode: FilesTrace must answer files-of-type", bad,
                     lambda v: str(v).endswith('files-of-type'))
    else:
        chk.control('a history for the negative controls of the lookup by model name (recycle of mode next to pickles of mode_price)',
                    False, 'none emitted')
    if ctl_traces:
        try:
            v_ctl, r_ctl = fio.validate(ctl_traces)
            note = (r_ctl.error or '')[:300]
        except Exception as e:  # noqa
            v_ctl, note = {}, f'{type(e).__name__}: {str(e)[:300]}'
        for tid, (name, accept) in ctl_expect.items():
            guarded(chk, name, lambda: (accept(v_ctl.get(tid)), f'verdict {v_ctl.get(tid)} {note}'))

    # --- parameters: one boolean flipped in the dumped file behind the specification's back
    #     (the file is written by the driver, so the control does not depend on dump_file working)
    both = {'parameters:object:value differs', 'parameters:file:entry differs'}   # what a changed file must produce for its parameter

    def involving(st, val, parameter):
        if st != 'ok':
            return {f'replay {st}'}
        return {m['key'] for m in val['mismatches'] if m.get('parameter') == parameter}

    if control_par is not None:
        prow = control_par

        def flipped():
            flip = dict(steps=[dict(k='read', p='', v='', outcome='ok')], obj=[['Output/generate_html', 'b:True']], failed=False,
                        file=dict(ex=True, alien=False, focus=[['Output/generate_html', 's:True']]), prewrite=True)
            k0 = involving(*rt.forked(pio.replay, dict(hist=flip, rows=prow)), 'Output/generate_html')
            k1 = involving(*rt.forked(pio.replay, dict(hist=flip, rows=prow, tamper='flip_bool')), 'Output/generate_html')
            return both <= k1 and 'parameters:file:entry differs' not in k0, f'untampered {sorted(k0)} tampered {sorted(k1)}'

        guarded(chk, 'one boolean flipped in the parameter file: the replay must report the object and the file', flipped)

        def truncated():
            # a number that is not an integer, held by a parameter whose default is an int: the value in the file is
            # replaced by its integer part behind the specification's back
            key = 'Specification/missing_data'
            row = [r for r in prow if r['key'] == key and r['kind'] == 'int' and 'f:99999.5' in r['adm']]
            if not row:
                return False, 'no int-declared parameter admits 99999.5 in this table'
            hist = dict(steps=[dict(k='read', p='', v='', outcome='ok')], obj=[[key, 'f:99999.5']], failed=False,
                        file=dict(ex=True, alien=False, focus=[[key, 'f:99999.5']]), prewrite=True, preset={key: 'f:99999.5'})
            k0 = involving(*rt.forked(pio.replay, dict(hist=hist, rows=prow)), key)
            k1 = involving(*rt.forked(pio.replay, dict(hist=hist, rows=prow, tamper='truncate')), key)
            return both <= k1 and 'parameters:file:entry differs' not in k0, f'untampered {sorted(k0)} tampered {sorted(k1)}'

        guarded(chk, 'missing_data = 99999.5 written as 99999 in the parameter file: the replay must report the object and the file', truncated)
    else:
        chk.control('a parameter table for the negative controls of Parameters', False, 'none')

    # --- results: the pickle modified on disk; the expected estimate shifted
    if control_res is not None:
        for tamper, must in (('pickle', 'stats:logLike'), ('expected', 'loaded object: html report:Value')):
            def tampered(tamper=tamper, must=must):
                keys = _keys(*rt.forked(rio.replay, dict(rec=control_res, tamper=tamper)))
                return must in keys, f'{sorted(keys)[:4]}'
            guarded(chk, {'pickle': 'estimate and log likelihood changed inside the pickle file before loading',
                          'expected': "the specification's estimate of the first parameter shifted by 1"}[tamper], tampered)
    else:
        chk.control('a record for the negative controls of ResultsIO (two parameters, earlier pickles)', False, 'none emitted')
    chk.uncovered += [
        'byte-level fidelity of the pickle / TOML encodings (the specifications see files as maps); comments of the generated '
        'parameter file',
        'values whose admissibility the documentation leaves open are not generated: a bool given to an int/float parameter '
        '(accepted by set_value because bool is an int, then dumped as "True" and refused on reading), NaN, numpy integers, '
        'integers beyond 64 bits',
        'what a Parameters object holds after a REFUSED read (the library imports entry by entry, so earlier entries of the file '
        'are already applied): only the refusal itself is checked',
        'directories or dangling symbolic links that carry a candidate name (get_new_file_name looks at regular files only), '
        'two processes writing into one directory at the same time (the name is chosen, then the file is opened)',
        'F12 labels are the first 10 characters of the parameter name (ALOGIT format): parameters that agree on 10 characters '
        'cannot be told apart in that report; not generated',
        'the files of the saved-iterations mechanism (__model.iter, rewritten in place by design) belong to C15; snapshots keep '
        'only *.html, *.pickle, *.tex, *.F12, *.dat',
        'model names that are themselves a numbered version of another model name (a model named m~00 next to model m: m~00.pickle is '
        'by its name a file of both) are replayed for the naming of new files only, not for the lookups by model name; likewise a '
        'model NAMED m_validation or m_val_est_<i> next to a validated model m (TLC reports FoundAreOwn for it: the scheme itself is '
        'ambiguous there); model names containing glob metacharacters ([, *, ?) are not generated',
        'recycle: WHICH pickle is read is replayed as documented by the warning (last in string order); that this is the most recent '
        'one is not part of C14 and does not hold with holes / beyond ~99 (see recycle_observation)',
        'reports of results without second derivatives are checked on one real quick_estimate() only (the Results specification '
        'always has a Hessian)',
    ]
    chk.assumptions += [
        'tomllib (standard library) is the independent reader of the parameter file; hand edits are written by a 20-line TOML writer',
        'figures parsed back from the reports are compared to the printed precision (3 significant digits; 12 in F12)',
        'which pickle file is read is observed through a sys.addaudithook("open") hook, no change in /repo',
        'a value read back is the value written when it is of the same class (bool / int / float / str) and compares equal: 7.0 read '
        'back as 7 counts as a change (it is written differently into the next file and is refused where an integer is demanded)',
        'the files of model m with extension e are m.e and m~NN.e with NN as get_new_file_name prints it (two digits; more beyond 99, '
        'without leading zero); the files validate() writes for model m belong to the fold models m_val_est_<i> and to m_validation',
    ]


def biogeme_in_empty_directory(rows) -> dict:
    """BIOGEME(...) where no biogeme.toml exists = Parameters.Read of a missing file: the file is created
    from the defaults and the object holds the defaults (specification: Read, outcome "created")."""
    import shutil
    import tempfile
    import tomllib

    old = os.getcwd()
    work = tempfile.mkdtemp(prefix='c14-bio-', dir=old)
    os.chdir(work)
    try:
        import biogeme.biogeme as bio
        from biogeme import models
        from biogeme.expressions import Beta, Variable

        b = Beta('b', 0, None, None, 0)
        V = {1: b * Variable('x1'), 2: b * Variable('x2')}
        m = bio.BIOGEME(fio.database('tiny'), models.loglogit(V, None, Variable('ch')))
        mism, n = [], 0
        got = pio._get_all(m.biogeme_parameters)
        n += 1
        if not os.path.exists('biogeme.toml'):
            mism.append(dict(key='parameters:BIOGEME():file not created'))
            return dict(n=n, mismatches=mism)
        with open('biogeme.toml', 'rb') as f:
            doc = tomllib.load(f)
        for r in rows:
            section, name = r['key'].split('/')
            n += 2
            if not pio.same(got.get(r['key']), r['def']):
                mism.append(dict(key='parameters:BIOGEME():object:value differs', parameter=r['key'], got=repr(got.get(r['key'])), want=r['def']))
            want = r['def'] if r['kind'] != 'bool' else ('s:True' if r['def'] == 'b:True' else 's:False')
            if name not in doc.get(section, {}) or not pio.same(doc[section][name], want):
                mism.append(dict(key='parameters:BIOGEME():file:entry differs', parameter=r['key'], got=repr(doc.get(section, {}).get(name)), want=want))
        return dict(n=n, mismatches=mism)
    finally:
        os.chdir(old)
        shutil.rmtree(work, ignore_errors=True)


if __name__ == '__main__':
    check.main(PID, body)
