"""C01 -- every expression evaluates to its mathematical value on both evaluation paths.

(A) TLC checks ExprLang itself: SigSound (signature + tables are sufficient and correctly
    indexed), numbering by name, on the exhaustive one-operator level and on a thinned
    ("exhaustive modulo a residue class") two/three-operator level.
(B) spec -> code: every emitted DAG, with the value Val gives it on every row x parameter
    point, is built from the real classes and evaluated through get_value_c,
    get_value_and_derivatives (aggregated or not), the tree unfolding (no sharing), the
    pure-Python get_value where it applies, and BIOGEME.simulate with formulas side by side.
(C) code -> spec: the signature, vectors and data the real code hands to the engine are
    recorded and validated by ExprTrace.tla (post-order, leaf indices by name, Denotes).
"""

from __future__ import annotations

import sys

sys.path.insert(0, '/verif')

import numpy as np

from vb import check, exprenv, exprreplay, exprtrace, par, rt, tlc
from vb.exprenv import Builder, beta_dict
from vb.exprreplay import close

PID = 'C01'


def generate(chk, pool, max_ops, thin, salt, name, invariants):
    res = tlc.run('MCExprGen', pool.cfg(max_ops, invariants, salt=salt),
                  extra_modules={'MCExprGen': pool.module(thin=thin)}, workers='auto', timeout=2400)
    chk.add_tlc(name, res)
    return res.emitted


def simulate_side_by_side(pool, recs):
    """Several formulas side by side through BIOGEME.simulate (one engine call)."""
    import biogeme.biogeme as bio

    db = exprenv.database(pool, 'sim')
    out = []
    for p in range(pool.npoints):
        b = None
        formulas = {}
        share_leaves: dict = {}
        for k, rec in enumerate(recs):
            bld = Builder(pool, rec['ops'], share=True, init_point=p)
            bld.memo = share_leaves  # the same leaf objects in all formulas (sharing across formulas)
            # operator nodes differ between records: keep only leaves in the shared memo
            e = bld.build(rec['root'])
            for key in [x for x in share_leaves if x > bld.nl]:
                del share_leaves[key]
            formulas[f'f{k}'] = e
        b = bio.BIOGEME(db, formulas)
        b.generate_html = False
        b.generate_pickle = False
        sim = b.simulate(beta_dict(pool, p))
        out.append({k: sim[f'f{k}'].tolist() for k in range(len(recs))})
    return out


def body(chk: check.Check):
    rt.setup(chk.seed)
    quick = chk.tier == 'quick'
    salt = chk.seed % 9973
    invs = ['SigSound', 'EmitInv']
    recs = []
    pool1 = exprenv.pool_full() if not quick else exprenv.pool_mid()
    r1 = generate(chk, pool1, 1, (1,), 0, f'ExprLang exhaustive 1 operator, {len(pool1.leaves)} leaves', invs)
    recs += [(pool1, r) for r in r1]
    pool2 = exprenv.pool_small()
    thin2 = (3, 4) if quick else (2, 3)
    r2 = generate(chk, pool2, 2, thin2, salt, f'ExprLang 2 operators thinned {thin2} salt {salt}', invs)
    recs += [(pool2, r) for r in r2]
    # numeric literals written with many digits keep their value on both paths
    pool_lit = exprenv.pool_literals()
    r_lit = generate(chk, pool_lit, 1, (1,), 0, 'ExprLang: literals with more than six significant digits below every unary operator', invs)
    if not quick:
        thin3 = (6, 8, 12)
        r3 = generate(chk, pool2, 3, thin3, salt, f'ExprLang 3 operators thinned {thin3} salt {salt}', invs)
        recs += [(pool2, r) for r in r3]
    chk.rule = ('DAGs emitted by TLC from ExprLang (all operator kinds; operands range over all earlier nodes, so '
                'sharing is native); distinct = distinct canonical tree unfoldings; a case is one DAG x 2 parameter '
                'points x 3 rows x every evaluation path')

    # ---------------------------------------------------------------- (B) replay
    pairs = set()
    for pool, group in ((pool1, r1), (pool2, [r for p, r in recs if p is pool2]), (pool_lit, r_lit)):
        exprreplay.init(pool)
        results = par.pmap(exprreplay.replay_values, group, chunk=40)
        nl = len(pool.leaves)
        for rec, (st, val) in zip(group, results):
            desc = exprreplay.describe(rec)
            chk.replayed += 1
            feats = exprenv.features(rec['ops'], rec['root'], nl)
            for i in exprenv.reach(rec['ops'], rec['root'], nl):
                if i > nl:
                    n = rec['ops'][i - nl - 1]
                    for slot, k in enumerate(n['kids']):
                        child = rec['ops'][k - nl - 1]['op'] if k > nl else pool.leaves[k - 1][0]
                        pairs.add((n['op'], slot, child))
            if st != 'ok':
                chk.violation(f'replay:{st}', dict(formula=desc, ops=rec['ops'], error=val),
                              match=dict(kind='exception', features=feats))
                continue
            chk.count(desc, val['n'])
            chk.sample(dict(formula=desc, expected=[[exprreplay.terms.show(t) for t in row] for row in rec['vals']],
                            evaluations=val['n'], mismatches=len(val['mismatches'])))
            for m in val['mismatches']:
                chk.violation('replay:value', {**dict(formula=desc, ops=rec['ops']), **m},
                              match=dict(kind='value', features=feats, path_shared='tree' not in m['path']))

    # side-by-side simulation of batches of formulas (BIOGEME path)
    exprreplay.init(pool2)
    rng = np.random.default_rng(chk.seed)
    nbatch = 6 if quick else 40
    r2all = [r for p, r in recs if p is pool2 and not exprenv.features(r['ops'], r['root'], len(pool2.leaves))]
    batches = [[r2all[i] for i in rng.choice(len(r2all), size=min(25, len(r2all)), replace=False)] for _ in range(nbatch)]
    sims = par.pmap(lambda b: simulate_side_by_side(pool2, b), batches, chunk=1)
    for batch, (st, val) in zip(batches, sims):
        if st != 'ok':
            chk.violation('simulate:exception', dict(error=val, formulas=[exprreplay.describe(r) for r in batch]),
                          match=dict(kind='exception'))
            continue
        chk.evaluations += len(batch) * pool2.npoints
        for p in range(pool2.npoints):
            for k, rec in enumerate(batch):
                want = [row[p] for row in exprreplay.expected_values(rec)]
                got = val[p][k]
                for r_, (g, w) in enumerate(zip(got, want)):
                    if w is not None and not close(g, w):
                        chk.violation('simulate:value', dict(formula=exprreplay.describe(rec), point=p, row=r_, got=g, want=w,
                                                             side_by_side=len(batch)), match=dict(kind='value', features=[]))
    chk.extra['operator_slot_child_triples_covered'] = len(pairs)
    # vacuity: every operator class of the alphabets occurs in at least one replayed formula
    wanted = {o.replace('bioMultSum3', 'bioMultSum').replace('BelongsToHalf', 'BelongsTo') for o in pool1.unops + pool1.binops + pool1.naryops}
    missing = sorted(wanted - {p[0] for p in pairs})
    chk.extra['operator_classes_covered'] = sorted({p[0] for p in pairs})
    if missing:
        raise tlc.MachineryError(f'operator classes never generated: {missing}')

    # ---------------------------------------------------------------- (C) traces
    ntr = 400 if quick else 4000
    idx = rng.choice(len(r2all), size=min(ntr, len(r2all)), replace=False)
    chosen = [r2all[i] for i in idx]

    def rec_trace(args):
        k, rec = args
        db = exprreplay.DB
        return exprtrace.record_eval(pool2, db, rec, k % pool2.npoints, k, share=(k % 3 != 0))

    recorded = par.pmap(rec_trace, list(enumerate(chosen)), chunk=50)
    traces = []
    for (st, val), rec in zip(recorded, chosen):
        if st == 'ok':
            traces.append(val)
        else:
            chk.violation('trace:record', dict(formula=exprreplay.describe(rec), error=val), match=dict(kind='exception'))
    for tr in traces:
        want = ['__init__', 'setData', 'setExpression', 'setFreeBetas', 'setFixedBetas', 'setMissingData', 'calculate', 'getResults']
        if [c for c in tr['order'] if c in want] != want:
            chk.violation('trace:protocol', dict(order=tr['order'], want=want), match=dict(kind='protocol'))
    verdicts, res = exprtrace.validate(pool2, traces)
    chk.add_tlc(f'ExprTrace over {len(traces)} recorded evaluations', res)
    for tr in traces:
        v = verdicts.get(tr['tid'], 'not-consumed')
        if v == 'ok':
            chk.traces += 1
        else:
            chk.violation(f'trace:{v}', dict(tid=tr['tid'], clause=v, lines=[l for l in tr['lines']][:12], ops=tr['ops']),
                          match=dict(kind='trace', clause=v))
    if traces:
        chk.sample(dict(trace=dict(lines=len(traces[0]['lines']), first=traces[0]['lines'][:3], verdict=verdicts.get(traces[0]['tid']))))

    # negative controls: corrupt one recorded field -> must be rejected
    controls = []
    by_tid = {tr['tid']: (tr, rec) for tr, rec in zip(traces, [c for (st, _), c in zip(recorded, chosen) if st == 'ok'])}
    for how in ('swap-children', 'shift-betaid', 'drop-line', 'swap-free-vector', 'wrong-column'):
        for tid, (tr, rec) in by_tid.items():
            if how == 'swap-children':
                root_op = rec['ops'][-1]
                if root_op['op'] != 'Minus':
                    continue
                vals = exprreplay.expected_values(rec)
                # the corruption must change the value AT THE POINT this trace was recorded at (else it is masked)
                if all(abs(row[tr['p'] - 1] or 0) < 1e-9 for row in vals):
                    continue
                t2 = exprtrace.corrupt(dict(tr, lines=tr['lines']), how)
                # corrupt the ROOT line only
                t2 = None
                import json as _j
                t2 = _j.loads(_j.dumps(tr))
                if t2['lines'][-1]['op'] != 'Minus' or t2['lines'][-1]['kids'][0] == t2['lines'][-1]['kids'][1]:
                    continue
                t2['lines'][-1]['kids'] = t2['lines'][-1]['kids'][::-1]
            else:
                t2 = exprtrace.corrupt(tr, how)
            if t2 is not None:
                t2['tid'] = 100000 + len(controls)
                controls.append((how, t2))
                break
    if controls:
        cv, cres = exprtrace.validate(pool2, [c[1] for c in controls])
        if cres.error:
            for how, t2 in controls:
                chk.control(f'trace corruption {how}', True, 'rejected by an evaluation error in TLC')
        else:
            for how, t2 in controls:
                v = cv.get(t2['tid'], 'not-consumed')
                chk.control(f'trace corruption {how}', v != 'ok', f'verdict={v}')
    # direction-B control: a mutant of the expected value must be reported by the driver
    for rec in r2all:
        if rec['ops'][-1]['op'] == 'Minus' and rec['ops'][-1]['kids'][0] != rec['ops'][-1]['kids'][1]:
            vals = exprreplay.expected_values(rec)
            if any(v is not None and abs(v) > 1e-6 for row in vals for v in row):
                import copy

                mut = copy.deepcopy(rec)
                mut['ops'][-1]['kids'] = mut['ops'][-1]['kids'][::-1]
                st, val = rt.forked(exprreplay.replay_values, mut)
                chk.control('replay of a DAG with swapped Minus operands against unswapped expectations',
                            st != 'ok' or bool(val['mismatches']))
                break
    chk.uncovered += ['overflow behaviour', 'floating accuracy of the engine beyond 1e-9 relative']
    chk.assumptions += ['primitives exp/log/sin/cos/Phi/pow interpreted by Python math (vb/terms.py)',
                        'the 2-operator and deeper levels are explored modulo a residue class chosen by the seed']


if __name__ == '__main__':
    check.main(PID, body)
