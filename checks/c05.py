"""C05 -- choice models return proper probability distributions over the available alternatives.

specs/ChoiceModels.tla states the logit, nested logit, cross-nested logit (with and without an
explicit scale), MEV-with-user-terms and ordered logit / probit probabilities from the
literature, on observations whose utilities are V_i = ln a_i (so that e^V is an integer): exact
rationals wherever the value is rational, terms over pow / phi otherwise.  TLC explores every
case of the tier (labels x nest structure / allocations x nest and scale parameters x utilities
x availability pattern), checks on the model itself that the probabilities lie in [0, 1], sum to
one, vanish for unavailable alternatives, do not change under a -> c a, and that the three
statements of the NL / CNL probabilities (MEV theorem from G and its derivatives, decomposition
P(m) P(i | m), textbook closed form) agree -- and prints every case with its expected values.

The driver (vb/choicemodels.py) replays each case into biogeme.models: logit / loglogit, nested /
lognested / nested_mev_mu / lognested_mev_mu, cnl / logcnl / cnlmu / logcnlmu, mev / logmev,
ordered_logit / ordered_probit -- through a database (utilities log(Variable), availability and
chosen alternative as columns) and through plain Numeric expressions -- and compares values
(1e-12 exact cases, 1e-9 term cases), unit interval, sum, zero when unavailable, invariance under
a constant added to all utilities, log* = ln(*), and availability None on the all-available cases.

Two things the specification declares NOT to be part of a model are replayed as well:
* the names of the nest objects (NamesIrrelevant over the constant Namings: all nests unnamed, all with the
  same name, the first one named like the default name of the second, distinct names): every function
  written with nest objects is evaluated under every naming, same expected values;
* earlier constructions (Memoryless; action Rebuild, Steps = 2): the utility dictionary, then the availability
  dictionary, are modified IN PLACE and the model is built again from the same dictionaries and the same
  nests object; expected: the specification's value of the arguments as they are now.  Inside every structure
  the emitted cases are chained that way (the arguments after the modification are those of another emitted
  case); the two-step behaviours that TLC enumerates itself (one entry / all entries of one dictionary
  replaced) are replayed one by one.
"""

from __future__ import annotations

import copy
import functools
import sys

sys.path.insert(0, '/verif')

from vb import check, choicemodels as cm, par, rt, tlc

PID = 'C05'


def _patched_logit_group(group):
    """Negative control: models.logit replaced by a version that ignores the availabilities."""
    import biogeme.models as M
    from biogeme.expressions import exp

    real = M.loglogit
    M.logit = lambda util, av, i: exp(real(util, None, i))
    return cm.c05_group(group, only=('logit', 'loglogit'))


def body(chk: check.Check):
    rt.setup(chk.seed)
    cm.preload()
    emitted = cm.run_models(chk, chk.tier)
    chk.rule = ('cases emitted by TLC from ChoiceModels.tla; a case = one model structure (labels, nests / allocations, nest and scale '
                'parameters, user terms, thresholds) x one observation (utilities ln a_i, availability pattern); every alternative of '
                'every case is evaluated through each applicable model function; distinct = distinct cases')
    samples: dict = {}
    stats = {}
    numeric_every = 30 if chk.tier == 'quick' else 60
    for name, recs in emitted.items():
        for r in recs:
            chk.distinct.add((r['kind'], cm.struct_key(r), repr(r.get('a')), repr(r.get('av')), repr(r.get('x')), repr(r.get('ts')),
                              repr(r.get('first'))))
        if name == 'ordered':
            results = par.pmap(cm.ord_case, recs, chunk=max(8, len(recs) // 48))
            stats[name] = cm.report(chk, name, recs, results, samples)
            continue
        if name == 'session':   # the two-step behaviours (the one-step cases of this run give the value after the first construction)
            items = cm.session_items(recs)
            results = par.pmap(cm.session_group, items, chunk=1, timeout=900)
            stats[name] = cm.report(chk, name, items, results, samples)
            continue
        items = cm.groups(recs)
        results = par.pmap(functools.partial(cm.c05_group, plan=chk.tier), items, chunk=max(4, len(items) // 64), timeout=900)
        stats[name] = cm.report(chk, name, items, results, samples)
        # the same cases written with plain numbers (no database), a regular sample of them
        picked = recs[chk.seed % numeric_every::numeric_every]
        results = par.pmap(cm.c05_numeric, picked, chunk=max(8, len(picked) // 64), timeout=900)
        st = cm.report(chk, f'{name} (Numeric)', picked, results)
        chk.replayed -= st['cases']   # the same cases a second time: counted once
        stats[name]['numeric_cases'] = st['cases']
        stats[name]['numeric_comparisons'] = st['comparisons']
        # the same sample with every scale / nest / allocation parameter a free parameter built at a neutral starting
        # value and evaluated at its real value
        if name in ('nl', 'cnl', 'cnl4', 'nl4') or any(r_['kind'] in ('nl', 'cnl') for r_ in picked[:1]):
            results = par.pmap(cm.c05_neutral_start, picked, chunk=max(8, len(picked) // 64), timeout=900)
            st = cm.report(chk, f'{name} (parameters given at evaluation)', picked, results)
            chk.replayed -= st['cases']
            stats[name]['neutral_start_cases'] = st['cases']
    chk.extra['families'] = stats
    chk.extra['inexact_cases_compared_at_1e-9'] = sum(s.get('inexact_cases', 0) for s in stats.values())
    for name in emitted:
        if name in samples:
            chk.sample(samples[name], limit=8)

    # ------------------------------------------------------------------ negative controls
    small = next(r for r in cm.runs('quick') if r['name'] == 'cnl')
    small = dict(small, consts=dict(small['consts'], LabelSeqs=[cm.L3], AVecs=[(1, 2, 2)]))
    two = dict(small, consts=dict(small['consts'], CnlMuPairs=[('2', '3/2')], TopMus=('1',)))
    sess = next(r for r in cm.runs('quick') if r['name'] == 'session')
    sess = dict(sess, kinds=['cnl'], consts=dict(sess['consts'], AlphaRows=[('1', '0'), ('1/2', '1/2')]))
    mutants = cm.together({     # the TLC runs of the controls, at the same time
        'no-availability': lambda: cm.run_mutant(small, 'no-availability', cm.MODEL_INVARIANTS),
        'no-availability-emitted': lambda: tlc.run('MCChoice', cm.cfg([], mutation='no-availability'),
                                                   extra_modules={'MCChoice': cm.module(small)}, workers=2, timeout=900, heap='2g'),
        'names-matter': lambda: cm.run_mutant(two, 'names-matter', ['NamesIrrelevant']),
        'remembers': lambda: cm.run_mutant(sess, 'remembers', ['Memoryless'])})
    # (1) the specification without the availability factor: TLC must report it
    res = mutants['no-availability']
    chk.control('ChoiceModels with Mutation = no-availability: TLC must report ZeroUnavail', res.violated == 'ZeroUnavail',
                f'violated={res.violated}')
    # (2) ... and its expected values, replayed, must be refused by the driver
    res = mutants['no-availability-emitted']
    mut = [g for g in cm.groups(res.emitted) if any(not all(r['av']) for r in g)]
    st, val = rt.forked(cm.c05_group, mut[len(mut) // 2]) if mut else ('none', None)
    chk.control('expected values of the no-availability mutant replayed into cnl / cnlmu: value clause',
                st == 'ok' and any(k.endswith(':value') for k in val['counts']), f'{len(res.emitted)} mutant cases emitted')

    # (3) two alternatives' expected probabilities swapped
    def swap(w):
        w = list(w)
        w[0], w[1] = w[1], w[0]
        return w

    for name in ('logit', 'nl', 'mev'):
        g = next(g for g in cm.groups(emitted[name]) if len(g[0]['labels']) >= 3 and any(abs(cm.val(r['p'][0], r.get('refs')) -
                                                                                              cm.val(r['p'][1], r.get('refs'))) > 1e-3
                                                                                          for r in g))
        st, val = rt.forked(cm.c05_group, g, corrupt=swap)
        chk.control(f'{name}: expected probabilities of the first two alternatives swapped', st == 'ok' and any(
            k.endswith(':value') for k in val['counts']))
    r = copy.deepcopy(next(r for r in emitted['ordered'] if len(r['labels']) == 3 and r['kind'] == 'oprobit'))
    st, val = rt.forked(cm.ord_case, r, corrupt=lambda w: list(reversed(w)))
    chk.control('ordered probit: expected category probabilities reversed', st == 'ok' and bool(val['mism']))
    # (4) a known-wrong implementation: logit that ignores the availabilities
    g = next(g for g in cm.groups(emitted['logit']) if len(g[0]['labels']) == 3)
    st, val = rt.forked(_patched_logit_group, g)
    chk.control('models.logit replaced by a version ignoring availability: zero-when-unavailable and value clauses',
                st == 'ok' and 'logit:logit:zero-when-unavailable' in val['counts'] and 'logit:logit:value' in val['counts']
                and 'logit:loglogit:log-of-probability' in val['counts'])

    # (5) the names of the nest objects: a specification in which a nest takes the parameter of the nest it shares its name with ...
    res = mutants['names-matter']
    chk.control('ChoiceModels with Mutation = names-matter (nests keyed by name): TLC must report NamesIrrelevant',
                res.violated == 'NamesIrrelevant', f'violated={res.violated}')
    # ... and a library that does the same (nested logit terms computed from nests keyed by their name)
    two_nests = next(g for g in cm.groups(emitted['nl']) if len(g[0]['labels']) == 4 and len(cm.nl_members(g[0])) == 2
                     and len(cm.nl_members(g[0])[0][1]) == 2 and g[0]['mus'] == [[3, 2], [2, 1]] and g[0]['mu'] == [1, 1])
    st, val = rt.forked(cm.c05_group_patched, two_nests, 'names', plan=chk.tier)
    chk.control('nested logit terms computed from nests keyed by name: value-under-naming clause (two nests with the same name)',
                st == 'ok' and 'nl:nested:value-under-naming' in val['counts']
                and not any(k.endswith(':value') or k.endswith('after-modification') for k in val['counts']),
                f'clauses={sorted(val["counts"]) if st == "ok" else val}')
    # (6) a second construction: a specification that keeps the nest sums of the first construction ...
    res = mutants['remembers']
    chk.control('ChoiceModels with Mutation = remembers (Steps = 2, nest sums of the first construction kept): TLC must report Memoryless',
                res.violated == 'Memoryless', f'violated={res.violated}')
    # ... and a library that does the same (cross-nested terms from what these dictionary objects held the first time)
    split = next(g for g in cm.groups(emitted['cnl']) if len(g[0]['labels']) == 3 and g[0]['red'] == 'none' and g[0]['mu'] == [1, 1]
                 and g[0]['mus'] == [[3, 2], [2, 1]])
    st, val = rt.forked(cm.c05_group_patched, split, 'remembers', plan=chk.tier)
    chk.control('cross-nested logit that remembers the first content of the dictionaries: value-after-modification clause, plain values unaffected',
                st == 'ok' and all(f'cnl:{f}:value-after-modification' in val['counts'] for f in ('cnl', 'logcnl', 'cnlmu'))
                and not any(k.endswith(':value') or k.endswith('under-naming') for k in val['counts']),
                f'clauses={sorted(val["counts"]) if st == "ok" else val}')
    item = next(i for i in cm.session_items(emitted['session']) if i['steps'][0]['kind'] == 'cnl' and i['steps'][0]['mu'] == [1, 1])
    st, val = rt.forked(cm.session_group_patched, item, 'remembers')
    chk.control('the same library on the two-step behaviours of TLC: second-construction clause only',
                st == 'ok' and 'cnl:cnl:two-step:second-construction' in val['counts']
                and not any(k.endswith('first-construction') for k in val['counts']),
                f'clauses={sorted(val["counts"]) if st == "ok" else val}')

    chk.uncovered += [
        'utilities other than ln of an integer 1..4 (and 3x, 4x those): the closed forms need e^V exact; utilities depending on free '
        'parameters of an estimation are not part of this check',
        'more than 4 alternatives, more than two nests (alternatives alone are additional singleton nests), allocations outside {0, 1/2, 1}, '
        'nest parameters outside {1, 3/2, 2}, scale outside {1, 2}',
        'nest structures the library must refuse (overlapping nests of a nested logit, unknown alternatives): check_partition / '
        'check_validity are exercised on valid structures only',
        'mev_endogenous_sampling / logmev_endogenous_sampling (correction terms) and the deprecated aliases (cnl_avail, logcnl_avail, getMev...)',
        'the pure-Python LogLogit.get_value (returns +inf for an unavailable chosen alternative); the property is observed through get_value_c',
        'names of nests other than the four namings of the constant Namings; nest objects shared between two different nests containers',
        'histories longer than three constructions on the same objects, dictionaries modified between construction and evaluation (a built '
        'expression keeps the expressions it was built from), a utility dictionary whose SET of alternatives changes',
        'quick tier: every function written with nest objects is evaluated under every naming, but each naming at one step of the history only '
        '(a mismatch is classified afterwards by evaluating the same arguments from new objects); the Numeric mode and availability None use one naming',
        'in the irrational cases TLC decides the structure of the expected value (which alternative enters which sum with which exponent); '
        'its number is computed by the driver (libm pow / erfc), and the identities sum = 1 / MEV theorem / reduction are then checked '
        'numerically on the emitted terms (1e-12)',
    ]
    chk.assumptions += [
        'primitives pow / phi of the term language are interpreted by Python math (vb/terms.py)',
        'a probability may exceed 1 by floating-point noise: the unit-interval clause allows 1 + 1e-12; unavailable alternatives must give exactly 0.0 '
        '(and -inf for the log functions)',
        'every case is evaluated with every alternative as the chosen one, including unavailable ones (that is how "zero when unavailable" is observed)',
        'a model is a function of the arguments at the moment of the construction: after a dictionary has been modified in place, only the NEXT '
        'construction is required to follow it (nothing is required of expressions built earlier)',
        'a naming may be refused by the library with BiogemeError (nests.py documents names as free labels; none is refused today: see refused in the evidence)',
        'ordered models: thresholds are passed as the library expects them (first threshold + non-negative differences, set through the betas argument)',
    ]


if __name__ == '__main__':
    check.main(PID, body)
