"""C17 -- the specification helpers evaluate to the closed forms their documentation states.

specs/Helpers.tla defines, from the documentation, the piecewise-linear variables / formula /
transformed variable / plain function (exact rationals, "None" thresholds as flags), the Box-Cox
transform (definition, accurate form, Lipschitz constant in the exponent), the normal, lognormal,
uniform, triangular densities and the logistic distribution function, the regression
log-likelihood, segmented parameters (values mapped to categories, several values possibly sharing one category,
one shift per non-reference category) and the nested-logit correlation matrix.  For each family a
generator builds cases step by step; TLC explores all of them, checks the family's invariants on
the model (sum of the variables = clipped distance, formula = function, exact mass of the
piecewise-linear densities, additivity of segment shifts, symmetric correlation with unit
diagonal ...) and emits every case with its expected value.  The driver (vb/helpers.py) replays
each case into the real helpers and compares (exact families 1e-12, term families 1e-9,
regression 1e-8).
"""

from __future__ import annotations

import copy
import sys
import threading

sys.path.insert(0, '/verif')

from vb import check, helpers, par, rt, tlc

PID = 'C17'

REPLAY = {
    'piecewise': (helpers.pw_groups, helpers.pw_replay, 12),
    'boxcox': (helpers.bc_groups, helpers.bc_replay, 6),
    'density': (helpers.ds_groups, helpers.ds_replay, 4),
    'regression': (lambda recs: recs, helpers.rg_replay, 10),
    'segmentation': (helpers.sg_groups, helpers.sg_replay, 10),
    'nests': (lambda recs: recs, helpers.ns_replay, 10),
}


def run_models(chk, inst):
    """One TLC run per family (concurrently: each is a separate JVM)."""
    mod = helpers.module(inst)
    out: dict = {}

    def go(fam):
        out[fam] = tlc.run('MCHelpers', helpers.cfg(inst, fam), extra_modules={'MCHelpers': mod},
                           workers={'piecewise': 8, 'segmentation': 4}.get(fam, 2), timeout=1500, heap='2g')

    ths = [threading.Thread(target=go, args=(fam,)) for fam in helpers.FAMILIES]
    for t in ths:
        t.start()
    for t in ths:
        t.join()
    emitted = {}
    for fam in helpers.FAMILIES:
        res = out[fam]
        chk.add_tlc(f'Helpers {fam}: {", ".join(helpers.FAMILIES[fam]["invariants"])}', res)
        recs = [r for r in res.emitted if r.get('fam') == fam]
        if not recs or res.states < len(recs):
            raise tlc.MachineryError(f'family {fam}: {len(recs)} cases emitted, {res.states} states: {res.raw[-1500:]}')
        emitted[fam] = recs
    return emitted


def report(chk, fam, items, results):
    """Turn the replay results of one family into counts / violations."""
    for item, (st, val) in zip(items, results):
        if st != 'ok':
            chk.violation(f'{fam}:replay-{st}', dict(item=item if not isinstance(item, list) else item[0], error=val),
                          match=dict(family=fam, kind='exception'))
            continue
        chk.replayed += val['cases']
        chk.count(None, val['n'])
        for m in val['mism']:
            chk.violation(m['key'], m['detail'], match=m['facts'])


def body(chk: check.Check):
    rt.setup(chk.seed)
    helpers.preload()
    inst = helpers.instance(chk.tier, chk.seed)
    emitted = run_models(chk, inst)
    chk.rule = ('cases emitted by TLC from Helpers.tla; a case = one helper configuration x one argument; distinct = distinct '
                '(family, configuration, argument); each case is evaluated through every way of passing its parameters '
                '(free/fixed Beta, Numeric, number)')

    extra = {}
    samples = {}
    oracle_gap = 0.0
    quads = {}
    seg_kinds: dict = {}
    for fam, (grouper, fn, chunk) in REPLAY.items():
        recs = emitted[fam]
        items = grouper(recs)
        # few, large batches: every batch is a fork of this (by now large) process
        results = par.pmap(fn, items, chunk=max(chunk, len(items) // 64))
        report(chk, fam, items, results)
        extra[fam] = dict(cases=len(recs), replay_items=len(items))
        for r in recs:
            chk.distinct.add((fam, repr(sorted((k, repr(v)) for k, v in r.items() if k in
                                               ('thr', 'betas', 'x', 'l', 'l2', 'pair', 'dist', 'p', 'y', 'm', 's', 'segs', 'row',
                                                'ref', 'prefix', 'order', 'nests', 'top', 'names')))))
        for item, (st, val) in zip(items, results):
            if st == 'ok' and val.get('sample') and fam not in samples and (fam != 'boxcox' or not item[0]['pair']) and (fam != 'segmentation' or val.get('many_to_one')):
                samples[fam] = val['sample']
            if st == 'ok' and fam == 'boxcox':
                oracle_gap = max(oracle_gap, val['oracle_gap'])
            if st == 'ok' and fam == 'segmentation':
                r0 = item[0]
                kind = val['kind']
                seg_kinds[kind] = seg_kinds.get(kind, 0) + 1
                seg_kinds['reference not given'] = seg_kinds.get('reference not given', 0) + (not all(s_['refcat'] for s_ in r0['segs']))
            if st == 'ok' and fam == 'density' and val.get('quad') is not None:
                r0 = item[0]
                quads.setdefault(r0['dist'], []).append(abs(val['quad'] - 1.0))
    chk.extra['families'] = extra
    chk.extra['segmentation_configurations_replayed'] = seg_kinds
    if not all(any(k.startswith(p) and n for k, n in seg_kinds.items()) for p in
               ('one category', 'many-to-one, reference', 'many-to-one, a non-reference', 'reference not given')):
        raise tlc.MachineryError(f'segmentation replay does not cover every kind of mapping: {seg_kinds}')
    chk.extra['boxcox_definition_vs_accurate_form_max_rel_gap'] = oracle_gap
    chk.extra['numeric_mass_max_abs_error'] = {k: max(v) for k, v in quads.items()}
    chk.extra['numeric_mass_parameter_sets'] = {k: len(v) for k, v in quads.items()}
    if oracle_gap > 1e-7:
        raise tlc.MachineryError(f'the two forms of the Box-Cox reference disagree by {oracle_gap}')

    for fam in helpers.FAMILIES:   # one concrete replayed case per family (expected by the spec / observed on the code)
        if fam in samples:
            chk.sample(samples[fam], limit=6)

    # ------------------------------------------------------------------ negative controls
    # (1) model level: the plain function that forgets the origin violates FormulaIsFunction
    mod = helpers.module(inst)
    res = tlc.run('MCHelpers', helpers.cfg(inst, 'piecewise', mutation='function-ignores-origin', emit=False),
                  extra_modules={'MCHelpers': mod}, workers=4, timeout=600, heap='2g')
    chk.control('Helpers with Mutation = function-ignores-origin: TLC must report PwFormulaIsFunction',
                res.violated == 'PwFormulaIsFunction', f'violated={res.violated}')

    # (2) replay against known-wrong implementations (the defects of the unrepaired tree, rebuilt here)
    pw_items = helpers.pw_groups(emitted['piecewise'])
    hit = [g for g in pw_items if not g[0]['thr'][0]['inf'] and helpers.fr(g[0]['thr'][0]['v']) != 0 and len(g[0]['thr']) >= 3]
    st, val = rt.forked(lambda: helpers.pw_replay(hit[0], function=helpers.buggy_piecewise_function))
    chk.control('piecewise_function replaced by a version that ignores a non-zero first threshold',
                st == 'ok' and any(m['key'] in ('piecewise:function:value', 'piecewise:formula-vs-function') for m in val['mism']),
                f'thresholds={[t["v"] for t in hit[0][0]["thr"]]}')
    bc_items = helpers.bc_groups(emitted['boxcox'])
    ser = [g for g in bc_items if not g[0]['pair'] and 0 < abs(helpers.fr(g[0]['l'])) < helpers.F(1, 10**5)]
    st, val = rt.forked(lambda: helpers.bc_replay(ser[0], maker=helpers.buggy_boxcox))
    chk.control('Box-Cox series with second coefficient 1 instead of 1/2: value clause',
                st == 'ok' and any(m['key'] == 'boxcox:value' for m in val['mism']), f'ell={helpers.fr(ser[0][0]["l"])}')
    strad = [g for g in bc_items if g[0]['pair'] and
             (abs(helpers.fr(g[0]['l'])) < helpers.F(1, 10**5)) != (abs(helpers.fr(g[0]['l2'])) < helpers.F(1, 10**5))]
    st, val = rt.forked(lambda: helpers.bc_replay(strad[0], maker=helpers.buggy_boxcox))
    chk.control('Box-Cox series with second coefficient 1 instead of 1/2: continuity clause across the switching point',
                st == 'ok' and any(m['key'] == 'boxcox:continuity' for m in val['mism']),
                f'ell pair={helpers.fr(strad[0][0]["l"])}, {helpers.fr(strad[0][0]["l2"])}')

    # (3) a mutant of the expected value must be reported by the driver
    mut = copy.deepcopy(next(r for r in emitted['nests'] if len(r['nests']) >= 1 and r['names'] == 'choice'))

    def swap(want):
        w = [row[:] for row in want]
        w[0], w[1] = w[1], w[0]
        return w

    st, val = rt.forked(lambda: helpers.ns_replay(mut, corrupt=swap))
    chk.control('nests: two rows of the expected correlation matrix swapped', st == 'ok' and bool(val['mism']))
    g = copy.deepcopy(next(g for g in helpers.sg_groups(emitted['segmentation']) if len(g[0]['segs']) == 2))
    for r in g:
        for e in r['expected']:
            e['value'] = [e['value'][0] + e['value'][1], e['value'][1]]  # + 1
    st, val = rt.forked(lambda: helpers.sg_replay(g))
    chk.control('segmentation: expected values shifted by one', st == 'ok' and any(m['key'] == 'segmentation:value' for m in val['mism']))
    # (4) many-to-one mappings: the model with one shift per VALUE, and the replay against a segmentation that keeps one value
    #     per category
    res = tlc.run('MCHelpers', helpers.cfg(inst, 'segmentation', mutation='shift-per-value', emit=False),
                  extra_modules={'MCHelpers': mod}, workers=4, timeout=600, heap='2g')
    chk.control('Helpers with Mutation = shift-per-value (the shift follows the value, not its category): TLC must report a '
                'segmentation invariant', res.violated in ('SgSameCategory', 'SgAdditive', 'SgReferenceSegment'), f'violated={res.violated}')
    sg_items = helpers.sg_groups(emitted['segmentation'])
    shared = next(g for g in sg_items if len(g[0]['segs']) == 1 and g[0]['segs'][0]['refcat'] and
                  any(list(g[0]['segs'][0]['cats']).count(q) > 1 and q != g[0]['segs'][0]['refcat'] for q in g[0]['segs'][0]['cats']))
    st, val = rt.forked(lambda: helpers.sg_replay(shared, patch=helpers.buggy_segmentation_patch))
    chk.control('segmentation that keeps one value per category (two values share a non-reference category): value clause',
                st == 'ok' and any(m['key'] == 'segmentation:value' for m in val['mism']),
                f'mapping={dict(zip(shared[0]["segs"][0]["vals"], shared[0]["segs"][0]["cats"]))}')
    plain = next(g for g in sg_items if not helpers.sg_many_to_one(g[0]['segs']))
    st, val = rt.forked(lambda: helpers.sg_replay(plain, patch=helpers.buggy_segmentation_patch))
    if st != 'ok' or val['mism']:
        raise tlc.MachineryError(f'the one-value-per-category control is not specific to many-to-one mappings: {st} {val}')
    dsg = copy.deepcopy(next(g for g in helpers.ds_groups(emitted['density']) if g[0]['dist'] == 'triangular'))
    dsg[0]['breaks'][1] = dsg[0]['breaks'][0]  # mode moved onto the lower bound: the trapezoid no longer covers the mass
    st, val = rt.forked(lambda: helpers.ds_replay(dsg))
    chk.control('triangular density: a corrupted breakpoint list must break the exact mass',
                st == 'ok' and any(m['key'] == 'density:triangular:mass' for m in val['mism']))

    chk.uncovered += [
        'numeric clause "normal and lognormal densities integrate to one": decided by the driver\'s quadrature of the replayed '
        'expression (trapezoid rule, 4000 cells, tolerance 1e-8), not by the specification; for the uniform and triangular densities '
        'the mass is exact (trapezoid over the breakpoints, an invariant of the model and a 1e-12 comparison on the code)',
        'Box-Cox at x = 0 (the library returns 0 by construction; the documented formula is for x > 0) and at x < 0',
        'piecewise_as_variable with only two thresholds (no slope: the library refuses the empty sum with its own error type)',
        'names of the parameters that piecewise_formula / piecewise_as_variable create when no slope is given',
        'reference category not given on a second or later segmentation variable; many-to-one mappings in segmentations of three '
        'variables (thorough tier: the third variable is explored with one category per value only); more than three values per variable',
        'NestsForCrossNestedLogit.correlation (numerical double integral), not part of the property',
    ]
    chk.assumptions += [
        'primitives exp / log / pow / expm1 / sqrt(2 pi) of the term language are interpreted by Python math (vb/terms.py)',
        'the Box-Cox reference is expm1(l log x)/l; its agreement with the literal (x^l - 1)/l is measured and recorded',
        'continuity of Box-Cox in the exponent is checked as a Lipschitz bound L^2/2 exp(|l L|) |l1 - l2| (+1e-10) between neighbouring '
        'exponents of the grid, which includes 1e-5 +- 1e-9 on both signs (the documented switching point of the series expansion)',
        'segmented parameters are named through OneSegmentation.beta_name (the library\'s public naming)',
    ]


if __name__ == '__main__':
    check.main(PID, body)
