"""C16 -- catalogs span the product of their controllers; operators stay inside it.

Decided by specs/Catalog.tla (controllers, catalogs, configurations, identifiers, the
neighbourhood operators as documented, iteration, meaning of the configured formula).

(A) TLC checks the specification itself on the full state graph of every structure
    (Record = FALSE): #configurations = product of the sizes, identifiers unique / canonical /
    parse(print) = id under every permutation of the terms, all catalogs of a controller in
    step with it, configured formula = hand-written formula, closure of every operator,
    Decrease o Increase = id, opposite compass directions, iteration visits each exactly once.
(B) spec -> code: the same runs print one line per configuration (identifier, selected member
    of every catalog, value on every row, the hand-written tree, every permutation of the
    terms); Record = TRUE runs print operator sequences (exhaustive: every configuration x
    every operator application x steps 1..5, then random walks) with the configuration
    expected after each step.  Everything is replayed through the real Catalog / Controller /
    CentralController / Configuration classes, the operators of prepare_operators() and the
    methods behind them, get_value_c on a small database, and the helper generators
    segmentation_catalogs / generic_alt_specific_catalogs (whose documented shape is written
    in vb/catenv.py independently of the library).
"""

from __future__ import annotations

import copy
import sys
from concurrent.futures import ThreadPoolExecutor

sys.path.insert(0, '/verif')

from vb import catenv, catreplay, check, par, rt, tlc
from vb.catenv import MODEL_INVARIANTS, dec

PID = 'C16'


def tlc_jobs(structs, quick, seed):
    """(name, struct, kind, kwargs for tlc.run)"""
    jobs = []
    for st in structs:
        mod = {'CatalogGen': st.module()}
        jobs.append((f'{st.label}: full state graph, {st.nconf} configurations', st, 'model',
                     dict(cfg=st.cfg(MODEL_INVARIANTS + ['TableInv', 'MetaInv'], record=False, max_iter=8), mods=mod, kw={})))
        deep = (not quick) and st.nconf <= 6 and len(st.ctrls) <= 2 and st.label not in ('shared', 'elem')
        ln = 3 if deep else 2
        jobs.append((f'{st.label}: every configuration x every operator sequence of length {ln - 1}', st, 'paths',
                     dict(cfg=st.cfg(['EmitInv'], record=True, max_len=ln, first_setconf=True), mods=mod, kw={})))
        depth, num = (4, 5) if quick else (8, 20 if st.nconf >= 24 else 40)
        jobs.append((f'{st.label}: {num} random walks of {depth} operator applications', st, 'walks',
                     dict(cfg=st.cfg(['EmitInv'], record=True, max_len=depth, first_setconf=False), mods=mod,
                          kw=dict(simulate=dict(num=num), depth=depth + 2, seed=seed % 100000 + 1))))
    st = structs[1]
    for kw, inv in ((dict(dec_sign=1), 'IncDecInverse'), (dict(sev_dec_sign=1), 'SeveralOpposite')):
        jobs.append((f'specification mutant {kw}: TLC must find {inv} violated', st, 'mutant',
                     dict(cfg=st.cfg(MODEL_INVARIANTS, record=False), mods={'CatalogGen': st.module(**kw)}, kw={}, inv=inv)))
    return jobs


def run_job(job):
    name, st, kind, a = job
    workers = 1 if kind == 'walks' or st.nconf <= 6 else 3
    return tlc.run('CatalogGen', a['cfg'], extra_modules=a['mods'], workers=workers, timeout=1500, heap='2g', **a['kw'])


def body(chk: check.Check):
    rt.setup(chk.seed)
    quick = chk.tier == 'quick'
    structs = catenv.structures(chk.tier)
    chk.rule = ('structures = catalog DAGs (1-3 controllers of sizes 1-4, shared, implicit, nested, below Elem/bioMultSum, helper '
                'generated); per structure TLC prints every configuration and operator sequences (exhaustive short ones from every '
                'configuration + random walks); distinct = distinct (structure, operator sequence) and (structure, configuration)')

    # ------------------------------------------------------------------ (A) TLC
    import time
    tm = {}
    t_ = time.time()
    jobs = tlc_jobs(structs, quick, chk.seed)
    jobs.sort(key=lambda j: -j[1].nconf)  # the big ones first
    with ThreadPoolExecutor(max_workers=10) as pool:
        results = list(pool.map(run_job, jobs))
    tm['tlc'] = round(time.time() - t_, 1)
    t_ = time.time()
    tables, paths = {}, {}
    mutants = []
    for (name, st, kind, a), res in zip(jobs, results):
        if kind == 'mutant':
            if res.error:
                raise tlc.MachineryError(res.error[:1000])
            mutants.append((name, res.violated == a['inv'], f'violated={res.violated}'))
            continue
        chk.add_tlc(name, res)
        if kind == 'model':
            tables[st.label] = catreplay.Table(st, res.emitted)
            if len(tables[st.label].rows) != st.nconf:
                raise tlc.MachineryError(f'{st.label}: {len(tables[st.label].rows)} configuration rows printed, {st.nconf} expected')
        else:
            seen = paths.setdefault(st.label, {})
            for p in res.emitted:
                if p.get('kind') == 'path' and p['steps']:
                    seen.setdefault(catreplay.path_key(st.label, p), p)
        res.raw, res.emitted = '', []
    chk.extra['structures'] = [dict(label=s.label, controllers=[(c['name'], len(c['alts'])) for c in s.ctrls], configurations=s.nconf,
                                    catalogs=sum(1 for n in s.nodes if n['op'] == 'cat'), features=s.features,
                                    operator_sequences=len(paths.get(s.label, {}))) for s in structs]

    # ------------------------------------------------------------------ (B) replay: tables
    tres = par.pmap(catreplay.check_table, [(st, tables[st.label], None) for st in structs], chunk=1)
    for st, (status, val) in zip(structs, tres):
        chk.replayed += 1
        if status != 'ok':
            chk.violation(f'table:{status}', dict(struct=st.label, error=val), match=dict(kind='exception', struct=st.label))
            continue
        chk.evaluations += val['n']
        for cfg in tables[st.label].rows:
            chk.distinct.add((st.label, cfg))
        for m in val['mismatches']:
            chk.violation(m['key'], dict(struct=st.label, **m['detail']), match=m['match'])
    tm['tables'] = round(time.time() - t_, 1)
    t_ = time.time()
    t0 = tables[structs[4].label]
    r0 = t0.rows[sorted(t0.rows)[-1]]
    chk.sample(dict(structure=structs[4].label, configuration=dec(r0['id']), values_per_row=r0['vals'],
                    handwritten=catenv.show_tree(structs[4], r0['tree']), selected={dec(s['cat']): dec(s['alt']) for s in r0['sel']},
                    term_orders=[dec(p) for p in r0['perms']]))

    # ------------------------------------------------------------------ (B) replay: operator sequences
    work = []
    for st in structs:
        plist = list(paths.get(st.label, {}).values())
        value_every = 10 if quick else 5
        for base in range(0, len(plist), 400):
            work.append((st, tables[st.label], plist[base:base + 400], base, value_every, None))
    pres = par.pmap(catreplay.replay_paths, work, chunk=1, timeout=900)
    stats = {}
    op_count = {}
    for (st, tab, plist, base, _, _), (status, val) in zip(work, pres):
        if status != 'ok':
            chk.violation(f'paths:{status}', dict(struct=st.label, error=val, first=plist[0]['steps'][:3]), match=dict(kind='exception', struct=st.label))
            continue
        chk.replayed += val['paths']
        chk.evaluations += val['n']
        for p in plist:
            chk.distinct.add(catreplay.path_key(st.label, p))
            for s in p['steps']:
                op_count[s['op']] = op_count.get(s['op'], 0) + 1
        for k, v in val['stats'].items():
            stats[k] = stats.get(k, 0) + v
        for m in val['mismatches']:
            chk.violation(m['key'], dict(struct=st.label, **m['detail']), match=m['match'])
    tm['paths'] = round(time.time() - t_, 1)
    t_ = time.time()
    chk.extra['operator_applications_replayed'] = op_count
    chk.extra['observed_not_judged'] = dict(
        modify_controller_return_value=sorted(k for k in stats if k.startswith('modify_return')),
        note='return value of modify_controller ("number of actual modifications") is recorded, not judged: the docstring does not fix its sign')
    chk.extra['several_operator_tries'] = stats.get('several_tries', 0)
    some = next((p for p in paths[structs[2].label].values() if p['steps'][-1]['op'] == 'pair' and len(p['steps']) >= 3),
                next(iter(paths[structs[2].label].values())))
    chk.sample(dict(structure=structs[2].label, operator_sequence=[
        dict(op=s['op'], a=s['a'], b=s['b'], dir=s['dir'], step=s['step'], expected=tables[structs[2].label].id_of[tuple(s['cfg'])])
        for s in some['steps']]))

    # ------------------------------------------------------------------ negative controls
    st = structs[1]  # 'two'
    for name, detected, note in mutants:
        chk.control(name, detected, note)
    # a mutated expectation must be reported by the driver
    tab = tables[st.label]
    plist = [p for p in paths[st.label].values() if p['steps'][-1]['op'] == 'inc' and p['steps'][-1]['step'] == 1][:1]
    mut = copy.deepcopy(plist[0])
    a = mut['steps'][-1]['a'] - 1
    size = len(st.ctrls[a]['alts'])
    mut['steps'][-1]['cfg'][a] = (mut['steps'][-1]['cfg'][a] + 1) % size
    status, val = rt.forked(catreplay.replay_paths, (st, tab, [mut], 0, 1, None))
    chk.control('expected configuration after an Increase shifted by one in a printed sequence', status != 'ok' or bool(val['mismatches']),
                f'{status}: {len(val["mismatches"]) if status == "ok" else val}')
    # a corrupted identifier text must be reported
    plist = [p for p in paths[st.label].values() if p['steps'][-1]['op'] == 'fromstring'][:1]
    mut = copy.deepcopy(plist[0])
    other = next(i for i in tab.ids if i != tab.id_of[tuple(mut['steps'][-1]['cfg'])])
    mut['steps'][-1]['text'] = [ord(c) for c in other]
    status, val = rt.forked(catreplay.replay_paths, (st, tab, [mut], 0, 1, None))
    chk.control('identifier text of another configuration substituted in a FromString step', status != 'ok' or bool(val['mismatches']),
                f'{status}: {len(val["mismatches"]) if status == "ok" else val}')
    # the real structure built with two members of a catalog exchanged
    status, val = rt.forked(catreplay.check_table, (st, tab, 'swap-members'))
    chk.control('real catalog built with two members exchanged', status != 'ok' or any(m['key'].startswith('value:') for m in val['mismatches']),
                f'{status}: {sorted({m["key"] for m in val["mismatches"]}) if status == "ok" else val}')

    # the real controller made non-circular (clamping) must be caught on wrap-around moves
    def clamp_patch():
        from biogeme.controller import Controller

        orig = Controller.modify_controller
        Controller.modify_controller = lambda self, step, circular: orig(self, step, False)

    wrap = [p for p in paths[st.label].values() if p['steps'][-1]['op'] in ('inc', 'dec', 'pair')][:200]
    status, val = rt.forked(catreplay.replay_paths, (st, tab, wrap, 0, 0, clamp_patch))
    chk.control('Controller.modify_controller patched to stop at the ends instead of wrapping around',
                status != 'ok' or any(m['key'].startswith('operator:') for m in val['mismatches']),
                f'{status}: {len(val["mismatches"]) if status == "ok" else val}')

    tm['controls'] = round(time.time() - t_, 1)
    chk.extra['phase_wall_s'] = tm
    chk.uncovered += ['structures with more than 3 controllers or more than 4 alternatives',
                      'spaces larger than maximum_number_catalog_expressions (all_configurations is None there)',
                      'names containing the reserved characters : and ;', 'two different Controller objects carrying the same name',
                      'controller names for which the keys of prepare_operators() collide (Pair_a_a_a_NE)',
                      'the probability law of the random operator (only its support is compared)']
    chk.assumptions += ['random operator: each application is repeated with up to %d seeds; every outcome must lie in the set the '
                        'specification allows and the outcome the specification chose must be produced by some seed' % catreplay.SEVERAL_TRIES,
                        'values are exact integers (distinct per member), compared with ==']


if __name__ == '__main__':
    check.main(PID, body)
