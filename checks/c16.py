"""C16 -- catalogs span the product of their controllers; operators stay inside it.

Decided by specs/Catalog.tla (controllers, catalogs, configurations, identifiers, the
neighbourhood operators as documented, iteration, meaning of the configured formula).

(A) TLC checks the specification itself on the full state graph of every structure
    (Record = FALSE): #configurations = product of the sizes, identifiers unique / canonical /
    parse(print) = id under every permutation of the terms, all catalogs of a controller in
    step with it, configured formula = hand-written formula, closure of every operator,
    Decrease o Increase = id, opposite compass directions, iteration visits each exactly once.
(B) spec -> code: the same runs print one line per configuration (identifier, selected member
    of every catalog, value on every row, the hand-written tree, every permutation of the
    terms); Record = TRUE runs print operator sequences (exhaustive: every configuration x
    every operator application x steps 1..5, then random walks) with the configuration
    expected after each step.  Everything is replayed through the real Catalog / Controller /
    CentralController / Configuration classes, the operators of prepare_operators() and the
    methods behind them, get_value_c on a small database, and the helper generators
    segmentation_catalogs / generic_alt_specific_catalogs (whose documented shape is written
    in vb/catenv.py independently of the library).
(C) three further parts of the quantified space, each decided by the same specification:
    (a) ConfSpec: ONE Configuration object whose selections are assigned after creation -- every
        history Create / ReadId / Assign of length 4 over a small set of selections, with the
        identifier, pairs and equalities expected after each step;
    (b) BehindSpec: select A, move ONE controller individually (select_expression, set_controller,
        set_index, set_name, a second CentralController, modify_controller), then select A again
        or apply an operator GIVEN A -- state and value compared after every step;
    (c) catalogs sharing one controller whose member names are listed in another order: the
        specification states the documented rule (refused) and, for an accepting
        implementation, the selection BY NAME.
"""

from __future__ import annotations

import copy
import sys
from concurrent.futures import ThreadPoolExecutor

sys.path.insert(0, '/verif')

from vb import catenv, catreplay, check, par, rt, tlc
from vb.catenv import MODEL_INVARIANTS, dec

PID = 'C16'


BEHIND_INVARIANTS = ['EmitInv', 'BehindInv', 'Valid', 'Sync', 'SyncPos', 'ValueAgrees']
CONF_INVARIANTS = ['CEmitInv', 'CIdsUnique', 'CRoundTrip', 'CCurrent']
CONF_LEN = 4


def behind_plan(structs, quick):
    """(structure, largest operator step) of the runs of BehindSpec"""
    if quick:
        return [(st, 1) for st in structs if st.label in ('two', 'shared')]
    return [(st, 2 if st.nconf <= 8 else 1) for st in structs if st.nconf <= 24]


def tlc_jobs(structs, quick, seed, order_structs=(), conf_struct=None, csels=None):
    """(name, struct, kind, kwargs for tlc.run)"""
    jobs = []
    for st in order_structs:
        jobs.append((f'{st.label}: full state graph, member names {"in another order" if "misordered" in st.features else "in the same order"}',
                     st, 'order', dict(cfg=st.cfg(MODEL_INVARIANTS + ['TableInv', 'MetaInv'], record=False, max_iter=8),
                                       mods={'CatalogGen': st.module()}, kw={})))
    for st, ms in behind_plan(structs, quick):
        jobs.append((f'{st.label}: select A, move one controller individually, re-select A / operator given A (steps 1..{ms})', st, 'behind',
                     dict(cfg=st.cfg(BEHIND_INVARIANTS, record=True, max_len=3, max_step=ms, spec='BehindSpec'),
                          mods={'CatalogGen': st.module()}, kw={})))
    if conf_struct is not None:
        jobs.append((f'{conf_struct.label}: one Configuration object, every history of {CONF_LEN} steps over {len(csels)} selections', conf_struct,
                     'confobj', dict(cfg=conf_struct.cfg(CONF_INVARIANTS, record=False, spec='ConfSpec', conf_len=CONF_LEN),
                                     mods={'CatalogGen': conf_struct.module(csels=csels)}, kw={})))
    for st in structs:
        mod = {'CatalogGen': st.module()}
        jobs.append((f'{st.label}: full state graph, {st.nconf} configurations', st, 'model',
                     dict(cfg=st.cfg(MODEL_INVARIANTS + ['TableInv', 'MetaInv'], record=False, max_iter=8), mods=mod, kw={})))
        deep = (not quick) and st.nconf <= 6 and len(st.ctrls) <= 2 and st.label not in ('shared', 'elem')
        ln = 3 if deep else 2
        jobs.append((f'{st.label}: every configuration x every operator sequence of length {ln - 1}', st, 'paths',
                     dict(cfg=st.cfg(['EmitInv'], record=True, max_len=ln, first_setconf=True), mods=mod, kw={})))
        depth, num = (4, 5) if quick else (8, 20 if st.nconf >= 24 else 40)
        jobs.append((f'{st.label}: {num} random walks of {depth} operator applications', st, 'walks',
                     dict(cfg=st.cfg(['EmitInv'], record=True, max_len=depth, first_setconf=False), mods=mod,
                          kw=dict(simulate=dict(num=num), depth=depth + 2, seed=seed % 100000 + 1))))
    st = structs[1]
    for kw, inv in ((dict(dec_sign=1), 'IncDecInverse'), (dict(sev_dec_sign=1), 'SeveralOpposite')):
        jobs.append((f'specification mutant {kw}: TLC must find {inv} violated', st, 'mutant',
                     dict(cfg=st.cfg(MODEL_INVARIANTS, record=False), mods={'CatalogGen': st.module(**kw)}, kw={}, inv=inv)))
    return jobs


def run_job(job):
    name, st, kind, a = job
    workers = 1 if kind in ('walks', 'order', 'confobj') or st.nconf <= 6 else 3
    # dozens of SHORT runs side by side: the optimising JIT tier and the parallel collector cost more CPU than
    # they save (a 204-state run: 11.6 s CPU by default, 3 s with these options)
    env = {'JAVA_TOOL_OPTIONS': '-XX:TieredStopAtLevel=1 -XX:ParallelGCThreads=1'} if st.nconf <= 24 else None
    return tlc.run('CatalogGen', a['cfg'], extra_modules=a['mods'], workers=workers, timeout=1500, heap='2g', env=env, **a['kw'])


def body(chk: check.Check):
    rt.setup(chk.seed)
    quick = chk.tier == 'quick'
    structs = catenv.structures(chk.tier)
    order_structs = catenv.order_structures(chk.tier)
    conf_struct = structs[1]  # 'two': controller names sorted unlike their declaration
    csels = catenv.selections(conf_struct, chk.tier)
    chk.rule = ('structures = catalog DAGs (1-3 controllers of sizes 1-4, shared, implicit, nested, below Elem/bioMultSum, helper '
                'generated); per structure TLC prints every configuration and operator sequences (exhaustive short ones from every '
                'configuration + random walks; histories "select A, move ONE controller individually, re-select A / operator given A"); '
                'one Configuration object: every history Create/ReadId/Assign of 4 steps over a small set of selections; structures whose '
                'catalogs list the names of a shared controller in another order (verdict of the specification); distinct = distinct '
                '(structure, operator sequence), (structure, configuration), Configuration-object history')

    # ------------------------------------------------------------------ (A) TLC
    import time
    tm = {}
    t_ = time.time()
    jobs = tlc_jobs(structs, quick, chk.seed, order_structs, conf_struct, csels)
    jobs.sort(key=lambda j: -j[1].nconf)  # the big ones first
    with ThreadPoolExecutor(max_workers=12) as pool:
        results = list(pool.map(run_job, jobs))
    tm['tlc'] = round(time.time() - t_, 1)
    import resource
    _ru = resource.getrusage(resource.RUSAGE_CHILDREN)
    tm['tlc_cpu'] = round(_ru.ru_utime + _ru.ru_stime, 1)
    t_ = time.time()
    tables, paths, bpaths, cpaths = {}, {}, {}, {}
    mutants = []
    for (name, st, kind, a), res in zip(jobs, results):
        if kind == 'mutant':
            if res.error:
                raise tlc.MachineryError(res.error[:1000])
            mutants.append((name, res.violated == a['inv'], f'violated={res.violated}'))
            continue
        chk.add_tlc(name, res)
        if kind in ('model', 'order'):
            tables[st.label] = catreplay.Table(st, res.emitted)
            if len(tables[st.label].rows) != st.nconf:
                raise tlc.MachineryError(f'{st.label}: {len(tables[st.label].rows)} configuration rows printed, {st.nconf} expected')
        elif kind == 'behind':
            seen = bpaths.setdefault(st.label, {})
            for p in res.emitted:
                if p.get('kind') == 'path' and len(p['steps']) == 3:
                    seen.setdefault(catreplay.path_key(st.label, p), p)
        elif kind == 'confobj':
            for p in res.emitted:
                if p.get('kind') == 'confobj':
                    cpaths.setdefault(catreplay.confobj_key(st.label, p), p)
        else:
            seen = paths.setdefault(st.label, {})
            for p in res.emitted:
                if p.get('kind') == 'path' and p['steps']:
                    seen.setdefault(catreplay.path_key(st.label, p), p)
        res.raw, res.emitted = '', []
    chk.extra['structures'] = [dict(label=s.label, controllers=[(c['name'], len(c['alts'])) for c in s.ctrls], configurations=s.nconf,
                                    catalogs=sum(1 for n in s.nodes if n['op'] == 'cat'), features=s.features,
                                    operator_sequences=len(paths.get(s.label, {}))) for s in structs]

    # ------------------------------------------------------------------ (B) replay: tables
    tres = par.pmap(catreplay.check_table, [(st, tables[st.label], None) for st in structs], chunk=1)
    for st, (status, val) in zip(structs, tres):
        chk.replayed += 1
        if status != 'ok':
            chk.violation(f'table:{status}', dict(struct=st.label, error=val), match=dict(kind='exception', struct=st.label))
            continue
        chk.evaluations += val['n']
        for cfg in tables[st.label].rows:
            chk.distinct.add((st.label, cfg))
        for m in val['mismatches']:
            chk.violation(m['key'], dict(struct=st.label, **m['detail']), match=m['match'])
    tm['tables'] = round(time.time() - t_, 1)
    t_ = time.time()
    t0 = tables[structs[4].label]
    r0 = t0.rows[sorted(t0.rows)[-1]]
    chk.sample(dict(structure=structs[4].label, configuration=dec(r0['id']), values_per_row=r0['vals'],
                    handwritten=catenv.show_tree(structs[4], r0['tree']), selected={dec(s['cat']): dec(s['alt']) for s in r0['sel']},
                    term_orders=[dec(p) for p in r0['perms']]))

    # ------------------------------------------------------------------ (B) replay: operator sequences
    work = []
    for st in structs:
        plist = list(paths.get(st.label, {}).values())
        value_every = 10 if quick else 5
        for base in range(0, len(plist), 400):
            work.append((st, tables[st.label], plist[base:base + 400], base, value_every, None))
    pres = par.pmap(catreplay.replay_paths, work, chunk=1, timeout=900)
    stats = {}
    op_count = {}
    for (st, tab, plist, base, _, _), (status, val) in zip(work, pres):
        if status != 'ok':
            chk.violation(f'paths:{status}', dict(struct=st.label, error=val, first=plist[0]['steps'][:3]), match=dict(kind='exception', struct=st.label))
            continue
        chk.replayed += val['paths']
        chk.evaluations += val['n']
        for p in plist:
            chk.distinct.add(catreplay.path_key(st.label, p))
            for s in p['steps']:
                op_count[s['op']] = op_count.get(s['op'], 0) + 1
        for k, v in val['stats'].items():
            stats[k] = stats.get(k, 0) + v
        for m in val['mismatches']:
            chk.violation(m['key'], dict(struct=st.label, **m['detail']), match=m['match'])
    tm['paths'] = round(time.time() - t_, 1)
    t_ = time.time()
    chk.extra['operator_applications_replayed'] = op_count
    chk.extra['observed_not_judged'] = dict(
        modify_controller_return_value=sorted(k for k in stats if k.startswith('modify_return')),
        note='return value of modify_controller ("number of actual modifications") is recorded, not judged: the docstring does not fix its sign')
    chk.extra['several_operator_tries'] = stats.get('several_tries', 0)
    some = next((p for p in paths[structs[2].label].values() if p['steps'][-1]['op'] == 'pair' and len(p['steps']) >= 3),
                next(iter(paths[structs[2].label].values())))
    chk.sample(dict(structure=structs[2].label, operator_sequence=[
        dict(op=s['op'], a=s['a'], b=s['b'], dir=s['dir'], step=s['step'], expected=tables[structs[2].label].id_of[tuple(s['cfg'])])
        for s in some['steps']]))

    # ------------------------------------------------------------------ (C.b) controllers moved behind the central controller's back
    work = []
    for st in structs:
        plist = list(bpaths.get(st.label, {}).values())
        for base in range(0, len(plist), 250):
            # no end-of-path value (0); the value is compared after the individual move and after the last step
            work.append((st, tables[st.label], plist[base:base + 250], base, 0, None, 1))
    pres = par.pmap(catreplay.replay_paths, work, chunk=1, timeout=900)
    behind_count = {}
    for (st, tab, plist, base, *_), (status, val) in zip(work, pres):
        if status != 'ok':
            chk.violation(f'behind:{status}', dict(struct=st.label, error=val, first=plist[0]['steps'][:3]), match=dict(kind='exception', struct=st.label))
            continue
        chk.replayed += val['paths']
        chk.evaluations += val['n']
        for p in plist:
            chk.distinct.add(catreplay.path_key(st.label, p))
            k = f"{p['steps'][1]['op']}/{p['steps'][1]['via'] or '-'} then {p['steps'][2]['op']}"
            behind_count[k] = behind_count.get(k, 0) + 1
        for m in val['mismatches']:
            chk.violation('behind:' + m['key'], dict(struct=st.label, **m['detail']), match=dict(m['match'], history='behind'))
    if not bpaths or not all(bpaths.values()):
        raise tlc.MachineryError('BehindSpec printed no history')
    chk.extra['behind_the_back_histories'] = dict(per_structure={k: len(v) for k, v in bpaths.items()}, by_shape=behind_count)
    tm['behind'] = round(time.time() - t_, 1)
    t_ = time.time()

    # ------------------------------------------------------------------ (C.a) one Configuration object assigned after creation
    clist = list(cpaths.values())
    if not clist:
        raise tlc.MachineryError('ConfSpec printed no history')
    size = max(50, len(clist) // 32 + 1)
    work = [(conf_struct, csels, clist[base:base + size], base, None) for base in range(0, len(clist), size)]
    cres = par.pmap(catreplay.replay_confobj, work, chunk=1, timeout=600)
    for (st, _, plist, base, _), (status, val) in zip(work, cres):
        if status != 'ok':
            chk.violation(f'confobj:{status}', dict(struct=st.label, error=val, first=plist[0]['steps'][:2]), match=dict(kind='exception', struct=st.label))
            continue
        chk.replayed += val['paths']
        chk.evaluations += val['n']
        for p in plist:
            chk.distinct.add(catreplay.confobj_key(st.label, p))
        for m in val['mismatches']:
            chk.violation(m['key'], dict(struct=st.label, **m['detail']), match=m['match'])
    ops_seen = {}
    for p in clist:
        for s_ in p['steps']:
            ops_seen[s_['op']] = ops_seen.get(s_['op'], 0) + 1
    chk.extra['configuration_object_histories'] = dict(structure=conf_struct.label, selections=csels, length=CONF_LEN, histories=len(clist), steps=ops_seen)
    ex_c = next((p for p in clist if [s_['op'] for s_ in p['steps']] == ['create', 'read', 'assign', 'read']
                 and p['steps'][0]['sel'] != p['steps'][2]['sel']), clist[0])
    chk.sample(dict(configuration_object_history=[dict(op=s_['op'], selections=s_['sel'], expected_id=dec(s_['id'])) for s_ in ex_c['steps']]))
    tm['confobj'] = round(time.time() - t_, 1)
    t_ = time.time()

    # ------------------------------------------------------------------ (C.c) member names of a shared controller in another order
    ores = par.pmap(catreplay.check_order, [(st, tables[st.label], None) for st in order_structs], chunk=1)
    order_outcomes = {}
    for st, (status, val) in zip(order_structs, ores):
        chk.replayed += 1
        chk.distinct.add((st.label, 'order'))
        verdict = tables[st.label].meta['verdict']
        if status != 'ok':
            chk.violation(f'order:{status}', dict(struct=st.label, error=val), match=dict(kind='exception', struct=st.label))
            continue
        chk.evaluations += val['n']
        order_outcomes[st.label] = dict(specification=verdict, library=val['outcome'], configurations_compared=val['configurations'],
                                        misordered=[dec(c) for c in tables[st.label].meta['misordered']])
        if val['outcome'] == 'accepted':
            for cfg in tables[st.label].rows:
                chk.distinct.add((st.label, cfg))
        for m in val['mismatches']:
            chk.violation(m['key'], dict(struct=st.label, **m['detail']), match=m['match'])
    if not any(t['specification'] == 'refused' for t in order_outcomes.values()) or \
            not any(t['specification'] == 'accepted' and t['configurations_compared'] for t in order_outcomes.values()):
        raise tlc.MachineryError(f'member-order structures: a refused one and an accepted, compared one are needed: {order_outcomes}')
    chk.extra['member_order_structures'] = order_outcomes
    tm['order'] = round(time.time() - t_, 1)
    t_ = time.time()

    # ------------------------------------------------------------------ negative controls
    st = structs[1]  # 'two'
    for name, detected, note in mutants:
        chk.control(name, detected, note)
    # a mutated expectation must be reported by the driver
    tab = tables[st.label]
    plist = [p for p in paths[st.label].values() if p['steps'][-1]['op'] == 'inc' and p['steps'][-1]['step'] == 1][:1]
    mut = copy.deepcopy(plist[0])
    a = mut['steps'][-1]['a'] - 1
    size = len(st.ctrls[a]['alts'])
    mut['steps'][-1]['cfg'][a] = (mut['steps'][-1]['cfg'][a] + 1) % size
    status, val = rt.forked(catreplay.replay_paths, (st, tab, [mut], 0, 1, None))
    chk.control('expected configuration after an Increase shifted by one in a printed sequence', status != 'ok' or bool(val['mismatches']),
                f'{status}: {len(val["mismatches"]) if status == "ok" else val}')
    # a corrupted identifier text must be reported
    plist = [p for p in paths[st.label].values() if p['steps'][-1]['op'] == 'fromstring'][:1]
    mut = copy.deepcopy(plist[0])
    other = next(i for i in tab.ids if i != tab.id_of[tuple(mut['steps'][-1]['cfg'])])
    mut['steps'][-1]['text'] = [ord(c) for c in other]
    status, val = rt.forked(catreplay.replay_paths, (st, tab, [mut], 0, 1, None))
    chk.control('identifier text of another configuration substituted in a FromString step', status != 'ok' or bool(val['mismatches']),
                f'{status}: {len(val["mismatches"]) if status == "ok" else val}')
    # the real structure built with two members of a catalog exchanged
    status, val = rt.forked(catreplay.check_table, (st, tab, 'swap-members'))
    chk.control('real catalog built with two members exchanged', status != 'ok' or any(m['key'].startswith('value:') for m in val['mismatches']),
                f'{status}: {sorted({m["key"] for m in val["mismatches"]}) if status == "ok" else val}')

    # the real controller made non-circular (clamping) must be caught on wrap-around moves
    def clamp_patch():
        from biogeme.controller import Controller

        orig = Controller.modify_controller
        Controller.modify_controller = lambda self, step, circular: orig(self, step, False)

    wrap = [p for p in paths[st.label].values() if p['steps'][-1]['op'] in ('inc', 'dec', 'pair')][:200]
    status, val = rt.forked(catreplay.replay_paths, (st, tab, wrap, 0, 0, clamp_patch))
    chk.control('Controller.modify_controller patched to stop at the ends instead of wrapping around',
                status != 'ok' or any(m['key'].startswith('operator:') for m in val['mismatches']),
                f'{status}: {len(val["mismatches"]) if status == "ok" else val}')

    new_part_controls(chk, st, tab, tables, bpaths, conf_struct, csels, clist, order_structs)

    tm['controls'] = round(time.time() - t_, 1)
    chk.extra['phase_wall_s'] = tm
    chk.uncovered += ['structures with more than 3 controllers or more than 4 alternatives',
                      'spaces larger than maximum_number_catalog_expressions (all_configurations is None there)',
                      'names containing the reserved characters : and ;', 'two different Controller objects carrying the same name',
                      'controller names for which the keys of prepare_operators() collide (Pair_a_a_a_NE)',
                      'the probability law of the random operator (only its support is compared)',
                      'Configuration objects modified otherwise than through the public setter (in-place mutation of the list returned by '
                      '`selections`); histories of more than 4 steps of one Configuration object',
                      'individual moves interleaved with operators in histories longer than 3 steps are only sampled by the random walks']
    chk.assumptions += ['random operator: each application is repeated with up to %d seeds; every outcome must lie in the set the '
                        'specification allows and the outcome the specification chose must be produced by some seed' % catreplay.SEVERAL_TRIES,
                        'values are exact integers (distinct per member), compared with ==',
                        'a structure whose catalogs list the names of a shared controller in different orders is expected to be refused '
                        '(BiogemeError, Catalog.__init__ "Incompatible IDs"); an implementation accepting it is tolerated only if every '
                        'catalog then presents the member with the matching NAME (all observables of the table)']


def _reported(status, val, prefix=''):
    return status != 'ok' or any(m['key'].startswith(prefix) for m in val['mismatches'])


def _note(status, val):
    return f'{status}: {sorted({m["key"] for m in val["mismatches"]})[:6] if status == "ok" else val}'


def new_part_controls(chk, st, tab, tables, bpaths, conf_struct, csels, clist, order_structs):
    """One corrupted expectation per new part (it must be REPORTED, through the ordinary reporting path),
    one mutated implementation per new part, and the reporting path itself."""
    # ---- (a) the identifier expected at the last read replaced by the one before the assignment
    hist = next(p for p in clist if [s_['op'] for s_ in p['steps']] == ['create', 'read', 'assign', 'read']
                and p['steps'][0]['id'] != p['steps'][2]['id'])
    mut = copy.deepcopy(hist)
    mut['steps'][3]['id'] = mut['steps'][0]['id']
    status, val = rt.forked(catreplay.replay_confobj, (conf_struct, csels, [mut], 0, None))
    chk.control('(a) identifier expected after Assign replaced by the identifier before it', _reported(status, val, 'confobj:'), _note(status, val))

    def stale_patch():
        from biogeme.configuration import Configuration

        def setter(self, the_list):   # the setter no longer refreshes the stored identifier
            first = not hasattr(self, 'string_id')
            self._Configuration__selections = sorted(the_list)
            if first:
                self.string_id = self.get_string_id()

        Configuration.selections = property(Configuration.selections.fget, setter)

    status, val = rt.forked(catreplay.replay_confobj, (conf_struct, csels, clist[:200], 0, stale_patch))
    chk.control('(a) Configuration.selections setter patched not to refresh the stored identifier',
                _reported(status, val, 'confobj:'), _note(status, val))

    # ---- (b) the configuration expected after re-selecting A replaced by the one the individual move left
    bl = list(bpaths[st.label].values())
    again = next(p for p in bl if p['steps'][2]['op'] == 'setconf' and p['steps'][1]['op'] == 'setindex')
    mut = copy.deepcopy(again)
    mut['steps'][2]['cfg'] = list(mut['steps'][1]['cfg'])
    status, val = rt.forked(catreplay.replay_paths, (st, tab, [mut], 0, 0, None, 1))
    chk.control('(b) configuration expected after re-selecting A replaced by the individually moved one', _reported(status, val, 'state:setconf'),
                _note(status, val))

    def cache_patch():
        from biogeme.controller import CentralController

        orig = CentralController.set_configuration

        def cached(self, configuration):   # "already there": trusts what the central controller applied last
            if getattr(self, '_applied', None) == configuration.get_string_id():
                return
            orig(self, configuration)
            self._applied = configuration.get_string_id()

        CentralController.set_configuration = cached

    status, val = rt.forked(catreplay.replay_paths, (st, tab, bl[:250], 0, 0, cache_patch, 1))
    chk.control('(b) CentralController.set_configuration patched to skip a configuration it applied last (blind to individual moves)',
                _reported(status, val, 'state:setconf'), _note(status, val))

    # ---- (c) the verdict of the specification on a misordered structure replaced by "accepted"
    mis = next(s_ for s_ in order_structs if 'misordered' in s_.features)
    tmut = copy.deepcopy(tables[mis.label])
    tmut.meta['verdict'] = 'accepted'
    status, val = rt.forked(catreplay.check_order, (mis, tmut, None))
    # (a library that accepts the structure AND serves it by name satisfies both verdicts: nothing to observe then)
    by_name = status == 'ok' and val['outcome'] == 'accepted' and not val['mismatches']
    chk.control('(c) verdict "refused" of the specification replaced by "accepted" for a misordered structure', _reported(status, val) or by_name,
                _note(status, val) + (' -- accepted and served by name: the verdict is not observable' if by_name else ''))
    # the member a catalog of the shared controller is expected to present, replaced by another name (well-formed structure)
    same = next(s_ for s_ in order_structs if 'same-order' in s_.features)
    tmut = copy.deepcopy(tables[same.label])
    row = tmut.rows[sorted(tmut.rows)[-1]]
    shared_alts = [a for a in same.ctrls[0]['alts']]
    for sel in row['sel']:
        if dec(sel['cat']) == 'second':
            sel['alt'] = [ord(ch) for ch in next(a for a in shared_alts if a != dec(sel['alt']))]
    status, val = rt.forked(catreplay.check_order, (same, tmut, None))
    chk.control('(c) member expected of the second catalog of the shared controller replaced by another name', _reported(status, val, 'select:selected member'),
                _note(status, val))

    def set_patch():
        import biogeme.catalog as bc
        from biogeme.controller import Controller

        orig = bc.Catalog.__init__

        def init(self, catalog_name, named_expressions, controlled_by=None):   # compares the names as a SET
            names = [ne.name for ne in named_expressions]
            if controlled_by is not None and sorted(names) == sorted(controlled_by.specification_names):
                orig(self, catalog_name, named_expressions, Controller(controlled_by.controller_name, names))
                self.controlled_by = controlled_by
            else:
                orig(self, catalog_name, named_expressions, controlled_by)

        bc.Catalog.__init__ = init

    status, val = rt.forked(catreplay.check_order, (mis, tables[mis.label], set_patch))
    chk.control('(c) Catalog.__init__ patched to compare the member names as a set (members then taken by position)',
                _reported(status, val, 'order:accepted:'), _note(status, val))

    # ---- the reporting path: context and call site carry the same keys; a failing iterate step is reported
    probe = []
    try:
        catreplay._mm(probe, 'probe', {}, dict(want=1, got=2, step=3), dict(want=5), want=7, got=2)
        kept = sorted(probe[0]['detail'].items())
        ok = kept == sorted({'want': 7, 'got': 2, 'step': 3, 'context.want': 1, 'context.context.want': 5}.items())
    except Exception as exc:  # noqa: BLE001
        kept, ok = repr(exc), False
    chk.control('reporting: a context and the call site both carry `want` / `got` (no value lost, no exception)', ok, str(kept))
    itp = dict(kind='path', label=st.label, steps=[dict(again['steps'][0]), dict(again['steps'][0], op='iterate', ret=tab.meta['nconf'])])
    tcut = copy.deepcopy(tab)
    tcut.ids = tcut.ids[1:]
    status, val = rt.forked(catreplay.replay_paths, (st, tcut, [itp], 0, 0, None))
    chk.control('reporting: one identifier removed from the set expected of an iteration step', status == 'ok' and _reported(status, val, 'iterate:visits'),
                _note(status, val))


if __name__ == '__main__':
    check.main(PID, body)
