"""C15 -- the saved-iteration file is always a sound restart point.

(A) IterFile.tla: TLC explores every sequence of evaluations (improving, worsening, ties,
    non-finite) interleaved with every step of the save and a Crash enabled in EVERY state, over
    two estimations (Restart): FileComplete, FileBest, RestartSucceeds, NeverBelowStart, UpToDate.
    The three other variants of the saver (in place / best frozen at the first evaluation) are run
    as negative controls: TLC must report each of them.
(C) the real calculate_likelihood_and_derivatives with save_iterations runs under strace; the
    system calls on the iteration file and its temporary file, interleaved with the evaluations,
    are validated step by step by IterFileTrace.tla; then the run is repeated with the process
    KILLED at the entry of every relevant system call (strace fault injection); what survives on
    disk is observed and a real restart (estimate() in a fresh process) must succeed and start
    from the saved values -- all judged by the same trace specification.
"""

from __future__ import annotations

import itertools
import json
import os
import re
import shutil
import subprocess
import sys
import tempfile

sys.path.insert(0, '/verif')

from vb import check, par, tlc
from vb.tlc import MachineryError

PID = 'C15'
DRIVER = '/verif/vb/iterdriver.py'
SYSCALLS = 'openat,open,creat,write,pwrite64,writev,close,rename,renameat,renameat2,unlink,unlinkat,mkdir,ftruncate,truncate,fsync,fdatasync'
ENV = dict(os.environ, OMP_NUM_THREADS='1', OPENBLAS_NUM_THREADS='1', MKL_NUM_THREADS='1', PYTHONHASHSEED='0',
           PYTHONDONTWRITEBYTECODE='1', VERIF_REPO=os.environ.get('VERIF_REPO', '/repo'))


def model_cfg(atomic, upd, k, me, mr, levels=3):
    return f'''SPECIFICATION Spec
CONSTANTS
 K = {k}
 Levels = {{{", ".join(str(i) for i in range(1, levels + 1))}}}
 MaxEvals = {me}
 MaxRuns = {mr}
 Atomic = {"TRUE" if atomic else "FALSE"}
 UpdateBest = {"TRUE" if upd else "FALSE"}
INVARIANT TypeOK
INVARIANT FileComplete
INVARIANT FileBest
INVARIANT RestartSucceeds
INVARIANT NeverBelowStart
INVARIANT UpToDate
'''


# ----------------------------------------------------------------------------------- real runs
CENTERS = [0.5, -1.0 / 3.0, 0.1 + 0.2]      # 0.5 - 0.5 gives a coordinate that is exactly 0.0


def make_spec(workdir, names, points, tag, scaled=None):
    """points: list of dict name -> float (incl. the gate)"""
    spec = dict(dir=workdir, model=f'm{tag}', names=names, gate='zz_gate', nan_param=('m_nan' if len(names) < 50 else None),
                start=[0.25] * len(names), centers=[CENTERS[i] if len(names) == 3 else (0.1 + 0.2 if i % 2 == 0 else -1.0 / 3.0) for i in range(len(names))],
                points=[{k: float(v).hex() for k, v in p.items()} for p in points], out=os.path.join(workdir, f'out-{tag}.json'),
                restart_full=len(names) < 50, scaled=list(scaled) if scaled else [False] * len(points))
    path = os.path.join(workdir, f'spec-{tag}.json')
    json.dump(spec, open(path, 'w'))
    return spec, path


def strace_run(mode, spec_path, log, inject=None, timeout=900):
    cmd = ['strace', '-f', '-y', '-qq', '-s', '0', '-e', f'trace={SYSCALLS}', '-o', log]
    if inject:
        cmd += ['-e', f'inject={inject[0]}:signal=KILL:when={inject[1]}']
    cmd += ['/venv/bin/python', DRIVER, mode, spec_path]
    p = subprocess.run(cmd, env=ENV, capture_output=True, text=True, timeout=timeout)
    return p.returncode, p.stderr[-500:]


LINE = re.compile(r'^(\d+)\s+(\w+)\((.*)$')


def parse_log(log, iter_name):
    """-> list of dict(sys, pid, text, target) for all traced syscalls, in log order"""
    out = []
    for raw in open(log, errors='replace'):
        m = LINE.match(raw.rstrip('\n'))
        if not m:
            continue
        pid, sysc, rest = m.group(1), m.group(2), m.group(3)
        if 'resumed>' in raw and not raw.lstrip().split(None, 1)[1].startswith('<...'):
            pass
        target = None
        if f'{iter_name}.tmp' in rest:
            target = 'tmp'
        elif iter_name in rest:
            target = 'iter'
        out.append(dict(pid=pid, sys=sysc, text=rest, target=target, raw=raw.rstrip('\n')))
    return out


def events_from(calls, content_lines_for_eval, upto=None):
    """Translate the syscalls on the iteration files (between the begin/end marks) into trace events.
    content_lines_for_eval(k) -> list of byte lengths of the lines of the file for evaluation k."""
    ev = []
    started = False
    cur_eval = 0
    written = {'tmp': 0, 'iter': 0}
    fds = {}
    for c in calls[: upto if upto is not None else len(calls)]:
        if c['sys'] == 'mkdir' and '/vbmark/' in c['text']:
            tag = re.search(r'/vbmark/([\w-]+)', c['text']).group(1)
            if tag == 'begin':
                started = True
            elif tag.startswith('eval-'):
                cur_eval = int(tag.split('-')[1])
                ev.append(dict(ev='evalmark', k=cur_eval))
            elif tag == 'end':
                ev.append(dict(ev='end'))
            continue
        if not started or c['target'] is None:
            continue
        s = c['sys']
        if s in ('openat', 'open', 'creat'):
            if 'O_WRONLY' in c['text'] or 'O_RDWR' in c['text'] or s == 'creat':
                written[c['target']] = 0
                ev.append(dict(ev='open', file=c['target'], trunc='O_TRUNC' in c['text']))
        elif s in ('write', 'pwrite64', 'writev'):
            m = re.search(r'=\s*(\d+)\s*$', c['text'])
            n = int(m.group(1)) if m else 0
            written[c['target']] += n
            lens = content_lines_for_eval(cur_eval)
            tot, lines = 0, 0
            for ln in lens:
                if tot + ln <= written[c['target']]:
                    tot += ln
                    lines += 1
                else:
                    break
            ev.append(dict(ev='write', file=c['target'], lines=lines, partial=written[c['target']] > tot, bytes=n))
        elif s == 'close':
            ev.append(dict(ev='close', file=c['target']))
        elif s in ('rename', 'renameat', 'renameat2'):
            ev.append(dict(ev='rename'))
        elif s in ('unlink', 'unlinkat', 'ftruncate', 'truncate'):
            ev.append(dict(ev='unexpected-' + s, file=c['target']))
    return ev


def observe_file(path, free_names, points):
    """abstract state of a file on disk: (ex, pos, lines, partial)"""
    if not os.path.exists(path):
        return dict(ex=False, pos=0, lines=0, partial=False)
    data = open(path, 'rb').read().decode('utf-8', errors='replace')
    parts = data.split('\n')
    complete, tail = parts[:-1], parts[-1]
    vals = {}
    good = 0
    for i, ln in enumerate(complete):
        m = re.match(r'^(.*\S)\s*=\s*(\S+)\s*$', ln)
        if not m or i >= len(free_names) or m.group(1) != free_names[i]:
            break
        try:
            vals[m.group(1)] = float(m.group(2))
        except ValueError:
            break
        good += 1
    pos = 0
    if good == len(free_names) and len(complete) == len(free_names):
        for k, p in enumerate(points):
            if all(vals[nm] == p[nm] for nm in free_names):  # bit-for-bit after re-reading
                pos = k + 1
    return dict(ex=True, pos=pos, lines=good if good == len(complete) else 0, partial=bool(tail) or good != len(complete))


def content_lens(free_names, point):
    return [len(f'{nm} = {point[nm]}\n'.encode()) for nm in free_names]


def _to_trace(raw_events, tid, rank, finite, k, extra=()):
    evs = []
    for e in raw_events:
        if e['ev'] == 'evalmark':
            evs.append(dict(ev='eval', ll=rank[e['k'] - 1], fin=finite[e['k'] - 1]))
        elif e['ev'] == 'close':
            if evs and evs[-1]['ev'] in ('write', 'open'):
                evs.append(dict(ev='close'))
        elif e['ev'] == 'open':
            evs.append(dict(ev='open', file=e['file']))
        elif e['ev'] == 'write':
            evs.append(dict(ev='write', lines=e['lines'], partial=e['partial']))
        else:
            evs.append(dict(ev=e['ev']))
    return dict(tid=tid, events=evs + list(extra), k=k)


def run_dry(case):
    """The uninterrupted run of one evaluation sequence under strace."""
    names, points, tag = case['names'], case['points'], case['tag']
    base = tempfile.mkdtemp(prefix='vb-c15-', dir=os.environ.get('VERIF_SCRATCH', '/var/tmp'))
    try:
        shutil.copy('/repo/biogeme.toml', os.path.join(base, 'biogeme.toml'))
        spec, spec_path = make_spec(base, names, points, tag, case.get('scaled'))
        iter_name = f'__{spec["model"]}.iter'
        log = os.path.join(base, 'dry.log')
        rc, err = strace_run('run', spec_path, log)
        if rc != 0 or not os.path.exists(spec['out']):
            raise MachineryError(f'dry run failed rc={rc} {err}')
        outs = json.load(open(spec['out']))
        free = outs[0]['names']
        fvals = [float(o['f']) if 'f' in o else float('nan') for o in outs]
        finite = [v == v and abs(v) != float('inf') and o.get('gfinite', True) for v, o in zip(fvals, outs)]
        distinct = sorted({v for v, f in zip(fvals, finite) if f})
        rank = [distinct.index(v) + 1 if f else 1 for v, f in zip(fvals, finite)]
        calls = [dict(pid=c['pid'], sys=c['sys'], text=c['text'], target=c['target']) for c in parse_log(log, iter_name)]

        def lens(k):
            return content_lens(free, points[k - 1]) if 1 <= k <= len(points) else []

        dry = _to_trace(events_from(calls, lens), f'{tag}/dry', rank, finite, len(free))
        final = observe_file(os.path.join(base, iter_name), free, points)
        begin = next(i for i, c in enumerate(calls) if c['sys'] == 'mkdir' and '/vbmark/begin' in c['text'])
        targets = [i for i, c in enumerate(calls) if i > begin and (c['target'] is not None or (c['sys'] == 'mkdir' and '/vbmark/' in c['text']))]
        if case.get('max_crash') and len(targets) > case['max_crash']:
            step = len(targets) / case['max_crash']
            targets = sorted({targets[int(i * step)] for i in range(case['max_crash'])})
        # keep only what the kill runs need of the log: the calls up to the last target
        keep = calls[: (max(targets) + 1) if targets else 0]
        return dict(case=case, free=free, rank=rank, finite=finite, calls=keep, targets=targets, dry=dry,
                    note=dict(tag=tag, levels=rank, finite=finite, final_file=final, syscalls_on_file=sum(1 for c in calls if c['target'])))
    finally:
        shutil.rmtree(base, ignore_errors=True)


def run_kill(item):
    """The same run killed at the entry of system call number j of the dry run, then observed and restarted."""
    info, j = item
    case = info['case']
    names, points, tag = case['names'], case['points'], case['tag']
    calls, free, rank, finite = info['calls'], info['free'], info['rank'], info['finite']
    base = tempfile.mkdtemp(prefix='vb-c15k-', dir=os.environ.get('VERIF_SCRATCH', '/var/tmp'))
    try:
        shutil.copy('/repo/biogeme.toml', os.path.join(base, 'biogeme.toml'))
        spec, spec_path = make_spec(base, names, points, tag, case.get('scaled'))
        iter_name = f'__{spec["model"]}.iter'
        sysname = calls[j]['sys']
        when = sum(1 for c in calls[: j + 1] if c['sys'] == sysname and c['pid'] == calls[j]['pid'])
        clog = os.path.join(base, 'crash.log')
        strace_run('run', spec_path, clog, inject=(sysname, when))
        ccalls = parse_log(clog, iter_name)
        # machinery check: the killed run must have followed the dry run up to the kill
        pre = [(c['sys'], c['target']) for c in ccalls if c['target'] is not None or '/vbmark/' in c['text']]
        ref = [(c['sys'], c['target']) for c in calls[:j] if c['target'] is not None or '/vbmark/' in c['text']]
        if os.path.exists(spec['out']) or pre[: len(ref)] != ref or len(pre) > len(ref) + 1:
            return dict(skipped=f'{tag}@{j}: killed run did not follow the dry run')

        def lens(k):
            return content_lens(free, points[k - 1]) if 1 <= k <= len(points) else []

        raw = events_from(calls, lens, upto=j)
        obs_iter = observe_file(os.path.join(base, iter_name), free, points)
        obs_tmp = observe_file(os.path.join(base, iter_name + '.tmp'), free, points)
        rspec = dict(spec, out=os.path.join(base, 'restart.json'))
        rpath = os.path.join(base, 'rspec.json')
        json.dump(rspec, open(rpath, 'w'))
        p = subprocess.run(['/venv/bin/python', DRIVER, 'restart', rpath], env=ENV, capture_output=True, text=True, timeout=900)
        rec = json.load(open(rspec['out'])) if os.path.exists(rspec['out']) else dict(ok=False, error=f'restart died rc={p.returncode} {p.stderr[-300:]}')
        fromfile = False
        if rec.get('ok') and obs_iter['ex'] and obs_iter['pos']:
            want = [float(points[obs_iter['pos'] - 1][nm]).hex() for nm in rec['names']]
            fromfile = rec.get('start') == want
        extra = [dict(ev='crash'), dict(ev='observe', iter=obs_iter, tmp=dict(ex=obs_tmp['ex'], lines=obs_tmp['lines'], partial=obs_tmp['partial'])),
                 dict(ev='restart', ok=bool(rec.get('ok')), fromfile=fromfile)]
        tr = _to_trace(raw, f'{tag}/kill@{j}:{sysname}', rank, finite, len(free), extra)
        tr['restart_error'] = rec.get('error', '')
        return dict(trace=tr)
    finally:
        shutil.rmtree(base, ignore_errors=True)


def validate(traces, k):
    work = tlc.scratch_dir('vb-c15t-')
    try:
        path = os.path.join(work, 'traces.json')
        json.dump([dict(tid=t['tid'], events=t['events']) for t in traces], open(path, 'w'))
        cfg = f'''SPECIFICATION TraceSpec
CONSTANTS
 K = {k}
 Levels = {{1, 2, 3, 4, 5, 6}}
 MaxEvals = 50
 MaxRuns = 2
 Atomic = TRUE
 UpdateBest = TRUE
INVARIANT Progress
'''
        res = tlc.run('IterFileTrace', cfg, workers=1, env={'TRACE_FILE': path}, timeout=900)
        verdicts = {o['tid']: o['verdict'] for o in res.emitted if isinstance(o, dict) and 'tid' in o}
        return verdicts, res
    finally:
        shutil.rmtree(work, ignore_errors=True)


def sequences(quick, seed):
    """evaluation sequences as lists of (level 1..3, finite): the points realise them."""
    import random

    rng = random.Random(seed)
    base = [[(1, True), (3, True), (2, True)],                # the defect of the unchanged tree: -17, -8, -8.75
            [(2, True), (3, 'zero'), (1, True)],              # the best point has a coordinate that is exactly 0.0
            [(2, True), (3, 'nan-gradient'), (1, True)],      # finite value, NaN in the gradient of a parameter that is not the first
            [(1, True), (3, 'nan-gradient'), (2, True)],      # ... followed by a point that is the best among those with finite derivatives
            [(2, True), (2, True), (1, True), (3, True)],     # tie, worse, better
            [(2, False), (1, True), (3, False), (2, True)],   # non-finite first and in the middle
            # some evaluations ask for the value per observation (scaled=True): the best point is the best by the
            # log likelihood of the sample, whatever the scaling asked for
            [(2, True, 'scaled'), (2, True), (3, True, 'scaled'), (3, True)],
            [(1, True), (2, True, 'scaled'), (2, True), (1, True, 'scaled')]]
    allseq = [list(s) for n in (1, 2, 3) for s in itertools.product([(1, True), (2, True), (3, True), (2, False)], repeat=n)]
    rng.shuffle(allseq)
    extra = [[(e[0], e[1], 'scaled') if rng.random() < 0.3 else e for e in s] for s in allseq[: (2 if quick else 40)]]
    return base + extra


def realise(seq):
    """points (name -> float) whose log likelihoods are ordered like the levels"""
    names = ['b2', 'B10', 'a.mid']      # appearance order differs from the sorted order: B10 < a.mid < b2 < m_nan < zz_gate
    centers = CENTERS
    dist = {3: 0.5, 2: 1.5, 1: 2.75}
    used = {}
    pts = []
    for lvl, fin in [(e[0], e[1]) for e in seq]:
        n = used.get(lvl, 0)
        used[lvl] = n + 1
        sign = 1.0 if n % 2 == 0 else -1.0
        coord = (n // 2) % 3
        p = {nm: centers[i] for i, nm in enumerate(names)}
        p[names[coord]] = centers[coord] + sign * dist[lvl] + (n // 6) * 1e-9
        p['m_nan'] = 1.0
        if fin == 'zero':
            p = {nm: centers[i] for i, nm in enumerate(names)}
            p['b2'] = centers[0] - dist[3]          # exactly 0.0
            p['m_nan'] = 1.0
        if fin == 'nan-gradient':
            p['m_nan'] = 0.0
        p['zz_gate'] = 1.0 if fin else -1.0
        pts.append(p)
    return names, pts


def body(chk: check.Check):
    quick = chk.tier == 'quick'
    # (A) the design
    res = tlc.run('IterFile', model_cfg(True, True, 2, 3 if quick else 4, 2), workers='auto', timeout=2400)
    chk.add_tlc('IterFile: temp file + rename, best updated (the implementation variant)', res)
    for (a, u, name, inv) in ((True, False, 'best frozen at the first evaluation', 'FileBest'),
                              (False, True, 'rewritten in place', 'FileComplete'),
                              (False, False, 'in place and best frozen', 'FileComplete')):
        r = tlc.run('IterFile', model_cfg(a, u, 2, 3, 2), workers='auto', timeout=600)
        chk.add_tlc(f'IterFile variant: {name}', r, expect_ok=False)
        chk.control(f'TLC reports the variant "{name}"', r.violated is not None, f'violated={r.violated}')
    # (C) real executions under strace
    cases = []
    for n, seq in enumerate(sequences(quick, chk.seed)):
        names, pts = realise(seq)
        cases.append(dict(names=names, points=pts, tag=f's{n}', max_crash=None if not quick or n < 3 else 6,
                          scaled=[len(e) > 2 for e in seq]))
    # many parameters: the file is written by more than one system call (a partial file exists at a syscall boundary)
    big_names = [f'p{i:03d}' for i in range(340)]
    big_pts = []
    for lvl in ((2, 3) if quick else (2, 3, 1)):
        p = {nm: (0.1 + 0.2 if i % 2 == 0 else -1.0 / 3.0) for i, nm in enumerate(big_names)}
        p['p000'] += {1: 2.75, 2: 1.5, 3: 0.5}[lvl]
        p['zz_gate'] = 1.0
        big_pts.append(p)
    cases.append(dict(names=big_names, points=big_pts, tag='big', max_crash=10 if quick else None))
    chk.rule = ('evaluation sequences (improving, worsening, ties, non-finite; 3 named parameters needing the sorted order and 17 digits, and a '
                '340-parameter model whose file needs several writes) run for real under strace; one trace for the uninterrupted run and one '
                'per kill point (entry of every system call on the iteration files and of the following sentinel); distinct = distinct (sequence, kill point)')
    dries = par.pmap(run_dry, cases, chunk=1, timeout=3000, quiet=False)
    groups = {}
    skipped = 0
    items = []
    for case, (st, val) in zip(cases, dries):
        if st != 'ok':
            raise MachineryError(f'dry run of case {case["tag"]} failed: {val}')
        chk.sample(val['note'], limit=3)
        groups.setdefault(val['dry']['k'], []).append(val['dry'])
        items += [(val, j) for j in val['targets']]
    kills = par.pmap(run_kill, items, chunk=1, timeout=3000, quiet=False)
    for (info, j), (st, val) in zip(items, kills):
        if st != 'ok':
            raise MachineryError(f'kill run {info["case"]["tag"]}@{j} failed: {val}')
        if 'skipped' in val:
            skipped += 1
            continue
        groups.setdefault(val['trace']['k'], []).append(val['trace'])
    chk.extra['kill_points_skipped_not_reproducible'] = skipped
    all_traces = []
    for k, ts in groups.items():
        verdicts, res = validate(ts, k)
        chk.add_tlc(f'IterFileTrace: {len(ts)} traces with K={k}', res)
        for t in ts:
            all_traces.append(t)
            v = verdicts.get(t['tid'], 'not-consumed')
            chk.count(t['tid'], len(t['events']))
            if v == 'ok':
                chk.traces += 1
            else:
                chk.violation(f'trace:{v.split("@")[0]}', dict(trace=t['tid'], verdict=v, events=t['events'][-8:], restart_error=t.get('restart_error', '')),
                              match=dict(kind='trace', clause=v.split('@')[0]))
    kills = [t for t in all_traces if '/kill@' in t['tid']]
    chk.extra['kill_point_traces'] = len(kills)
    if all_traces:
        chk.sample(dict(trace=all_traces[0]['tid'], events=all_traces[0]['events'][:12]))
    if kills:
        chk.sample(dict(trace=kills[len(kills) // 2]['tid'], events=kills[len(kills) // 2]['events'][-6:]))
    # negative controls on recorded traces
    import copy

    ctl = []
    dry = next((t for t in all_traces if t['tid'].endswith('/dry') and any(e['ev'] == 'rename' for e in t['events'])), None)
    if dry:
        a = copy.deepcopy(dry)
        a['tid'] = 'ctl/drop-rename'
        idx = next(i for i, e in enumerate(a['events']) if e['ev'] == 'rename')
        del a['events'][idx]
        ctl.append(a)
        b = copy.deepcopy(dry)
        b['tid'] = 'ctl/open-in-place'
        for e in b['events']:
            if e['ev'] == 'open':
                e['file'] = 'iter'
        ctl.append(b)
    kl = next((t for t in kills if t['events'][-2]['iter']['ex']), None)
    if kl:
        c = copy.deepcopy(kl)
        c['tid'] = 'ctl/partial-file-after-crash'
        c['events'][-2]['iter']['lines'] = max(0, c['events'][-2]['iter']['lines'] - 1)
        c['events'][-2]['iter']['partial'] = True
        ctl.append(c)
        d = copy.deepcopy(kl)
        d['tid'] = 'ctl/restart-fails'
        d['events'][-1]['ok'] = False
        ctl.append(d)
    if ctl:
        verdicts, res = validate(ctl, ctl[0]['k'])
        for t in ctl:
            v = verdicts.get(t['tid'], 'not-consumed')
            chk.control(f'corrupted trace {t["tid"]}', v != 'ok', f'verdict={v}')
    chk.uncovered += ['power loss (no fsync is required by the property: a stopped PROCESS, not a stopped machine)',
                      'evaluations issued on bootstrap samples while save_iterations is on']
    chk.assumptions += ['strace fault injection kills the process at the entry of the k-th call of a system call; a killed run whose log does not follow the dry run is skipped and counted']


if __name__ == '__main__':
    check.main(PID, body)
