"""C10 -- simulated and numerical integrals equal the average / integral they denote.

PanelDraws.tla (non-panel mode): the Monte-Carlo operator returns per observation the mean over the R
draws of its argument with every named draw variable replaced by that observation's r-th draw of the
variable's OWN series (the series its declared type's generator produced), the draw table being
indexed [observation][draw][rank of the variable's name]; replayed with deterministic user-defined
generators into BIOGEME.simulate, calculate_likelihood, get_value_c and compared with the draw table
crossing the engine boundary.  Calculus.tla: Derive = the partial derivative with respect to the named
parameter or variable, Integrate = the integral over the real line (Gaussian moments), replayed into
get_value_c.  With a non-zero seed results with native draw types are reproducible.
"""

from __future__ import annotations

import math
import json
import sys

sys.path.insert(0, '/verif')

from vb import flagship, check, exprenv, exprreplay, paneldraws, par, rt, tlc
from vb.rt import close
from fractions import Fraction as F

PID = 'C10'


def calc_cfg():
    return '''SPECIFICATION Spec
CONSTANTS
 Coefs = {0, 1, 2, 3}
 Bs = {1, 2}
 Xs = {1, 3}
INVARIANT OddVanish
INVARIANT DerivLinear
INVARIANT EmitInv
'''


def replay_calc(case):
    import pandas as pd
    import biogeme.database as db
    import biogeme.expressions as ex

    out = []
    d = db.Database('calc', pd.DataFrame({'x': [float(case['x'])], 'z': [5.0]}))
    b = ex.Beta('b', float(case['b']), None, None, 0)
    x = ex.Variable('x')
    if case['kind'] == 'derive':
        f = case['a'] * b * b + case['c'] * b * x + case['d'] * x
        got_b = float(ex.Derive(f, 'b').get_value_c(database=d, prepare_ids=True)[0])
        f2 = case['a'] * ex.Beta('b', float(case['b']), None, None, 0) ** 2 + case['c'] * ex.Beta('b', float(case['b']), None, None, 0) * ex.Variable('x') + case['d'] * ex.Variable('x')
        got_x = float(ex.Derive(f2, 'x').get_value_c(database=d, prepare_ids=True)[0])
        if not close(got_b, case['db'], rel=1e-9):
            out.append(dict(what='Derive with respect to the parameter', got=got_b, want=case['db']))
        if not close(got_x, case['dx'], rel=1e-9):
            out.append(dict(what='Derive with respect to the variable', got=got_x, want=case['dx']))
        # a history: the SAME Derive object is evaluated alone, then embedded in a larger formula that brings parameters
        # and variables whose names sort before and after its own, then given to an estimation object next to other
        # formulas: it always denotes the derivative with respect to the element it NAMES
        import biogeme.biogeme as bio

        bb = ex.Beta('b', float(case['b']), None, None, 0)
        fx = case['a'] * bb * bb + case['c'] * bb * ex.Variable('x') + case['d'] * ex.Variable('x')
        dx_obj = ex.Derive(fx, 'x')
        db_obj = ex.Derive(fx, 'b')
        first = (float(dx_obj.get_value_c(database=d, prepare_ids=True)[0]), float(db_obj.get_value_c(database=d, prepare_ids=True)[0]))
        a0 = ex.Beta('a0', 2.0, None, None, 0)
        zz = ex.Beta('zz', 3.0, None, None, 0)
        bigger = a0 * dx_obj + zz * db_obj + ex.Variable('z')
        got_big = float(bigger.get_value_c(database=d, prepare_ids=True)[0])
        want_big = 2.0 * case['dx'] + 3.0 * case['db'] + 5.0
        sim = bio.BIOGEME(d, {'first': a0 + zz, 'dx': dx_obj, 'db': db_obj}).simulate({'a0': 2.0, 'zz': 3.0, 'b': float(case['b'])})
        if not close(first[0], case['dx'], rel=1e-9) or not close(first[1], case['db'], rel=1e-9):
            out.append(dict(what='Derive object evaluated alone', got=list(first), want=[case['dx'], case['db']]))
        if not close(got_big, want_big, rel=1e-9):
            out.append(dict(what='the same Derive objects embedded in a larger formula', got=got_big, want=want_big))
        if not close(float(sim['dx'][0]), case['dx'], rel=1e-9) or not close(float(sim['db'][0]), case['db'], rel=1e-9):
            out.append(dict(what='the same Derive objects simulated next to other formulas', got=[float(sim['dx'][0]), float(sim['db'][0])], want=[case['dx'], case['db']]))
        # next to draws: a draw variable whose series is constantly 1 is a constant factor, so the derivative below or
        # above the Monte-Carlo operator is the same derivative (the named element keeps its meaning when the formula
        # also contains draws)
        import numpy as np

        d.set_random_number_generators({'ONES': (lambda sample_size, number_of_draws: np.ones((sample_size, number_of_draws)), 'constant series')})
        for nm, want_ in (('x', case['dx']), ('b', case['db'])):
            b3 = ex.Beta('b', float(case['b']), None, None, 0)
            f3 = (case['a'] * b3 * b3 + case['c'] * b3 * ex.Variable('x') + case['d'] * ex.Variable('x')) * ex.bioDraws('one_draw', 'ONES')
            below = float(ex.MonteCarlo(ex.Derive(f3, nm)).get_value_c(database=d, number_of_draws=3, prepare_ids=True)[0])
            b4 = ex.Beta('b', float(case['b']), None, None, 0)
            f4 = (case['a'] * b4 * b4 + case['c'] * b4 * ex.Variable('x') + case['d'] * ex.Variable('x')) * ex.bioDraws('one_draw', 'ONES')
            above = float(ex.Derive(ex.MonteCarlo(f4), nm).get_value_c(database=d, number_of_draws=3, prepare_ids=True)[0])
            if not close(below, want_, rel=1e-9) or not close(above, want_, rel=1e-9):
                out.append(dict(what=f'Derive with respect to {nm} in a formula that also contains draws', got=[below, above], want=want_))
        return dict(mismatches=out, n=9)
    om = ex.RandomVariable('omega')
    p = case['p']
    poly = p[0] + p[1] * om + p[2] * om * om + p[3] * om * om * om + p[4] * om * om * om * om
    g = ex.exp(-(om * om) / 2) * poly * (b * x)
    got = float(ex.Integrate(g, 'omega').get_value_c(database=d, prepare_ids=True)[0])
    want = math.sqrt(2 * math.pi) * case['coef']
    if not close(got, want, rel=1e-6, abs_=1e-6):
        out.append(dict(what='Integrate over the real line', got=got, want=want))
    return dict(mismatches=out, n=1)


def replay_integrand(rec):
    """MonteCarlo(integrand) for an ExprLang DAG with draw leaves: value per observation = the spec's mean over draws"""
    import biogeme.expressions as ex
    from vb import boundary
    from vb.exprenv import Builder, beta_dict

    pool = exprreplay.POOL
    out = []
    n = 0
    want = exprreplay.expected_values(rec)
    for p in range(pool.npoints):
        if any(want[o][p] is None for o in range(pool.nrows)):
            continue
        e = ex.MonteCarlo(Builder(pool, rec['ops'], share=True).build(rec['root']))
        boundary.install()
        boundary.reset()
        got = e.get_value_c(database=exprreplay.DB, betas=beta_dict(pool, p), number_of_draws=pool.ndraws, prepare_ids=True)
        n += 1
        for o in range(pool.nrows):
            if not exprreplay.close(got[o], want[o][p]):
                out.append(dict(what='Monte-Carlo mean of the integrand', point=p, observation=o, got=float(got[o]), want=want[o][p]))
        table = [[[float(F(v[0], v[1])) for v in d] for d in obs] for obs in rec['table']]
        for c in boundary.LOG:
            if c['call'] == 'setDraws' and c['args'][0] != table:
                out.append(dict(what='draw table at the engine boundary', got=c['args'][0], want=table))
        boundary.reset()
    return dict(mismatches=out, n=n)


def replay_registry(h):
    """one history of DrawRegistry.tla on ONE Database object"""
    import numpy as np
    import pandas as pd
    import biogeme.database as db
    import biogeme.expressions as ex
    from biogeme.exceptions import BiogemeError

    xs = [1.0, 2.0, 3.0]
    d = db.Database('reg', pd.DataFrame({'x': xs}))

    def gen(code, lay='rows'):
        def g(sample_size, number_of_draws):
            t = np.array([[float(code + ((2 * u + r) % 5)) for r in range(number_of_draws)] for u in range(sample_size)])
            return t.T.copy() if lay == 'transposed' else t
        return g

    # the registry at the start: what the first steps imply (a type is registered before it is evaluated)
    first = {}
    for s_ in h['steps']:
        if s_['op'] == 'evaluate':
            first.setdefault(s_['type'], (s_['code'], s_['lay']))
        elif s_['op'] == 'evaluate2':
            first.setdefault(s_['type'], (s_['code'], 'rows'))
            first.setdefault(s_['type2'], (s_['code2'], 'rows'))
        else:
            first.setdefault(s_['type'], None)
    reg = {t: (c if c is not None else (0, 'rows')) for t, c in first.items()}
    d.set_random_number_generators({t: (gen(*c), f'series {c}') for t, c in reg.items()})
    out = []
    n = 0
    for k, s_ in enumerate(h['steps']):
        if s_['op'] == 'register':
            reg[s_['type']] = (s_['code'], s_['lay'])
            d.set_random_number_generators({t: (gen(*c), f'series {c}') for t, c in reg.items()})
            continue
        if s_['op'] == 'evaluate2':
            # the first type's generator hands back an array of INTEGERS, the second one halves (doubled in the formula)
            ta, tb = sorted([s_['type'], s_['type2']])
            for t_ in (ta, tb):
                reg.setdefault(t_, (s_['code'] if t_ == s_['type'] else s_['code2'], 'rows'))
            ga, gb = gen(reg[ta][0]), gen(reg[tb][0])
            d.set_random_number_generators({ta: (lambda n_, r_, g_=ga: g_(n_, r_).astype(int), 'integers'),
                                            tb: (lambda n_, r_, g_=gb: g_(n_, r_) / 2.0, 'halves')})
            f2 = ex.MonteCarlo((ex.bioDraws('za', ta) + 2 * ex.bioDraws('zb', tb)) * ex.Variable('x'))
            got = [float(v) for v in f2.get_value_c(database=d, number_of_draws=s_['R'], prepare_ids=True)]
            d.set_random_number_generators({t: (gen(*c), f'series {c}') for t, c in reg.items()})
            n += 1
            want = [w / s_['R'] for w in s_['want']]
            if any(abs(g - w) > 1e-12 * max(1.0, abs(w)) for g, w in zip(got, want)) or len(got) != len(want):
                out.append(dict(what='two draw variables, one with integer and one with fractional series', step=k, got=got, want=want))
                break
            continue
        f = ex.MonteCarlo(ex.bioDraws('z', s_['type']) * ex.Variable('x'))
        n += 1
        try:
            got = [float(v) for v in f.get_value_c(database=d, number_of_draws=s_['R'], prepare_ids=True)]
            refused = False
        except BiogemeError:
            got, refused = None, True
        if refused != s_['refused']:
            out.append(dict(what='a table handed back in the wrong layout ' + ('accepted' if s_['refused'] else 'refused although it is well laid out'), step=k,
                            got=got, history=[(t['op'], t['type'], t['code'], t['lay'], t['R']) for t in h['steps'][: k + 1]]))
            break
        if refused:
            continue
        want = [w / s_['R'] for w in s_['want']]
        if k % 2 == 0:
            # the same formula handed to an estimation object NEXT TO a formula without draws (listed after it)
            import biogeme.biogeme as bio
            bg = bio.BIOGEME(d, {'first': ex.MonteCarlo(ex.bioDraws('z', s_['type']) * ex.Variable('x')), 'second': 2 * ex.Variable('x')},
                             number_of_draws=s_['R'])
            sim = [float(v) for v in bg.simulate({})['first']]
            n += 1
            if any(not (abs(g - w) <= 1e-12 * max(1.0, abs(w))) for g, w in zip(sim, want)) or len(sim) != len(want):
                out.append(dict(what='Monte-Carlo formula simulated next to a formula without draws', step=k, got=sim, want=want))
                break
        if any(abs(g - w) > 1e-12 * max(1.0, abs(w)) for g, w in zip(got, want)) or len(got) != len(want):
            out.append(dict(what='Monte-Carlo mean after a change of the registered generator', step=k, got=got, want=want,
                            history=[(t['op'], t['type'], t['code'], t['lay'], t['R']) for t in h['steps'][: k + 1]]))
            break
    return dict(mismatches=out, n=n)


def reproducible(seed):
    """native draw types: the same non-zero seed gives the same values"""
    import pandas as pd
    import biogeme.biogeme as bio
    import biogeme.database as db
    import biogeme.expressions as ex

    vals = []
    for _ in range(2):
        d = db.Database('s', pd.DataFrame({'x': [1.0, 2.0, 3.0]}))
        f = ex.MonteCarlo(ex.bioDraws('u1', 'UNIFORM') * ex.Variable('x') + ex.bioDraws('n1', 'NORMAL_MLHS'))
        b = bio.BIOGEME(d, f, number_of_draws=7, seed=seed)
        vals.append([float(v) for v in b.simulate({})['log_like']])
    return vals


def body(chk: check.Check):
    rt.setup(chk.seed)
    quick = chk.tier == 'quick'
    max_len = 3 if quick else 5
    mod = paneldraws.module([7], max_len, [1, 2, 3] if quick else [1, 2, 3, 5], ['one', 'two', 'prod'], [False])
    res = tlc.run('PDGen', paneldraws.cfg(max_len), extra_modules={'PDGen': mod}, workers='auto', timeout=1800)
    chk.add_tlc(f'PanelDraws (no panel): tables of 1..{max_len} rows', res)
    recs = res.emitted
    res2 = tlc.run('Calculus', calc_cfg(), workers='auto', timeout=900)
    chk.add_tlc('Calculus: Derive and Integrate families', res2)
    cases = res2.emitted
    chk.rule = ('Monte-Carlo: tables of 1..N rows x numbers of draws x integrands with one or two draw variables of different types whose '
                'sorted order differs from their order of appearance; Derive: every (a, c, d, b, x) of the family; Integrate: every polynomial '
                'weight of degree <= 4 with small integer coefficients; distinct = distinct cases')
    results = par.pmap(paneldraws.replay, recs, chunk=10, timeout=900)
    for rec, (st, val) in zip(recs, results):
        key = ('mc', len(rec['ids']), rec['R'], rec['formula'])
        chk.replayed += 1
        if st != 'ok':
            chk.violation(f'replay:{st}', dict(case=key, error=val), match=dict(kind='exception'))
            continue
        chk.count(key, val['n'])
        if rec['formula'] == 'two':
            chk.sample(dict(rows=len(rec['ids']), R=rec['R'], formula=rec['formula'], expected_table=rec['table'], expected_values=rec['values']))
        for m in val['mismatches']:
            chk.violation('replay:' + m['what'][:50], dict(dict(rows=len(rec['ids']), R=rec['R'], formula=rec['formula']), **{k: v for k, v in m.items() if k not in ('ids', 'xs')}),
                          match=dict(kind='value'))
    # general integrands: ExprLang DAGs over draw leaves (every operator kind above the draws), Monte-Carlo at the root
    dpool = exprenv.pool_draws()
    salt = chk.seed % 9973
    ints = []
    for max_ops, thin in ([(1, (2,)), (2, (5, 7))] if quick else [(1, (1,)), (2, (2, 3)), (3, (12, 18, 24))]):
        r = tlc.run('MCExprGen', dpool.cfg(max_ops, ['SigSound', 'EmitInv'], salt=salt), extra_modules={'MCExprGen': dpool.module(thin=thin)}, workers='auto', timeout=2400)
        chk.add_tlc(f'ExprLang with draw leaves: {max_ops} operator(s), thin {thin}', r)
        nl = len(dpool.leaves)
        ints += [x for x in r.emitted if any(i in (4, 5) for i in exprenv.reach(x['ops'], x['root'], nl))]
    exprreplay.init(dpool)
    for rec, (st, val) in zip(ints, par.pmap(replay_integrand, ints, chunk=40, timeout=900)):
        desc = exprreplay.describe(rec)
        chk.replayed += 1
        if st != 'ok':
            chk.violation(f'integrand:{st}', dict(formula=desc, error=val), match=dict(kind='exception'))
            continue
        chk.count(('integrand', desc), val['n'])
        for m in val['mismatches']:
            chk.violation('integrand:' + m['what'][:40], {**dict(formula=desc, ops=rec['ops']), **m}, match=dict(kind='value', features=exprenv.features(rec['ops'], rec['root'], len(dpool.leaves))))
    chk.extra['general_integrands'] = len(ints)
    # the Monte-Carlo operator INSIDE a formula (log(MonteCarlo(..)) + x, MonteCarlo(..) * b, ...): the mean over the
    # draws of the observation, the same whatever is built above it
    mpool = exprenv.pool_mc()
    inside = []
    for max_ops, thin in ([(2, (2, 2))] if quick else [(2, (1, 1)), (3, (4, 6, 8))]):
        r = tlc.run('MCExprGen', mpool.cfg(max_ops, ['SigSound', 'EmitInv'], salt=salt), extra_modules={'MCExprGen': mpool.module(thin=thin)}, workers='auto', timeout=2400)
        chk.add_tlc(f'ExprLang with the Monte-Carlo operator inside: {max_ops} operator(s), thin {thin}', r)
        inside += r.emitted
    exprreplay.init(mpool)
    for rec, (st, val) in zip(inside, par.pmap(exprreplay.replay_values, inside, chunk=40, timeout=900)):
        desc = exprreplay.describe(rec)
        chk.replayed += 1
        if st != 'ok':
            chk.violation(f'inside:{st}', dict(formula=desc, error=val), match=dict(kind='exception'))
            continue
        chk.count(('inside', desc), val['n'])
        for m in val['mismatches']:
            chk.violation('inside:value', {**dict(formula=desc, ops=rec['ops']), **m}, match=dict(kind='value', features=exprenv.features(rec['ops'], rec['root'], len(mpool.leaves))))
    chk.extra['formulas_with_the_operator_inside'] = len(inside)
    # mixed-logit formulas on cross-sectional data (6-14 operators), proposed from outside, valued by the specification
    fpool = flagship.pool_cross()
    props = flagship.proposals(chk.seed + 10, 20 if quick else 120, False)
    fres = tlc.run('MCExprGen', fpool.cfg(0, ['EmitInv']), extra_modules={'MCExprGen': fpool.module(start=props)}, workers='auto', timeout=1800)
    chk.add_tlc(f'ExprLang: {len(props)} proposed mixed-logit formulas on cross-sectional data', fres)
    if len(fres.emitted) < len(props) // 2:
        raise tlc.MachineryError(f'only {len(fres.emitted)} of {len(props)} proposed formulas were accepted by the specification')
    exprreplay.init(fpool)
    for rec, (st, val) in zip(fres.emitted, par.pmap(exprreplay.replay_values, fres.emitted, chunk=2, timeout=900)):
        desc = exprreplay.describe(rec)
        chk.replayed += 1
        if st != 'ok':
            chk.violation(f'mixed:{st}', dict(formula=desc, error=val), match=dict(kind='exception'))
            continue
        chk.count(('mixed', desc), val['n'])
        for m in val['mismatches']:
            chk.violation('mixed:value', {**dict(formula=desc), **m}, match=dict(kind='value', features=[]))
    chk.extra['mixed_logit_formulas'] = len(fres.emitted)
    # histories on one data set: the generator of a type is replaced between evaluations
    rcfg = ('SPECIFICATION Spec\nCONSTANTS\n Types = {"TA", "TB"}\n Codes = {1, 7}\n Layouts = {"rows", "transposed"}\n Rs = {2, 3}\n XVals <- G_X\n MaxSteps = %d\n'
            'INVARIANT Memoryless\nINVARIANT EmitInv\n' % (4 if quick else 5))
    rres = tlc.run('RegGen', rcfg, extra_modules={'RegGen': '---- MODULE RegGen ----\nEXTENDS DrawRegistry\nG_X == <<1, 2, 3>>\n====\n'}, workers='auto', timeout=900)
    chk.add_tlc('DrawRegistry: histories of registrations and evaluations on one data set', rres)
    hs = [h for h in rres.emitted if isinstance(h, dict) and 'steps' in h]
    if not hs:
        raise tlc.MachineryError('DrawRegistry emitted no history')
    chk.extra['registry_histories_generated'] = len(hs)
    cap = 2500 if quick else 12000
    if len(hs) > cap:      # a regular sample of the histories
        hs = hs[:: -(-len(hs) // cap)]
    for h, (st, val) in zip(hs, par.pmap(replay_registry, hs, chunk=25, timeout=900)):
        chk.replayed += 1
        if st != 'ok':
            chk.violation(f'registry:{st}', dict(history=h['steps'], error=val), match=dict(kind='exception'))
            continue
        chk.count(('registry', json.dumps(h['steps'], sort_keys=True)), val['n'])
        for m in val['mismatches']:
            chk.violation('registry:' + m['what'][:50], m, match=dict(kind='value', family='registry'))
    chk.extra['registry_histories'] = len(hs)
    results = par.pmap(replay_calc, cases, chunk=25, timeout=900)
    for case, (st, val) in zip(cases, results):
        chk.replayed += 1
        if st != 'ok':
            chk.violation(f'calculus:{st}', dict(case=case, error=val), match=dict(kind='exception'))
            continue
        chk.count(str(case), val['n'])
        for m in val['mismatches']:
            chk.violation('calculus:' + m['what'][:50], {**dict(case=case), **m}, match=dict(kind='value', family=case['kind']))
    for seed in (chk.seed % 100000 + 1, 12345):
        st, val = rt.forked(reproducible, seed)
        chk.evaluations += 1
        if st != 'ok':
            chk.violation('seed:exception', dict(seed=seed, error=val), match=dict(kind='exception'))
        elif val[0] != val[1]:
            chk.violation('seed:not reproducible', dict(seed=seed, first=val[0], second=val[1]), match=dict(kind='seed'))
    # negative controls
    import copy

    base = next(r for r in recs if r['formula'] == 'two' and len(r['ids']) >= 2 and r['R'] >= 2)
    mut = copy.deepcopy(base)
    mut['table'][0][0], mut['table'][0][1] = base['table'][0][1], base['table'][0][0]
    st, val = rt.forked(paneldraws.replay, mut)
    chk.control('expected draw table with two draws of one observation exchanged', st != 'ok' or any('setDraws' in m['what'] for m in val['mismatches']))
    mut = copy.deepcopy(base)
    mut['values'][0] = [base['values'][0][0] + 1, base['values'][0][1]]
    st, val = rt.forked(paneldraws.replay, mut)
    chk.control('expected Monte-Carlo mean off by 1/R', st != 'ok' or bool(val['mismatches']))
    c = next(c for c in cases if c['kind'] == 'integrate' and c['p'][4] == 1)
    mut = dict(c, coef=c['coef'] - 2 * c['b'] * c['x'])
    st, val = rt.forked(replay_calc, mut)
    chk.control('fourth Gaussian moment taken as 1 instead of 3 in the expectation', st != 'ok' or bool(val['mismatches']))
    chk.uncovered += ['quadrature accuracy of Integrate beyond 1e-6 (numeric clause; integrands are polynomial x Gaussian)',
                      'statistical quality of the native generators (C11)']
    chk.assumptions += ['deterministic user-defined generators; integer arithmetic makes the expected means exact']


if __name__ == '__main__':
    check.main(PID, body)
