"""C19 -- sampled choice sets follow the protocol; complete sampling gives the full model.

(A) TLC checks Sampling itself (all ordered partitions of a small table into 1..3 strata, all
    admissible sample sizes, every choice, every sampling and order): TypeOK, PickedOK, Accepted
    (every behaviour passes the protocol clauses), Protocol (the property's sentence written out),
    FullEquiv (complete sampling: corrected logit on the sample = logit on the full choice set, exact
    rationals), AcceptanceIsMembership (a candidate row passes the clauses IFF the actions can produce it).
(B) code -> spec (main direction, the real sampling is random): ChoiceSetsGeneration.sample_and_merge
    on all small instances and on random larger ones, several seeds each; every row of the returned
    table is recorded and judged by SamplingTrace.tla (TLC infers the draw).  For every accepted row
    TLC returns the exact corrected logit weights of that sample; GenerateModel.get_logit() evaluated
    on the row must give ln(chosen/total) (1e-9).
(C) spec -> code (deterministic case): the completely sampled instances emitted by TLC with the exact
    likelihoods (V = ln w, so P is rational; nested and cross-nested logit through an uninterpreted
    `pow`) are replayed: get_logit / get_nested_logit / get_cross_nested_logit on the sampled table,
    BIOGEME's likelihood, and the ordinary loglogit / lognested / logcnl on the full choice set must
    all equal the spec's value (1e-9).  The names of the nests are not part of the model
    (NamesNotInModel): every nest structure is replayed under the labellings the spec emits (nobody
    named, all the same name, first nest called like the default name of the second, distinct user
    names, last nest called like the default name of the first) and must give the SAME value (a
    refusal by BiogemeError is admissible only where the user gave two nests the same name).
(D) inputs: raw contexts (valid and singly mutated) with the reaction of the real code are judged
    by the spec's InputClauses (accepting an input the documentation says is refused = violation).
"""

from __future__ import annotations

import concurrent.futures
import copy
import itertools
import math
import random
import sys
import time

sys.path.insert(0, '/verif')

from vb import check, par, rt, sampling as sp
from vb.tlc import MachineryError

PID = 'C19'


def body(chk: check.Check):
    rt.setup(chk.seed)
    quick = chk.tier == 'quick'
    rng = random.Random(chk.seed)
    chk.rule = ('a behaviour = the generation of the choice set of one individual (SampleStratum per stratum, Assemble, '
                'SecondSample); traces = rows of the table returned by the real sample_and_merge, judged by SamplingTrace '
                '(plus raw inputs with the reaction of the real code); replayed = completely sampled instances emitted by '
                'TLC with exact likelihoods; evaluations = judged rows + compared likelihood values')

    phases = {}
    t0 = time.time()

    def lap(name):
        nonlocal t0
        phases[name] = round(time.time() - t0, 1)
        t0 = time.time()

    chk.extra['phase_seconds'] = phases
    # ------------------------------------------------------------------ (A) the model
    if quick:
        runs = [('lemma', 3, 2, 'any', (2,), False), ('main', 4, 3, 'any', (2,), False), ('main', 5, 3, 'blocks', (2,), False),
                ('mev', 5, 1, 'blocks', (2,), False), ('full', 4, 3, 'sorted', (2, 5), True), ('full', 5, 2, 'sorted', (2, 5), True)]
    else:
        runs = [('lemma', 4, 2, 'any', (2,), False), ('main', 5, 3, 'any', (2,), False), ('main', 6, 3, 'blocks', (2,), False),
                ('mev', 6, 1, 'blocks', (2,), False), ('full', 5, 3, 'sorted', (2, 5), True), ('full', 6, 2, 'sorted', (2, 5), True),
                ('full', 7, 1, 'sorted', (2, 5, 3), True)]

    def one(r):
        mode, n, maxs, order, xs, emit = r
        return sp.run_model(mode, n, maxs, order, xs=xs, emit=emit, workers=3 if quick else 6, timeout=1500)

    with concurrent.futures.ThreadPoolExecutor(max_workers=len(runs)) as ex:
        futures = [ex.submit(one, r) for r in runs]
        # the recording of the real code runs while TLC explores the model
        recorded = record_traces(chk, rng, quick)
        results = [f.result() for f in futures]
    emitted = []
    for r, res in zip(runs, results):
        chk.add_tlc(f'Sampling mode={r[0]} alternatives={r[1]} strata<={r[2]} order={r[3]}', res)
        if r[5]:
            emitted += res.emitted
    if not emitted:
        raise MachineryError('TLC emitted no completely sampled instance')

    lap('model runs + recording of the real code')
    # ------------------------------------------------------------------ (B) code -> spec
    judge_traces(chk, recorded)
    lap('trace validation')

    # ------------------------------------------------------------------ (D) inputs
    cases = sp.input_cases(rng, 20 if quick else 120, 6 if quick else 40)
    judge_inputs(chk, cases)
    lap('inputs')

    # ------------------------------------------------------------------ (C) spec -> code
    # quick: per nest structure and utility family the default labelling and ONE other (rotating); thorough: all
    items = [(rec, chk.seed + 13 * i, None, i if quick else 'all') for i, rec in enumerate(emitted)]
    res = par.pmap(sp.replay_full, items, chunk=4 if quick else 2)
    shown = False
    namings = {}
    for (rec, seed, _, _), (st, val) in zip(items, res):
        chk.replayed += 1
        shape = dict(strata=[len(s['sub']) for s in rec['strata']], hasmev=rec['hasmev'])
        if st != 'ok':
            chk.violation(f'full:{st}', dict(instance=_inst_of(rec), error=val), match=dict(clause='replay-exception', **shape))
            continue
        chk.count(('full', tuple(tuple(s['sub']) for s in rec['strata']), rec['hasmev']), val['n'])
        for k, (eq, refused) in val['namings'].items():
            t = namings.setdefault(k, dict(equal=0, refused_by_the_library=0))
            t['equal'] += eq
            t['refused_by_the_library'] += refused
        for key, detail, facts in val['problems']:
            chk.violation(key, detail, match=facts)
        if not shown and rec['hasmev'] and len(rec['strata']) == 2:
            shown = True
            from vb import terms

            chk.sample(dict(replayed_instance=_inst_of(rec), expected_logit_loglikelihood={f: terms.evf(rec['logit'][f]['ll']) for f in sp.FAMS},
                            expected_nested_loglikelihood=[{f: terms.evf(n['fams'][f]['ll']) for f in sp.FAMS} for n in rec['nested']],
                            first_nest_structure=rec['nested'][0]['nests'], compared_values=val['n'], mismatches=len(val['problems'])))

    chk.extra['nest_labellings'] = dict(sorted(namings.items()))
    for model in ('sampled-nested', 'full-nested', 'sampled-cnl', 'full-cnl'):
        for kind in sp.NAMING_KINDS:
            if f'{model}:{kind}' not in namings and not any(v['match'].get('clause') == model and v['match'].get('naming') == kind for v in chk.violations):
                raise MachineryError(f'no replay of {model} under the labelling {kind}')
    lap('replay of complete sampling')
    # ------------------------------------------------------------------ negative controls
    controls(chk, recorded, emitted)
    lap('negative controls')

    chk.uncovered += [
        'statistical quality of the draw (uniformity of pandas.DataFrame.sample over the k-subsets) is not part of the property; '
        'the evidence only reports how many of the admissible draws of the small instances were observed',
        'nested and cross-nested logit are replayed for complete sampling only: with a partial second sample the likelihood is an '
        'approximation without exact reference',
        'labellings of the nests: five per nest structure (the names "n", "nest_<k>", "zone_<k>"); '
        + ('in this tier every structure is replayed under the default labelling and ONE other (all five kinds are met over the instances)'
           if quick else 'every structure is replayed under all five'),
        'the allocation parameters (_CNL_ columns) of a cross-nested context are not judged in the row traces, only through the replayed likelihood',
        'tables larger than %d alternatives / more than 3 strata' % (8 if quick else 16),
    ]
    chk.assumptions += [
        'ids of the table of alternatives are unique integers (documented precondition of SamplingContext)',
        'the order of the non-chosen alternatives inside a row is free (only "chosen first" is documented); '
        'whether rows are laid out stratum after stratum is recorded as information (trace_statistics.rows_grouped_by_stratum)',
        f'a correction value v is read back as the reduced pair (k, n), n <= {sp.MAXDEN}, with |ln(k/n) - v| <= {sp.CORR_TOL:g}; '
        'a weight as the pair with |n/k - v| <= 1e-12 v; TLC compares the pairs with those of the alternative\'s stratum',
        'utilities V = ln(a) and V = ln(a (x + c)) so that all logit probabilities are rational; math.log / pow (libm) interpret the terms',
        'Partition raising ValueError (documented there) counts as a refusal by the library, like BiogemeError',
    ]


def _inst_of(rec):
    return dict(alts=rec['alts'], strata=rec['strata'], mev=rec['mev'], individuals=rec['inds'])


# --------------------------------------------------------------------------- recording
def small_instances(nmax):
    """All ordered partitions of the first n ids (n <= nmax) into 1..3 strata with all admissible sizes."""
    base = [(3, 1, 4), (7, 2, 9), (10, 3, 0), (12, 4, 5), (15, 5, 2)]
    for n in range(1, nmax + 1):
        alts = base[:n]
        ids = [a[0] for a in alts]
        for part in sp.ordered_partitions(ids, 3):
            for ks in sp.size_vectors(part):
                yield sp.make_instance(alts, list(zip(part, ks)))


def record_traces(chk, rng, quick):
    items = []
    smalls = list(small_instances(4 if quick else 5))
    reps = 2 if quick else 8
    for k, inst in enumerate(smalls):
        for r in range(reps):
            items.append((inst, chk.seed + 7919 * r + k, 'small', sp.VARIANTS[(k + r) % 4] if r == reps - 1 else 'plain'))
    # the same small tables with every MEV partition shape
    for n in (3, 4):
        alts = [(3, 1, 4), (7, 2, 9), (10, 3, 0), (12, 4, 5)][:n]
        ids = [a[0] for a in alts]
        for m in range(1, n + 1):
            for sub in itertools.combinations(ids, m):
                for part in sp.ordered_partitions(sub, 2):
                    for ks in sp.size_vectors(part):
                        inst = sp.make_instance(alts, [(ids, rng.randint(1, n))], list(zip(part, ks)))
                        for r in range(2 if quick else 4):
                            items.append((inst, chk.seed + 104729 * r + len(items), 'small-mev', 'plain'))
    nrand = 300 if quick else 3000
    for k in range(nrand):
        big = (not quick) and k % 5 == 0
        inst = sp.random_instance(rng, 2 if not big else 9, 8 if not big else 16, maxstrata=3 if quick else 5)
        for r in range(2 if quick else 3):
            items.append((inst, chk.seed + 15485863 * r + 31 * k, 'random', sp.VARIANTS[(k + r) % 4]))
    res = par.pmap(_record, items, chunk=25)
    return items, res


def _record(item):
    return sp.record_instance((item[0], item[1], item[3]))


def judge_traces(chk, recorded):
    items, res = recorded
    groups = []
    tid = 0
    meta = []
    for (inst, seed, family, variant), (st, val) in zip(items, res):
        if st != 'ok':
            chk.violation(f'record:{st}', dict(instance=inst, seed=seed, variant=variant, error=val),
                          match=dict(clause='record-exception', exception=val[0] if st == 'exc' else 'died'))
            continue
        g = [val['inst']] + val['rows']
        for e in g:
            tid += 1
            e['tid'] = tid
        groups.append(g)
        meta.append((inst, seed, family, val))
        if val['note']:
            chk.violation('trace:recycled-differs', dict(instance=inst, seed=seed), match=dict(clause='recycled-differs'))
    verdicts, results = sp.validate(groups, parts=8 if len(groups) < 2000 else 16)
    for k, r in enumerate(results):
        chk.add_tlc(f'SamplingTrace file {k + 1}/{len(results)}', r)
    stats = dict(contexts=len(meta), contexts_by_variant={v: sum(1 for m in meta if m[3]['variant'] == v) for v in sp.VARIANTS}, rows=0, rows_with_second_sample=0, positions=0, rows_grouped_by_stratum=0,
                 logit_values_compared=0, largest_table=0)
    seen_draws = {}
    possible = {}
    shown = 0
    for inst, seed, family, val in meta:
        v0 = verdicts.get(val['inst']['tid'])
        if v0 is None:
            raise MachineryError(f"no verdict for instance event {val['inst']['tid']}")
        if v0['verdict'] != 'ok':
            raise MachineryError(f'the driver generated an instance the spec calls invalid: {inst}')
        chk.traces += 1
        stats['largest_table'] = max(stats['largest_table'], len(inst['alts']))
        ikey = (tuple(map(tuple, inst['alts'])), tuple((tuple(s['sub']), s['k']) for s in inst['strata']),
                tuple((tuple(s['sub']), s['k']) for s in inst['mev']))
        for r, ev in enumerate(val['rows']):
            v = verdicts.get(ev['tid'])
            if v is None:
                raise MachineryError(f"no verdict for row event {ev['tid']}")
            stats['rows'] += 1
            stats['positions'] += len(ev['row']) + len(ev.get('mrow', []))
            stats['rows_with_second_sample'] += 1 if ev['hasm'] else 0
            stats['rows_grouped_by_stratum'] += 1 if v.get('grouped') else 0
            chk.count(('row', ikey, ev['choice']))
            facts = dict(strata=[len(s['sub']) for s in inst['strata']], sizes=[s['k'] for s in inst['strata']], hasmev=inst['hasmev'])
            if not sp.row_ok(v):
                clauses = v['fails'] or ['not-a-draw']
                for clause in clauses:
                    chk.violation(f'trace:{clause}', dict(instance=inst, seed=seed, variant=val['variant'], individual=[ev['choice'], ev['x']], row=ev['row'],
                                                          second_sample=ev.get('mrow'), verdict=v),
                                  match=dict(clause=clause, **facts))
                continue
            if family.startswith('small'):
                draw = (tuple(sorted(e['id'] for e in ev['row'])), tuple(sorted(e['id'] for e in ev.get('mrow', []))))
                seen_draws.setdefault((ikey, ev['choice']), set()).add(draw)
                possible[(ikey, ev['choice'])] = sp.n_draws(inst, ev['choice'])
            for fam in sp.FAMS:
                want = sp.spec_logprob(v, fam)
                got = val['lik'][fam][r]
                stats['logit_values_compared'] += 1
                chk.count(None)
                if not sp._close(got, want):
                    chk.violation('trace:sampled-logit', dict(instance=inst, seed=seed, individual=[ev['choice'], ev['x']], fam=fam,
                                                              row_ids=[e['id'] for e in ev['row']], got=got, expected=want,
                                                              exact_terms=v['lik'][fam]),
                                  match=dict(clause='sampled-logit-on-sample', fam=fam, **facts))
            if shown < 2 and ev['hasm'] and len(inst['strata']) >= 2 and len(ev['row']) >= 3:
                shown += 1
                chk.sample(dict(trace='row of sample_and_merge', seed=seed, strata=inst['strata'], mev=inst['mev'],
                                individual=[ev['choice'], ev['x']],
                                row=[dict(id=e['id'], k_n=e['corr'], hex=e['corrhex'], prod=e['prod'][0]) for e in ev['row']],
                                second=[dict(id=e['id'], n_k=e['w'], hex=e['whex']) for e in ev['mrow']],
                                verdict=v['verdict'], spec_logit_terms=v['lik'], get_logit=[val['lik'][f][r] for f in sp.FAMS]))
    stats['small_instance_draws_possible'] = sum(possible.values())
    stats['small_instance_draws_observed'] = sum(len(s) for s in seen_draws.values())
    chk.extra['trace_statistics'] = stats


def judge_inputs(chk, cases):
    res = par.pmap(sp.run_input_case, cases, chunk=10)
    evs = []
    for k, (c, (st, val)) in enumerate(zip(cases, res)):
        if st != 'ok':
            val = ('crashed', st, str(val)[:200])
        e = sp.input_event(c, val)
        e['tid'] = k + 1
        evs.append(e)
    verdicts, results = sp.validate([[e] for e in evs], parts=2)
    for k, r in enumerate(results):
        chk.add_tlc(f'SamplingTrace inputs file {k + 1}/{len(results)}', r)
    tally = {}
    for e in evs:
        v = verdicts.get(e['tid'])
        if v is None:
            raise MachineryError(f"no verdict for input event {e['tid']}")
        chk.traces += 1
        chk.count(('input', e['label']))
        key = f"{e['label']}: {e['outcome']}{(' ' + e['exc']) if e['exc'] else ''} -> {v['verdict']}"
        tally[key] = tally.get(key, 0) + 1
        if v['verdict'] != 'ok':
            chk.violation(f"input:{v['verdict']}", dict(case=e['label'], ids=e['ids'][1:], segments=[s[1:] for s in e['segs'][1:]],
                                                        sizes=e['ks'][1:], choices=e['choices'][1:], outcome=e['outcome'],
                                                        exception=e['exc'], message=e['msg'], spec_clause=v['clause']),
                          match=dict(clause='input', verdict=v['verdict'], spec_clause=v['clause']))
    chk.extra['input_reactions'] = tally


# --------------------------------------------------------------------------- controls
def controls(chk, recorded, emitted):
    items, res = recorded
    # (1) model level: mutated samplers / corrections / likelihood must violate the invariants
    kinds = (('k-besides-chosen', 'Protocol'), ('first-stratum-correction', 'Protocol'),
             ('equivalence-claimed-for-partial-sampling', 'FullEquiv'))
    with concurrent.futures.ThreadPoolExecutor(max_workers=3) as ex:
        mres = list(ex.map(lambda k: sp.run_mutant_model(k[0]), kinds))
    for (kind, inv), r in zip(kinds, mres):
        chk.control(f'spec mutant: {kind}', r.violated == inv, f'TLC: {r.violated or (r.error or "")[:200]}')

    # (2) code -> spec: corruptions of recorded rows must be rejected with the right clause
    def pick(pred):
        for (inst, seed, fam, variant), (st, val) in zip(items, res):
            if st == 'ok' and pred(inst, val):
                return inst, val
        raise MachineryError('no recorded trace suitable for a control')

    inst, val = pick(lambda i, v: len(i['strata']) >= 2 and i['hasmev'] and min(s['k'] for s in i['strata']) >= 1
                     and len(v['rows'][0]['row']) >= 3 and len({tuple(e['corr']) for e in v['rows'][0]['row']}) >= 2
                     and len(v['rows'][0]['mrow']) >= 2 and any(s['k'] < len(s['sub']) for s in i['strata']) and any(s['k'] >= 2 for s in i['strata'])
                     and any(a[2] != b[2] for a in i['alts'] for b in i['alts']))
    base = val['rows'][0]
    evs = [copy.deepcopy(val['inst'])]
    want = {}

    def add(ev, clause, label):
        ev['tid'] = len(evs) + 1
        evs.append(ev)
        want[ev['tid']] = (clause, label)

    evs[0]['tid'] = 1
    add(copy.deepcopy(base), 'ok', 'unmodified recorded row (must be accepted)')
    e = copy.deepcopy(base)
    e['row'][0], e['row'][1] = e['row'][1], e['row'][0]
    add(e, 'chosen-first', 'chosen alternative moved to the second place')
    e = copy.deepcopy(base)
    e['row'][-1] = copy.deepcopy(e['row'][1])
    add(e, 'duplicate', 'one alternative listed twice')
    e = copy.deepcopy(base)
    j = next(j for j, x in enumerate(e['row']) if x['corr'] != [1, 1]) if any(x['corr'] != [1, 1] for x in e['row']) else 0
    k, n = e['row'][j]['corr']
    e['row'][j]['corr'] = [k + 1, n + 1] if (k + 1, n + 1) != (k, n) else [1, 2]
    add(e, 'correction', 'k changed in one correction term')
    e = copy.deepcopy(base)
    e['row'][1]['corr'] = [0, 0]
    add(e, 'correction', 'one correction value that is no ln(k/n)')
    e = copy.deepcopy(base)
    del e['row'][-1]
    add(e, 'stratum-count', 'one sampled alternative dropped')
    e = copy.deepcopy(base)
    out = next(a for a in inst['alts'] if a[0] not in {x['id'] for x in e['row']})
    src = next(s for s in inst['strata'] if out[0] in s['sub'])
    tgt = next((j for j, x in enumerate(e['row']) if j > 0 and x['id'] not in src['sub']), None)
    if tgt is not None:
        # an alternative of ANOTHER stratum in place of a sampled one (with its own attributes and the slot's correction)
        e['row'][tgt].update(id=out[0], a=[out[1], 1], c=[out[2], 1], prod=[e['x'] * out[2], 1], diff=[e['x'] - out[2], 1], sum=[e['x'] + out[2], 1])
        add(e, 'stratum-count', 'a sampled alternative replaced by one of another stratum')
    e = copy.deepcopy(base)
    j, other = next((j, a) for j, x in enumerate(e['row']) for a in inst['alts'] if [a[2], 1] != x['c'])
    e['row'][j]['prod'] = [e['x'] * other[2], 1]
    add(e, 'combined', "a combined variable computed from another alternative's attribute")
    e = copy.deepcopy(base)
    e['row'][j]['c'] = [other[2], 1]
    add(e, 'attributes', "an attribute taken from another alternative")
    e = copy.deepcopy(base)
    n_, k_ = e['mrow'][0]['w']
    e['mrow'][0]['w'] = [n_ + 1, k_]
    add(e, 'mev-weight', 'one weight of the second sample changed')
    e = copy.deepcopy(base)
    e['mrow'][1] = copy.deepcopy(e['mrow'][0])
    add(e, 'mev-duplicate', 'one alternative twice in the second sample')
    e = copy.deepcopy(base)
    e['ox'] = [e['x'] + 1, 1]
    add(e, 'individual', "the individual's own attribute altered")
    # a wrong sampler recorded with the real recorder: k alternatives besides the chosen one
    verdicts, results = sp.validate([evs], parts=1)
    for r in results:
        if r.error:
            raise MachineryError(f'TLC failed on the control trace: {r.error[:1500]}')
    for t, (clause, label) in want.items():
        v = verdicts.get(t)
        if clause == 'ok':
            chk.control(f'trace control: {label}', sp.row_ok(v), f"verdict {v and v['verdict']}")
        else:
            chk.control(f'trace control: {label}', v is not None and clause in v['fails'] and not sp.row_ok(v),
                        f"verdict {v and v['verdict']}, fails {v and v['fails']}")

    # (3) the likelihood comparison of a recorded row: the spec's value against a shifted one
    v = verdicts.get(2)
    got = val['lik']['a'][0]
    chk.control('likelihood control: get_logit value shifted by 1e-6 is reported, the recorded one is not',
                sp.row_ok(v) and sp._close(got, sp.spec_logprob(v, 'a')) and not sp._close(got + 1e-6, sp.spec_logprob(v, 'a')))

    # (4) wrong code recorded with the real recorder (patched in a forked child)
    wide = next(s for s in inst['strata'] if s['k'] >= 2)
    ind = next(i for i in inst['inds'] if i[0] in wide['sub'])
    st, out = rt.forked(_quiet, _record_wrong_sampler, inst, chk.seed, ind)
    if st != 'ok':
        raise MachineryError(f'control recording failed: {out}')
    g = [out['inst']] + out['rows']
    for t, e in enumerate(g):
        e['tid'] = t + 1
    verdicts, results = sp.validate([g], parts=1)
    fails = set()
    for e in out['rows']:
        fails |= set(verdicts[e['tid']]['fails'])
    chk.control('wrong code: sampler that does not remove the chosen alternative before drawing (recorded with the real recorder)',
                bool(fails & {'duplicate', 'stratum-count', 'length'}), f'fails {sorted(fails)}')

    # (5) spec -> code: an expected likelihood moved, and a corrupted generated table
    rec = next(r for r in emitted if r['hasmev'] and len(r['strata']) >= 2)
    mut = copy.deepcopy(rec)
    mut['logit']['a']['p'][0]['n'] += 1
    st, out = rt.forked(_quiet, sp.replay_full, (mut, chk.seed, None))
    chk.control('expected mutant: one expected probability of the full logit moved',
                st == 'ok' and any(k.startswith('full:sampled-logit') for k, _, _ in out['problems'])
                and any(k.startswith('full:full-logit') for k, _, _ in out['problems']))
    st, out = rt.forked(_quiet, sp.replay_full, (rec, chk.seed, 'halve-one-correction'))
    chk.control('corrupted table: ln(1/2) added to the correction of the chosen alternative in the generated table',
                st == 'ok' and any(k.startswith('full:sampled-logit') for k, _, _ in out['problems'])
                and not any(k.startswith('full:full-logit') for k, _, _ in out['problems']))
    st, out = rt.forked(_quiet, sp.replay_full, (rec, chk.seed, None))
    chk.control('unmodified replay of the same instance: no logit mismatch',
                st == 'ok' and not any(k.startswith(('full:sampled-logit', 'full:full-logit')) for k, _, _ in out['problems']))
    # (5b) names of nests: a get_nested_logit that files its sums under the NAME of the nest (patched in a forked child)
    rec2 = next(r for r in emitted if r['hasmev'] and len(r['strata']) >= 2 and min(len(s['sub']) for s in r['strata']) >= 2)
    st, out = rt.forked(_quiet, sp.replay_full, (rec2, chk.seed, 'name-keyed-nested', 'all'))
    st0, out0 = rt.forked(_quiet, sp.replay_full, (rec2, chk.seed, None, 'all'))
    hit = sorted({f.get('naming') for k, _, f in out['problems'] if k.startswith('full:sampled-nested')}) if st == 'ok' else None
    hit0 = sorted({f.get('naming') for k, _, f in out0['problems'] if k.startswith('full:sampled-nested')}) if st0 == 'ok' else None
    chk.control('wrong code: get_nested_logit filing the sums of a nest under its NAME is reported where all nests have the same name, not under the '
                'default or distinct names; the real get_nested_logit is reported under no labelling',
                st == 'ok' and st0 == 'ok' and 'same' in hit and 'default' not in hit and 'distinct' not in hit and hit0 == [],
                f'labellings reported: wrong code {hit}, real code {hit0}')
    mut = copy.deepcopy(rec2)
    for ns in mut['nested']:
        for nm in ns['namings']:
            nm['may_refuse'] = True
    st, out = rt.forked(_quiet, _refusing, (mut, chk.seed, None, 'all'))
    st0, out0 = rt.forked(_quiet, _refusing, (rec2, chk.seed, None, 'all'))
    # (structures of two nests and more: a single nest called "n" is no clash)
    ref = sorted({f.get('naming') for k, _, f in out0['problems'] if k == 'full:sampled-nested:exception' and len(f['names']) >= 2}) if st0 == 'ok' else None
    chk.control('wrong code: a library that refuses (BiogemeError) every labelling with a user-given name is reported for the distinct names and the '
                'name clashing with a default one, not where two nests were given the same name',
                st0 == 'ok' and 'distinct' in ref and 'default-clash' in ref and 'default-clash-reverse' in ref and 'same' not in ref and 'default' not in ref
                and st == 'ok' and not any(k == 'full:sampled-nested:exception' and f.get('naming') != 'default' for k, _, f in out['problems']),
                f'refusals reported under {ref}')

    # (6) input judgement: the spec must call a valid input valid and name the clause of an invalid one
    evs = [sp.input_event(('valid', [1, 2, 3], [[1, 2], [3]], [1, 1], [1]), ('rejected', 'BiogemeError', '')),
           sp.input_event(('size-zero', [1, 2, 3], [[1, 2], [3]], [0, 1], [1]), ('accepted', '', '')),
           sp.input_event(('valid', [1, 2, 3], [[1, 2], [3]], [1, 1], [1]), ('crashed', 'KeyError', '')),
           sp.input_event(('valid', [1, 2, 3], [[1, 2], [3]], [2, 1], [3]), ('accepted', '', ''))]
    for t, e in enumerate(evs):
        e['tid'] = t + 1
    verdicts, _ = sp.validate([[e] for e in evs], parts=1)
    got = [verdicts.get(t + 1, {}).get('verdict') for t in range(4)]
    chk.control('input control: refused valid input / accepted size 0 / crash / accepted valid input',
                got == ['rejected-valid', 'accepted-invalid', 'crashed', 'ok'], f'verdicts {got}')

    # (7) the known-finding matchers must not swallow other violations
    for fnd in chk.findings:
        if fnd.get('status', 'open') != 'open':
            continue
        m = fnd['match']
        other = dict(m)
        other['clause'] = 'sampled-logit'
        chk.control(f"known-finding matcher {fnd['id']}: a violation of another clause is not matched",
                    not check._matches(m, other))


def _quiet(fn, *args):
    import os

    dn = os.open(os.devnull, os.O_WRONLY)
    os.dup2(dn, 2)
    return fn(*args)


def _refusing(item):
    """The real replay with a get_nested_logit that refuses every nest carrying a user-given name."""
    from biogeme.exceptions import BiogemeError
    from biogeme.sampling_of_alternatives import GenerateModel

    real = GenerateModel.get_nested_logit

    def refusing(self, nests):
        if any(not (nest.name or '').startswith('nest_') or nest.name == 'nest_2' and k == 0 or nest.name == 'nest_1' and k > 0
               for k, nest in enumerate(nests)):
            raise BiogemeError('named nests are refused')
        return real(self, nests)

    GenerateModel.get_nested_logit = refusing
    return sp.replay_full(item)


def _record_wrong_sampler(inst, seed, ind):
    """The real pipeline with a sampler that forgets to discard the chosen alternative before drawing."""
    import pandas as pd
    from biogeme.sampling_of_alternatives import sampling_of_alternatives as soa

    def wrong(self, chosen):
        chosen_alternative = self.alternatives[self.alternatives[self.id_column] == chosen].copy()
        out = []
        import numpy as np

        for stratum in self.partition:
            logproba = np.log(stratum.sample_size) - np.log(len(stratum.subset))
            k = stratum.sample_size
            if chosen in stratum.subset:
                k -= 1
                chosen_alternative[soa.LOG_PROBA_COL] = logproba
            subset = self.alternatives[self.alternatives[self.id_column].isin(stratum.subset)]
            sample = subset.sample(n=k, replace=False, axis='index', ignore_index=True)
            sample[soa.LOG_PROBA_COL] = logproba
            out.append(sample)
        return pd.concat([chosen_alternative] + out, ignore_index=True)

    soa.SamplingOfAlternatives.sample_alternatives = wrong
    # many individuals with the same choice: the chosen alternative is drawn again with high probability
    big = dict(inst, inds=[ind] * 60)
    return sp.record_instance((big, seed))


if __name__ == '__main__':
    check.main(PID, body)
