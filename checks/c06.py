"""C06 -- the model family is consistent: special cases and generating functions agree.

Shares specs/ChoiceModels.tla and its TLC runs with C05 (families nl, cnl).  On the model TLC
checks, exactly wherever the values are rational: the nested logit whose nest parameters are all
one IS the logit, the cross-nested logit whose allocations are 0/1 IS the nested logit with the
same nests (ReduceToSimpler), scale one IS the formula without scale (ScaleOne), G is homogeneous
of degree mu (Euler: sum y_i G_i = mu G), G_i is the partial derivative of G (DerivativeExact:
exact central difference where G is a polynomial of degree <= 2), and the probabilities obtained
from G and G_i are the closed forms (MevTheorem, Decomposition).  Every case is printed with its
probabilities, the model it reduces to, G and dG/dy_i.

The driver replays every structure into biogeme.models and compares, code against code and
against the specification: nested(mu_m = 1) = logit, cnl(0/1 allocations) = nested, cnlmu = nested_mev_mu,
explicit scale one = no scale, legacy tuple syntax = nest objects (and zero allocations written
or left out); and for the nested logit the published generating function
get_mev_generating_for_nested (value, and its gradient with respect to y_i computed by the
engine with V_i = ln y_i, y_i free parameters) against the published terms get_mev_for_nested /
get_mev_for_nested_mu (exp of the term = dG/dy_i of the specification = engine gradient of G).

The names of the nest objects are not part of a model (invariant NamesIrrelevant over the constant Namings:
all unnamed, all with the same name, the first named like the default name of the second, distinct names):
nest objects under the other namings must give what the legacy tuples (which carry no names) give, and the
generating function and its terms are built from nest objects named by each naming in rotation.  Every
structure keeps ONE nests object per way of writing it for all the model functions, and the models are built
a second time from the same dictionaries modified in place (the values of the new arguments are required).
"""

from __future__ import annotations

import functools
import sys

sys.path.insert(0, '/verif')

from vb import check, choicemodels as cm, par, rt

PID = 'C06'


def body(chk: check.Check):
    rt.setup(chk.seed)
    cm.preload()
    emitted = cm.run_models(chk, chk.tier, kinds=('nl', 'cnl'), skip=('session',))
    chk.rule = ('cases emitted by TLC from ChoiceModels.tla (families nl, cnl); a case = one nest structure x parameters x one observation; '
                'each structure is evaluated through every way of writing it (nest objects, legacy tuples, explicit zero allocations, '
                'with and without explicit scale) and through the simpler model it reduces to; distinct = distinct cases')
    samples: dict = {}
    stats = {}
    for name, recs in emitted.items():
        for r in recs:
            chk.distinct.add((cm.struct_key(r), repr(r['a']), repr(r['av'])))
        items = cm.groups(recs)
        results = par.pmap(functools.partial(cm.c06_group, plan=chk.tier), items, chunk=max(4, len(items) // 64), timeout=900)
        stats[name] = cm.report(chk, name, items, results, samples)
        stats[name]['reducing_cases'] = dict(
            logit=sum(1 for r in recs if r['red'] == 'logit'), nl=sum(1 for r in recs if r['red'] == 'nl'),
            scale_one=sum(1 for r in recs if r['mu'] == [1, 1]))
        if name == 'nl':
            stats[name]['cases_with_alternatives_alone'] = sum(1 for r in recs if any(all(x == [0, 1] for x in row) for row in r['alpha']))
    chk.extra['families'] = stats
    for name in emitted:
        if name in samples:
            chk.sample(samples[name], limit=6)

    # ------------------------------------------------------------------ negative controls
    small = next(r for r in cm.runs('quick') if r['name'] == 'nl')
    small = dict(small, consts=dict(small['consts'], LabelSeqs=[cm.L3], AVecs=[(1, 2, 2), (3, 4, 1)]))
    # (1) a generating function whose alone term forgets the scale: not homogeneous of degree mu, derivative wrong
    two = dict(small, consts=dict(small['consts'], NlMuPairs=[('2', '3/2')], TopMus=('1',)))
    mutants = cm.together({     # the TLC runs of the controls, at the same time
        'alone-unscaled': lambda: cm.run_mutant(small, 'alone-unscaled', ['Euler', 'DerivativeExact']),
        'names-matter': lambda: cm.run_mutant(two, 'names-matter', ['NamesIrrelevant'])})
    res = mutants['alone-unscaled']
    chk.control('ChoiceModels with Mutation = alone-unscaled: TLC must report Euler or DerivativeExact',
                res.violated in ('Euler', 'DerivativeExact'), f'violated={res.violated}')
    groups = cm.groups(emitted['nl'])
    with_alone = next(g for g in groups if len(g[0]['labels']) == 4 and g[0]['mu'] == [1, 1] and
                      'alone' in cm.facts_of(g[0], '', '')['features'] and 'no-nest' not in cm.facts_of(g[0], '', '')['features'])
    # (2) the defect of the unrepaired generating function, rebuilt here
    st, val = rt.forked(cm.c06_group, with_alone, generating=cm.buggy_generating, parts=('generating',))
    chk.control('get_mev_generating_for_nested replaced by a version adding V_i (not exp V_i) for alternatives alone',
                st == 'ok' and 'nl:get_mev_for_nested:term-vs-gradient-of-G' in val['counts']
                and 'nl:get_mev_generating_for_nested:value' in val['counts'])
    # (3) expected dG/dy_i of two alternatives swapped
    nested = next(g for g in groups if len(g[0]['labels']) == 3 and g[0]['mus'][0] == [2, 1] and g[0]['mu'] == [1, 1]
                  and len(cm.nl_members(g[0])) == 1 and len(cm.nl_members(g[0])[0][1]) == 2)

    def swap(w):
        w = [2.0 * x + 0.5 for x in w]
        return w

    st, val = rt.forked(cm.c06_group, nested, corrupt_dg=swap, parts=('generating',))
    chk.control('expected dG/dy_i replaced by 2 dG/dy_i + 1/2: term-vs-specification clause',
                st == 'ok' and 'nl:get_mev_for_nested:term-vs-specification' in val['counts'])
    # (4) tuple syntax with other nest parameters than the nest objects
    st, val = rt.forked(cm.c06_group, nested, tuple_param=lambda x: float(x) + 0.5, parts=('reductions',))
    chk.control('legacy tuples written with nest parameters + 0.5: tuple-vs-objects clause',
                st == 'ok' and any(k.endswith(':tuple-vs-objects') for k in val['counts']))
    # (5) a cross-nested logit that does NOT reduce, compared with the nested logit of its non-zero allocations
    cg = next(g for g in cm.groups(emitted['cnl']) if len(g[0]['labels']) == 3 and g[0]['red'] == 'none' and g[0]['mu'] == [1, 1]
              and g[0]['mus'] == [[2, 1], [2, 1]] and g[0]['alpha'][0] == [[1, 2], [1, 2]] and g[0]['alpha'][1] == [[1, 1], [0, 1]]
              and g[0]['alpha'][2] == [[0, 1], [1, 1]])
    forced = [dict(r, red='nl', redp=r['p']) for r in cg]   # the split alternative is put wholly into the first nest
    st, val = rt.forked(cm.c06_group, forced, parts=('reductions',),
                        nl_of=lambda r: cm.nl_nests(dict(r, alpha=[[[1, 1], [0, 1]]] + r['alpha'][1:]), 'objects'))
    chk.control('a cross-nested logit with a split alternative compared with the nested logit that has it wholly in one nest',
                st == 'ok' and 'cnl:cnl:one-nest-per-alternative' in val['counts'] and 'cnl:cnlmu:one-nest-per-alternative' in val['counts'],
                f'clauses={sorted(val["counts"]) if st == "ok" else val}')

    # (6) the names of the nest objects: a specification in which a nest takes the parameter of the nest it shares its name with
    res = mutants['names-matter']
    chk.control('ChoiceModels with Mutation = names-matter (nests keyed by name): TLC must report NamesIrrelevant',
                res.violated == 'NamesIrrelevant', f'violated={res.violated}')
    # (7) ... and a library that does the same: objects no longer give what the tuples give, published terms no longer the derivative
    two_nests = next(g for g in groups if len(g[0]['labels']) == 4 and len(cm.nl_members(g[0])) == 2
                     and len(cm.nl_members(g[0])[0][1]) == 2 and g[0]['mus'] == [[3, 2], [2, 1]] and g[0]['mu'] == [1, 1])
    st, val = rt.forked(cm.c06_group_patched, two_nests, 'names', plan=chk.tier, gen_naming='same')
    chk.control('nested logit terms computed from nests keyed by name: tuple-vs-named-objects and term-vs-specification clauses',
                st == 'ok' and any(k.endswith(':tuple-vs-named-objects') for k in val['counts'])
                and 'nl:get_mev_for_nested:term-vs-specification' in val['counts']
                and not any(k.endswith(':tuple-vs-objects') for k in val['counts']),
                f'clauses={sorted(val["counts"]) if st == "ok" else val}')
    # (8) a cross-nested logit that remembers what the dictionaries held at the first construction
    st, val = rt.forked(cm.c06_group_patched, cg, 'remembers', plan='thorough', parts=('reductions',))
    chk.control('cross-nested logit that remembers the first content of the dictionaries: second-construction clauses',
                st == 'ok' and 'cnl:cnl:second-construction-value' in val['counts']
                and 'cnl:cnl:tuple-vs-objects-second-construction' in val['counts']
                and not any(k.endswith(':tuple-vs-objects') for k in val['counts']),
                f'clauses={sorted(val["counts"]) if st == "ok" else val}')

    chk.uncovered += [
        'the generating function of the cross-nested logit is not published by the library (only its terms); it is covered through the '
        'probabilities (C05) and the reduction to the nested logit',
        'the library publishes the generating function of the nested logit without scale only; for mu != 1 the published G is used '
        'through the identity G_mu(y) = G_1[mu_m / mu](y^mu) (nest parameters divided by mu, utilities multiplied by mu)',
        'published terms of UNAVAILABLE alternatives (the documentation sets G_i = 0 there; the logit kernel ignores them): only available '
        'alternatives are compared; dG/dy_i = 0 is required of the published G for unavailable alternatives',
        'nest structures, parameters and utilities outside the bounds listed for C05',
        'quick tier: each model function is compared under ONE of the three other namings of the nest objects per structure (rotation over the '
        'structures) and two functions per structure are built a second time; the generating function is built under one naming per structure '
        '(all four in rotation); the thorough tier takes all namings / two namings',
    ]
    chk.assumptions += [
        'primitive pow of the term language is interpreted by Python math (vb/terms.py)',
        'the engine gradient of the published G with respect to free parameters y_i (V_i = ln y_i) is the derivative dG/dy_i (chain rule inside the engine; '
        'the engine derivatives themselves are the subject of C02); it is cross-checked against the specification\'s closed form',
        'two ways of writing the same model are compared at 1e-13, model against reduced model at 1e-12 (rational cases) / 1e-9 (term cases)',
    ]


if __name__ == '__main__':
    check.main(PID, body)
