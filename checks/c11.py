"""C11 -- every named draw type delivers the distribution and structure it advertises.

(A) TLC checks DrawTypes itself: the catalogue name -> (family, base, skip, symmetric, antithetic,
    normal); radical inverse exact in rationals (two formulations agree, injective, digit shift);
    entries advertising different bases differ within the first 8 points; every behaviour of the
    model (Halton deterministic; iid and MLHS nondeterministic over a rational grid) is accepted by
    the acceptance predicates (shape, support, strata = permutation, antithetic = first half ++
    mirror, symmetric = 2u-1); mirror laws.
(B) spec -> code: TLC prints the exact Halton behaviours (rationals; probit(rational) for the
    normal entries) for the requested sizes; native_random_number_generators[name].generator(n, R)
    and Database.generate_draws are compared entry by entry (1e-14; normals through Phi(z) = u).
(B2) every total length: HaltonSweep.tla walks through every length L = n*R up to a bound for the nine Halton
    entries (several factorisations per length); TLC prints the exact last members, the exact checksum and sampled
    positions per answered request; the catalogue generators (every request) and Database.generate_draws (one
    request per length, all nine entries in one call, in rotating order) are compared: the last element always,
    the checksum, the samples and -- because a longer sequence only appends -- every member.
(B3) call histories: DrawCalls.tla enumerates sequences of calls of the Halton entries for one size (and the
    caller overwriting an array it received); each history is replayed in a fresh process: every returned array
    has the spec's shape and values whatever was called before, and arrays returned earlier stay unchanged.
(C) code -> spec: arrays produced by all 21 entries (several sizes, seeds) are recorded as
    observations and judged by DrawTypesTrace.tla with the same acceptance predicates.
(D) "normal quantile accurate to near machine precision" is numeric accuracy, not decidable in
    TLA+: the driver evaluates get_normal_wichura_draws(uniform_numbers=u) on samples covering
    (0,1) against Phi(z) = u (math.erfc) and logs one flag per sample into the trace; the spec
    requires every flag and that the batches cover every cell of the unit interval.
"""

from __future__ import annotations

import copy
import re
import sys
from concurrent.futures import ThreadPoolExecutor

sys.path.insert(0, '/verif')

import numpy as np

from vb import check, drawtypes as dt, par, rt, tlc
from vb.tlc import MachineryError

PID = 'C11'


def advertised(description: str) -> dict:
    """What a catalogue description says, for the cross-check of the spec's table."""
    d = description
    m = re.search(r'base (\d+)', d)
    s = re.search(r'skipping the first (\d+)', d)
    return dict(
        fam='halton' if 'Halton' in d else ('mlhs' if 'Latin Hypercube' in d else 'iid'),
        base=int(m.group(1)) if m else 0,
        skip=int(s.group(1)) if s else None,
        sym='[-1, 1]' in d,
        anti='ntithetic' in d,
        normal='ormal' in d,
    )


def body(chk: check.Check):
    rt.setup(chk.seed)
    quick = chk.tier == 'quick'
    dt.install_spy()
    from biogeme.native_draws import native_random_number_generators as native

    finding = next((f for f in chk.findings if f.get('envelope') and f.get('status', 'open') == 'open'), None)
    env = finding['envelope'] if finding else None

    # ------------------------------------------------------------------ (A) the model
    if quick:
        sizes = [(1, 1), (1, 7), (3, 4), (5, 20), (2, 9)]
        rand_sizes = [(1, 1), (1, 2), (2, 2), (1, 4), (2, 4), (3, 1), (4, 2)]
        den, maxg = 3, 4
    else:
        sizes = [(a, b) for a in range(1, 7) for b in range(1, 13)] + [(5, 20), (7, 50), (10, 100), (3, 333), (1, 1000)]
        rand_sizes = [(1, 1), (1, 2), (2, 2), (1, 4), (2, 4), (3, 1), (4, 2), (1, 5), (5, 1), (1, 10), (5, 2), (1, 3), (1, 6), (3, 2)]
        den, maxg = 3, 5
    HNAMES = [f'{k}_HALTON{b}' for b in (2, 3, 5) for k in ('NORMAL', 'UNIFORM', 'UNIFORMSYM')]
    if quick:
        maxlen, all_upto = 130, 130
        call_sizes, maxcalls = [(1, 7), (3, 4), (2, 9)], 2
    else:
        maxlen, all_upto = 700, 200
        call_sizes, maxcalls = [(1, 7), (3, 4), (2, 9), (4, 6)], 3
    # the TLC runs are independent of each other: side by side (the two model-level controls too)
    pool = ThreadPoolExecutor(max_workers=5)
    f_model = pool.submit(dt.run_model, sizes, rand_sizes, den, maxg)
    f_sweep = pool.submit(dt.run_sweep, maxlen, all_upto)
    f_calls = pool.submit(dt.run_calls, HNAMES, call_sizes, maxcalls, 1)
    f_mut = pool.submit(dt.run_mutant_model)
    f_mut_sweep = pool.submit(dt.run_mutant_sweep)
    pool.shutdown(wait=False)
    res = f_model.result()
    chk.add_tlc(f'DrawTypes: {len(sizes)} Halton sizes, nondeterministic entries up to {maxg} generated points on a 1/{den} grid', res)
    cat, behaviours = dt.split_emitted(res)
    chk.rule = ('a behaviour = one call generator(n, R) of one catalogue entry; replayed = Halton behaviours printed by TLC '
                'with exact values (listed sizes: whole arrays; length sweep: one per answered request of every length, plus one '
                'Database.generate_draws call per length; call histories: one per history, each in a fresh process); traces = arrays recorded from the real generators (all 21 entries x sizes x seeds) and '
                'batches of quantile samples, judged by DrawTypesTrace; evaluations = compared / judged points')

    # catalogue: same names on both sides, and the spec's table is what the descriptions advertise
    for nm in sorted(set(cat) ^ set(native)):
        chk.violation('catalogue:names', dict(name=nm, in_spec=nm in cat, in_code=nm in native), match=dict(clause='names', name=nm))
    for nm in sorted(set(cat) & set(native)):
        adv = advertised(native[nm].description)
        e = cat[nm]
        bad = [k for k in ('fam', 'base', 'sym', 'anti', 'normal') if adv[k] != e[k]]
        if adv['skip'] is not None and adv['skip'] != e['skip']:
            bad.append('skip')
        chk.count(('catalogue', nm))
        if bad:
            chk.violation('catalogue:advertised', dict(name=nm, description=native[nm].description, spec=e, differs=bad),
                          match=dict(clause='advertised', name=nm))
    names = sorted(set(cat) & set(native))
    hnames = [nm for nm in HNAMES if nm in native]

    # ------------------------------------------------------------------ (B3) call histories, one fresh process each
    # (first: no generator has been called in this process yet, every child starts from a library nobody used)
    res_calls = f_calls.result()
    chk.add_tlc(f'DrawCalls: histories of {maxcalls} calls of the {len(HNAMES)} Halton entries, sizes {call_sizes}, the caller may '
                'overwrite one array it received', res_calls)
    histories = [h for h in dt.split_calls(res_calls) if all(e['name'] in native for e in h['calls'])]
    if not histories:
        raise MachineryError('TLC printed no call history')
    hstats = dict(histories=len(histories), with_scribble=0, calls=0, points=0,
                  normal_then_uniform_same_base=0, uniform_then_normal_same_base=0)
    out_h = par.pmap(dt.replay_history, [(h, env) for h in histories], chunk=1, timeout=120)
    for h, (st, val) in zip(histories, out_h):
        chk.replayed += 1
        evs = h['calls']
        cl = [e for e in evs if e['op'] == 'call']
        hstats['calls'] += len(cl)
        hstats['with_scribble'] += any(e['op'] == 'scribble' for e in evs)
        for a, b in zip(cl, cl[1:]):
            if cat[a['name']]['base'] == cat[b['name']]['base']:
                hstats['normal_then_uniform_same_base'] += cat[a['name']]['normal'] and not cat[b['name']]['normal'] and not cat[b['name']]['sym']
                hstats['uniform_then_normal_same_base'] += cat[b['name']]['normal'] and not cat[a['name']]['normal'] and not cat[a['name']]['sym']
        label = ' -> '.join(f"{e['name']}({e['n']},{e['R']})" if e['op'] == 'call' else f"overwrite #{e['k']}" for e in evs)
        if st != 'ok':
            chk.violation(f'history:{st}', dict(history=label, error=val), match=dict(clause='history', name=cl[0]['name']))
            continue
        hstats['points'] += val['points']
        chk.count(('history', label), val['points'])
        for key, detail, facts in val['problems']:
            chk.violation(key, dict(detail, history=label), match=facts)
    chk.extra['call_histories'] = hstats
    for h, (st, val) in zip(histories, out_h):
        cl = [e['name'] for e in h['calls']]
        if st == 'ok' and cl == ['NORMAL_HALTON3', 'UNIFORM_HALTON3']:
            chk.sample(dict(history=' then '.join(f"{e['name']}.generator({e['n']}, {e['R']})" for e in h['calls']),
                            replayed_in='a fresh process', expected_second_array=[[_show(t) for t in row] for row in h['calls'][1]['out']][:1],
                            violations=sum(1 for k, _, _ in val['problems'] if k != 'quantile')))
            break

    # ------------------------------------------------------------------ (B) spec -> code
    by_key = {}
    for rec in behaviours:
        nm = rec['name']
        if nm not in native:
            continue
        vias = ['catalogue'] + (['database'] if rec['n'] * rec['R'] <= 120 else [])
        for via in vias:
            st, val = _direct(dt.replay_halton, rec, env, via)
            chk.replayed += 1
            if st != 'ok':
                chk.violation(f'halton:{st}', dict(name=nm, n=rec['n'], R=rec['R'], via=via, error=val),
                              match=dict(clause='exception', name=nm))
                continue
            chk.count((nm, rec['n'], rec['R']), val['n'])
            for key, detail, facts in val['problems']:
                chk.violation(key, detail, match=facts)
            if via == 'catalogue':
                by_key[(nm, rec['n'], rec['R'])] = val.get('got')
                if (rec['n'], rec['R']) == (1, 7) and nm in ('UNIFORM_HALTON3', 'NORMAL_HALTON5'):
                    chk.sample(dict(behaviour=f"{nm}.generator({rec['n']}, {rec['R']})",
                                    expected_first_row=[_show(t) for t in rec['out'][0]],
                                    observed_first_row=val['got'][0] if val.get('got') else None,
                                    mismatches=len(val['problems'])))
    # entries of the same kind advertising different bases: the spec says the sequences differ (DistinctBases)
    for (nm, n, R), got in sorted(by_key.items()):
        for (nm2, n2, R2), got2 in by_key.items():
            if (n2, R2) != (n, R) or nm2 <= nm or got is None or got2 is None:
                continue
            a, b = cat[nm], cat[nm2]
            if (a['sym'], a['normal'], a['anti']) == (b['sym'], b['normal'], b['anti']) and a['base'] != b['base']:
                chk.count(('distinct', nm, nm2))
                k = min(8, n * R)
                fa, fb = np.array(got).reshape(-1), np.array(got2).reshape(-1)
                if np.array_equal(fa[:k], fb[:k]):
                    chk.violation('catalogue:bases_not_distinct',
                                  dict(names=[nm, nm2], n=n, R=R, advertised_bases=[a['base'], b['base']],
                                       first_points=fa[:k].tolist()),
                                  match=dict(clause='distinct', name=nm2 if a['base'] == 2 else nm))

    # ------------------------------------------------------------------ (C) code -> spec
    if quick:
        plan = [((1, 2), 3), ((1, 8), 3), ((3, 4), 3), ((5, 20), 3), ((2, 6), 3), ((7, 10), 3), ((3, 1), 2), ((1, 1), 2)]
        ncells, per_cell, parts = 1000, 20, 4
    else:
        plan = [((1, 2), 12), ((1, 8), 12), ((3, 4), 12), ((5, 20), 12), ((2, 6), 12), ((7, 10), 12), ((3, 1), 6), ((1, 1), 6),
                ((2, 2), 12), ((1, 4), 12), ((6, 2), 12), ((13, 14), 6), ((1, 5), 6), ((4, 7), 6),
                ((10, 100), 3), ((4, 250), 3), ((1, 1000), 3), ((20, 50), 3), ((50, 4), 3)]
        ncells, per_cell, parts = 1000, 300, 12
    events = []
    tid = 0
    for (n, R), nseeds in plan:
        for nm in names:
            if cat[nm]['anti'] and R % 2:
                continue  # antithetic entries are defined for an even number of draws (the property's quantifier)
            for k in range(nseeds):
                tid += 1
                events.append(dt.record_gen(cat, nm, n, R, chk.seed + 1000 * k + 7 * n + R, tid))
    ngen = len(events)
    cells = dt.quantile_batches(ncells, per_cell, chk.seed)
    qevents = dt.record_quantile(cells, tid + 1)
    tid += len(qevents)
    qevents.append(dict(kind='end', tid=tid + 1, ncells=ncells))
    # the generator traces are spread over several JVMs; the quantile batches and the closing event (coverage of the
    # cells) stay together in one file
    chunks = dt.balanced(events, parts - 1) + [qevents]
    events += qevents
    verdicts, results = dt.validate(events, chunks=chunks)
    for k, r in enumerate(results):
        chk.add_tlc(f'DrawTypesTrace file {k + 1}/{len(results)} ({len(chunks[k])} events)', r)
    shown = set()
    stats = dict(gen_traces=ngen, quantile_batches=len(qevents), quantile_samples=0, quantile_samples_bad=0,
                 points_in_arrays=0, normal_points_with_underlying_uniform=0, normal_points_bad=0)
    worst = {'low_tail': 0.0, 'central': 0.0, 'elsewhere': 0.0}
    ratio = {'max_error_over_envelope_bound': 0.0}

    def report_quantile(u, z, source):
        facts, detail = dt.quantile_facts(u, z, env, source)
        worst[facts['region']] = max(worst[facts['region']], detail['abs_error_in_probability'])
        if detail['envelope']:
            ratio['max_error_over_envelope_bound'] = max(ratio['max_error_over_envelope_bound'],
                                                         detail['abs_error_in_probability'] / detail['envelope'])
        chk.violation('quantile', detail, match=facts)

    for ev in events:
        v = verdicts.get(ev['tid'])
        if v is None:
            raise MachineryError(f"no verdict for trace {ev['tid']} ({ev['kind']})")
        chk.traces += 1
        if ev['kind'] == 'gen':
            npts = len(ev['pts'])
            stats['points_in_arrays'] += npts
            stats['normal_points_with_underlying_uniform'] += sum(1 for x in ev['_u'] if x is not None)
            chk.count((ev['name'], ev['n'], ev['R'], 'trace'), npts)
            if ev['name'] not in shown and ev['name'] in ('UNIFORM_MLHS_ANTI', 'NORMAL_MLHS_ANTI') and (ev['n'], ev['R']) == (3, 4):
                shown.add(ev['name'])
                chk.sample(dict(trace=f"{ev['name']}.generator(3, 4) seed {ev['_seed']}", observed=ev['_vals'],
                                strata_of_generated_part=ev['st'], underlying=ev['_under'], verdict=v['verdict']))
            for clause in v['fails']:
                if clause == 'quantile':
                    continue
                chk.violation(f'trace:{clause}', dict(name=ev['name'], n=ev['n'], R=ev['R'], seed=ev['_seed'], verdict=v,
                                                      shape=[ev['rows'], ev['cols'][:3]], strata=ev['st'][:64],
                                                      values=ev['_vals'][:64]),
                              match=dict(clause=clause, name=ev['name']))
            for p in v['qbad']:
                u, z = ev['_u'][p - 1], ev['_vals'][p - 1]
                stats['normal_points_bad'] += 1
                report_quantile(u, z, f"{ev['name']}({ev['n']},{ev['R']}) seed {ev['_seed']} point {p}")
        elif ev['kind'] == 'quantile':
            stats['quantile_samples'] += len(ev['oks'])
            chk.count(('quantile-cell', ev['cell']), len(ev['oks']))
            for p in v['qbad']:
                u, z = ev['_u'][p - 1], ev['_z'][p - 1]
                stats['quantile_samples_bad'] += 1
                report_quantile(u, z, 'get_normal_wichura_draws(uniform_numbers=u)')
        else:
            if v['verdict'] != 'ok':
                chk.violation('trace:coverage', dict(missing_cells=v['qbad']), match=dict(clause='coverage'))
    stats['worst_abs_error_of_failing_samples_by_region'] = worst
    stats.update(ratio)
    chk.extra['trace_statistics'] = stats
    good = next((x for c in cells for x in c if dt.region(x) == 'elsewhere'), None)
    if good is not None:
        z = float(dt.wichura([good])[0])
        chk.sample(dict(quantile_sample=good, z=z, Phi_z_minus_u=dt.tail_error(good, z)[0], ok=dt.quantile_ok(good, z)), limit=5)

    # ------------------------------------------------------------------ (B2) every total length
    # (after (C): the sweep model is the longest TLC run and has been running side by side with everything above)
    res_sweep = f_sweep.result()
    chk.add_tlc(f'HaltonSweep: every length 1..{maxlen} of the {len(HNAMES)} Halton entries, every factorisation up to length '
                f'{all_upto}, three beyond', res_sweep)
    sweep = [r for r in dt.split_sweep(res_sweep) if r['sweep'] in native]
    tables = dt.sweep_tables(sweep)
    if sorted(tables) != sorted(hnames) or any(len(tables[nm]['terms']) != maxlen for nm in tables):
        raise MachineryError(f'sweep tables: {[(nm, len(t["terms"])) for nm, t in tables.items()]}')
    zrefs = {}
    for nm in hnames:
        if tables[nm]['kind'] != 'q':   # the quantile primitive at every member of the sequence, judged once per member
            zrefs[nm], probs = dt.sweep_points(tables[nm], nm, env)
            chk.count((nm, 'sweep-members'), maxlen)
            for key, detail, facts in probs:
                chk.violation(key, detail, match=facts)
    by_name = {nm: sorted((r for r in sweep if r['sweep'] == nm), key=lambda r: (r['L'], r['n'])) for nm in hnames}
    nchunk = 4 if quick else 12
    items = [(nm, by_name[nm][c::nchunk], tables[nm], env, zrefs.get(nm)) for nm in hnames for c in range(nchunk)]
    sstats = dict(max_length=maxlen, requests=0, points=0, database_calls=0, database_points=0,
                  lengths_covered_per_entry={}, shapes_per_length_min=None, shapes_per_length_max=None)
    for (nm, recs, _, _, _), (st, val) in zip(items, par.pmap(dt.replay_sweep_chunk, items, chunk=1, timeout=900)):
        if st != 'ok':
            raise MachineryError(f'sweep replay of {nm} failed: {val}')
        chk.replayed += val['calls']
        sstats['requests'] += val['calls']
        sstats['points'] += val['points']
        chk.count(None, val['points'])
        for key, detail, facts in val['problems']:
            chk.violation(key, detail, match=facts)
    for nm in hnames:
        ls = sorted({r['L'] for r in by_name[nm]})
        for L in ls:
            chk.distinct.add((nm, 'length', L))
        sstats['lengths_covered_per_entry'][nm] = f'{ls[0]}..{ls[-1]} ({len(ls)} lengths)' if ls == list(range(ls[0], ls[-1] + 1)) else ls
    per_len = {}
    for r in by_name[hnames[0]]:
        per_len.setdefault(r['L'], []).append((r['n'], r['R']))
    sstats['shapes_per_length_min'] = min(len(v) for v in per_len.values())
    sstats['shapes_per_length_max'] = max(len(v) for v in per_len.values())
    # Database.generate_draws: one request per length, all Halton entries in ONE call, asked in a rotating order
    rec_of = {(r['sweep'], r['n'], r['R']): r for r in sweep}
    ditems = []
    for L in sorted(per_len):
        n, R = sorted(per_len[L])[L % len(per_len[L])]
        order = hnames[L % len(hnames):] + hnames[:L % len(hnames)]
        if (L // len(hnames)) % 2:
            order = order[::-1]
        ditems.append((order, {nm: rec_of[(nm, n, R)] for nm in order}, tables, env, zrefs))
    for (order, recs, _, _, _), (st, val) in zip(ditems, par.pmap(dt.replay_sweep_database, ditems, chunk=20, timeout=900)):
        if st != 'ok':
            raise MachineryError(f'database sweep replay failed: {val}')
        chk.replayed += 1
        sstats['database_calls'] += 1
        sstats['database_points'] += val['points']
        chk.count(('database', recs[order[0]]['n'], recs[order[0]]['R']), val['points'])
        for key, detail, facts in val['problems']:
            chk.violation(key, detail, match=facts)
    chk.extra['length_sweep'] = sstats
    r22 = next((r for r in by_name.get('UNIFORM_HALTON2', []) if r['L'] == 22), None)
    if r22 is not None:
        got22, _ = dt.call('UNIFORM_HALTON2', r22['n'], r22['R'], None)
        chk.sample(dict(sweep=f"UNIFORM_HALTON2.generator({r22['n']}, {r22['R']}) (length 22: 22 + skip 10 = 2^5)",
                        expected_last_members=[_show(t) for t in r22['last']], observed_last_members=got22.reshape(-1)[-len(r22['last']):].tolist(),
                        expected_sum=_show(r22['osum']), observed_sum=float(got22.sum())), limit=6)

    # ------------------------------------------------------------------ negative controls
    controls(chk, cat, behaviours, env, f_mut, f_mut_sweep, sweep, tables, zrefs, histories)

    chk.uncovered += [
        'accuracy of the normal quantile is numeric: decided by the driver (Phi(z) = u with math.erfc, tolerance '
        f'{dt.QTOL:g} x max(1, z^2) relative to the nearer tail) on samples of every 1/1000 cell of (0,1) plus extreme tails; '
        'the spec only requires the flags and the coverage of the cells',
        'distributional quality (uniformity / independence of the pseudo-random entries) is not part of the property',
        'odd numbers of draws for antithetic entries are outside the quantifier',
        f'sizes: Halton replay of every total length up to {maxlen} (and the listed larger sizes up to 1000 points), traces up to '
        '1000 points per array; lengths beyond are not exercised',
        'call histories: Halton entries only, one size per history; histories mixing sizes or involving the pseudo-random '
        'entries are not replayed',
    ]
    chk.assumptions += [
        'NORMAL_HALTON*: the descriptions are silent on the skip; the spec takes the quantile of the corresponding UNIFORM_HALTON entry (skip 10)',
        'underlying uniform numbers of NORMAL_HALTON*/NORMAL_MLHS* are observed as the argument uniform_numbers handed to '
        'draws.get_normal_wichura_draws (fallback Phi(z)); NORMAL / NORMAL_ANTI have no observable structure besides shape, finiteness and mirror',
        'symmetric = 2u-1 of the unit entry is compared under the same numpy random stream (same seed)',
        'the mirror 1-u / -v is computed by the driver in floating point and compared bit for bit',
        'math.erfc (libm) is the trusted numeric base for Phi',
    ]


def _direct(fn, *args):
    """The generators are pure numpy (no engine state): no fork is needed; exceptions are verdicts."""
    try:
        return 'ok', fn(*args)
    except MachineryError:
        raise
    except Exception as e:  # noqa
        return 'exc', (type(e).__name__, [c.__name__ for c in type(e).__mro__], str(e)[:500])


def _show(t):
    kind, q = dt.term_value(t)
    return str(q) if kind == 'q' else f'{kind}({q})'


def _judge(events):
    verdicts, results = dt.validate(events, parts=1, timeout=600)
    for r in results:
        if r.error:
            raise MachineryError(f'TLC failed on a control trace: {r.error[:1500]}')
    return verdicts


def _patched_child(patch, fn, *args):
    """Install a wrapper around biogeme.draws.get_halton_draws (in this forked child only) and run fn."""
    from biogeme import draws

    draws.get_halton_draws = patch(draws.get_halton_draws)
    return fn(*args)


def _last_unwritten(length, value):
    """A Halton generator whose fill loop leaves the last element of the buffer at `value(last)` for ONE total length."""
    def patch(orig):
        def gen(sample_size, number_of_draws, symmetric=False, base=2, skip=0, shuffled=False):
            a = orig(sample_size, number_of_draws, symmetric=symmetric, base=base, skip=skip, shuffled=shuffled)
            if sample_size * number_of_draws == length:
                a[-1, -1] = value(a[-1, -1])
            return a
        return gen
    return patch


def _memoised(orig):
    """A Halton generator that hands the same array object to every caller asking for the same arguments."""
    import functools

    return functools.lru_cache(maxsize=None)(orig)


def _sweep_problems(args):
    """-> [(L, n, R, sorted problem labels via the catalogue, ... via Database.generate_draws)]"""
    name, recs, tables, env, zrefs = args
    out = []
    for rec in recs:
        r = dt.replay_sweep_chunk((name, [rec], tables[name], env, zrefs.get(name)))
        d = dt.replay_sweep_database(([name], {name: rec}, tables, env, zrefs))
        lab = lambda ps: sorted({f"{k}|{dd.get('what', '')}" for k, dd, _ in ps if k != 'quantile'})
        out.append((rec['L'], rec['n'], rec['R'], lab(r['problems']), lab(d['problems'])))
    return out


def _history_labels(item):
    return sorted({k for k, _, _ in dt.replay_history(item)['problems'] if k != 'quantile'})


def controls(chk, cat, behaviours, env, f_mut, f_mut_sweep, sweep, tables, zrefs, histories):
    # (1) model level: a generator model whose normal Halton entries all use base 2 must violate DistinctBases
    r = f_mut.result()
    chk.control('spec mutant: normal Halton entries generated with base 2 whatever the advertised base',
                r.violated == 'DistinctBases', f'TLC: {r.violated or r.error}')
    # (2) spec -> code: expected values of base 3 offered for the base-2 generator must be reported
    b3 = next(b for b in behaviours if b['name'] == 'UNIFORM_HALTON3' and (b['n'], b['R']) == (1, 7))
    mut = copy.deepcopy(b3)
    mut['name'] = 'UNIFORM_HALTON2'
    st, val = _direct(dt.replay_halton, mut, env, 'catalogue')
    chk.control('expected mutant: base-3 sequence expected from UNIFORM_HALTON2', st == 'ok' and bool(val['problems']))
    n3 = next(b for b in behaviours if b['name'] == 'NORMAL_HALTON2' and (b['n'], b['R']) == (1, 7))
    mut = copy.deepcopy(n3)
    mut['out'][0][3]['a'][0]['n'] += 1  # one expected uniform moved by 1/128
    st, val = _direct(dt.replay_halton, mut, env, 'catalogue')
    chk.control('expected mutant: one expected uniform of NORMAL_HALTON2 moved by one grid step',
                st == 'ok' and any(k == 'halton:value' for k, _, _ in val['problems']))

    # (3) code -> spec: corrupted recordings and wrong generators must be rejected with the right clause
    from biogeme import draws

    seed = chk.seed + 99
    evs = []
    want = {}

    def add(ev, clause, label):
        ev['tid'] = len(evs) + 1
        evs.append(ev)
        want[ev['tid']] = (clause, label)

    base = dt.record_gen(cat, 'UNIFORM_MLHS_ANTI', 3, 4, seed, 0)
    e = copy.deepcopy(base)
    e['pts'][2], e['pts'][3] = e['pts'][3], e['pts'][2]  # exchange the two mirrored columns of row 1
    add(e, 'mirror', 'recorded antithetic array with two second-half entries exchanged')
    e = copy.deepcopy(base)
    e['st'][1] = e['st'][0]
    add(e, 'strata', 'recorded strata with one index duplicated')
    e = copy.deepcopy(base)
    e['cols'][1] = 3
    add(e, 'shape', 'recorded shape with one short row')
    e = copy.deepcopy(base)
    e['pts'][5]['sup'] = False
    add(e, 'support', 'one support flag cleared')
    e = copy.deepcopy(base)
    del e['pts'][-1]
    add(e, 'shape', 'one point dropped')
    s0 = dt.record_gen(cat, 'UNIFORMSYM_MLHS', 3, 4, seed, 0)
    e = copy.deepcopy(s0)
    e['pts'][4]['v'] = e['pts'][4]['m']  # sign flipped
    add(e, 'symmetric', 'one symmetric value replaced by its negative')
    z0 = dt.record_gen(cat, 'NORMAL_MLHS', 3, 4, seed, 0)
    e = copy.deepcopy(z0)
    e['pts'] = [dict(p, q=True) for p in e['pts']]
    e['pts'][7]['q'] = False
    add(e, 'quantile', 'one quantile flag cleared')
    # wrong generators recorded with the real recorder
    add(dt.record_gen(cat, 'UNIFORM_MLHS', 5, 20, seed, 0, gen=draws.get_uniform), 'strata',
        'plain uniform numbers offered as UNIFORM_MLHS')
    add(dt.record_gen(cat, 'UNIFORM_ANTI', 3, 4, seed, 0, gen=draws.get_uniform), 'mirror',
        'plain uniform numbers offered as UNIFORM_ANTI')
    add(dt.record_gen(cat, 'UNIFORMSYM', 3, 4, seed, 0, gen=draws.get_uniform), 'symmetric',
        'unit uniform numbers offered as UNIFORMSYM')
    add(dt.record_gen(cat, 'UNIFORM', 3, 4, seed, 0, gen=lambda n, r: draws.get_uniform(n, r) - 1.0), 'support',
        'numbers of [-1,0) offered as UNIFORM')
    add(dt.record_gen(cat, 'UNIFORM', 3, 4, seed, 0, gen=lambda n, r: draws.get_uniform(r, n)), 'shape',
        'transposed array offered as UNIFORM')
    # the sequence 1-u of an MLHS first half keeps the strata but is no mirror of the first half when shifted
    add(dt.record_gen(cat, 'UNIFORM_MLHS_ANTI', 2, 6, seed, 0,
                      gen=lambda n, r: (lambda h: np.concatenate((h, 1 - h[:, ::-1]), axis=1))(draws.get_latin_hypercube_draws(n, r // 2))),
        'mirror', 'mirror image appended in reversed column order')
    ok_ev = dt.record_gen(cat, 'UNIFORM_MLHS_ANTI', 2, 6, seed, 0)
    add(ok_ev, 'ok', 'unmodified recording (must be accepted)')
    # quantile batches: a flag cleared; a batch removed -> coverage
    add(dict(kind='quantile', cell=0, oks=[True, True, False]), 'quantile', 'one quantile sample flag cleared')
    add(dict(kind='quantile', cell=1, oks=[True]), 'ok', 'clean quantile batch (must be accepted)')
    add(dict(kind='end', ncells=3), 'coverage', 'quantile batches do not cover cell 2')
    verdicts = _judge(evs)
    for t, (clause, label) in want.items():
        v = verdicts.get(t)
        got = v['verdict'] if v else None
        if clause == 'ok':
            chk.control(f'trace control: {label}', got == 'ok', f'verdict {got}')
        else:
            chk.control(f'trace control: {label}', v is not None and clause in v['fails'], f'verdict {got}, fails {v and v["fails"]}')
    # (6) every total length
    r = f_mut_sweep.result()
    chk.control('spec mutant: generated part whose last member stays 0 whenever skip + length = k * base^j (fill loop one short)',
                r.violated == 'SweepIsGen', f'TLC: {r.violated or r.error}')

    def around(name, L0):
        return [x for x in sweep if x['sweep'] == name and x['L'] in (L0 - 1, L0, L0 + 1)]

    # the real replay against a generator (patched in a forked child only) that leaves its last element unwritten for ONE length
    nm, L0 = 'UNIFORM_HALTON3', 17
    st, val = rt.forked(_patched_child, _last_unwritten(L0, lambda v: 0.0), _sweep_problems, (nm, around(nm, L0), tables, env, zrefs), timeout=120)
    hit = [x for x in val if x[0] == L0] if st == 'ok' else []
    miss = [x for x in val if x[0] != L0] if st == 'ok' else []
    chk.control(f'patched generator: {nm} leaves its last element at 0 for total length {L0} only (forked child): reported for every '
                f'shape of that length through the catalogue and through Database.generate_draws, lengths {L0 - 1} and {L0 + 1} accepted',
                st == 'ok' and len(hit) >= 2 and len(miss) >= 2
                and all('halton:value|last element' in c and 'halton:checksum|exact sum of the array' in c
                        and 'halton:value|last element' in d for _, _, _, c, d in hit)
                and all(c == [] and d == [] for _, _, _, c, d in miss),
                f'{st}: {val if st != "ok" else [(L, n, R, len(c), len(d)) for L, n, R, c, d in val]}')
    # normal entry: the last uniform number halved where it is tiny -- a deviation that lies INSIDE the envelope of the known
    # finding about the primitive must still be reported (the value is not what the primitive returns for the expected uniform)
    nm = 'NORMAL_HALTON5'
    tb = tables[nm]
    L0 = min(range(2, len(tb['q'])), key=lambda k: tb['q'][k - 1])      # 1-based position of the smallest member
    u0 = float(tb['q'][L0 - 1])
    z0 = float(dt.wichura([u0 / 2])[0])
    inside = dt.quantile_facts(u0, z0, env, 'control')[0]['within_envelope'] if env else None
    st, val = rt.forked(_patched_child, _last_unwritten(L0, lambda v: v / 2), _sweep_problems, (nm, around(nm, L0), tables, env, zrefs), timeout=120)
    hit = [x for x in val if x[0] == L0] if st == 'ok' else []
    miss = [x for x in val if x[0] != L0] if st == 'ok' else []
    chk.control(f'patched generator: {nm} receives half of its last uniform number {tb["q"][L0 - 1]} for total length {L0} only',
                st == 'ok' and len(hit) >= 1 and len(miss) >= 2
                and all('halton:value|last element' in c and any(x.startswith('halton:value|underlying') for x in c) and d != [] for _, _, _, c, d in hit)
                and all(c == [] and d == [] for _, _, _, c, d in miss),
                f'{st}; deviation inside the envelope of the known finding: {inside}; '
                f'{val if st != "ok" else [(L, n, R, c) for L, n, R, c, d in val if c]}')
    # expected mutants of the sweep
    rec = next(x for x in sweep if x['sweep'] == 'UNIFORMSYM_HALTON5' and x['L'] == 40)
    m1 = copy.deepcopy(rec)
    m1['osum']['n'] += 1
    m2 = copy.deepcopy(rec)
    m2['last'][-1]['n'] += 1
    l1 = _sweep_problems(('UNIFORMSYM_HALTON5', [m1], tables, env, zrefs))[0]
    l2 = _sweep_problems(('UNIFORMSYM_HALTON5', [m2], tables, env, zrefs))[0]
    l0 = _sweep_problems(('UNIFORMSYM_HALTON5', [rec], tables, env, zrefs))[0]
    chk.control('expected mutant: checksum of UNIFORMSYM_HALTON5 length 40 moved by one unit of its denominator; last member moved by one '
                'unit; the unmodified record is accepted',
                l1[3] == ['halton:checksum|exact sum of the array'] and l2[3] == ['halton:value|last element'] and l0[3] == [] and l0[4] == [],
                f'{l1[3]} / {l2[3]} / {l0[3]}')

    # (7) call histories against a generator that hands out one shared object per argument list (forked children)
    def hist(*evs):
        want = [(e[0], e[1]) for e in evs]
        return next((h for h in histories if [(e['op'], e['name']) for e in h['calls']][:len(want)] == want
                     and len({(e['n'], e['R']) for e in h['calls']}) == 1), None)

    h1 = hist(('call', 'NORMAL_HALTON2'), ('call', 'UNIFORM_HALTON2'))
    h2 = hist(('call', 'UNIFORM_HALTON2'), ('call', 'NORMAL_HALTON2'))
    h3 = hist(('call', 'UNIFORM_HALTON3'), ('scribble', 'UNIFORM_HALTON3'), ('call', 'UNIFORM_HALTON3'))
    got = []
    for h in (h1, h2, h3):
        if h is None:
            got.append(('missing', None))
            continue
        h = dict(h, calls=h['calls'][:3 if h is h3 else 2])
        got.append(rt.forked(_patched_child, _memoised, _history_labels, (h, env), timeout=120))
    chk.control('patched generator: memoised Halton generator (one shared array per argument list): NORMAL_HALTON2 then UNIFORM_HALTON2 '
                'reports the shape of the second array, UNIFORM_HALTON2 then NORMAL_HALTON2 reports the retained first array, '
                'UNIFORM_HALTON3 / overwrite / UNIFORM_HALTON3 reports the second array',
                got[0][0] == 'ok' and 'history:shape' in got[0][1] and got[1][0] == 'ok' and 'history:retained' in got[1][1]
                and got[2][0] == 'ok' and bool(got[2][1]), f'{got}')

    # (4) the quantile oracle itself: a deviate off by 1e-12 must be flagged, the reference value must pass
    import statistics

    zref = statistics.NormalDist().inv_cdf(0.3)
    chk.control('quantile oracle: z(0.3) + 1e-12 flagged and z(0.3) accepted',
                (not dt.quantile_ok(0.3, zref + 1e-12)) and dt.quantile_ok(0.3, zref))
    # (5) the known-finding matcher must not swallow errors outside the regions or above the envelope
    finding = next((f for f in chk.findings if f.get('envelope')), None)
    if finding is not None:
        nd = statistics.NormalDist()
        outside, _ = dt.quantile_facts(0.2, nd.inv_cdf(0.2) + 1e-9, finding['envelope'], 'control')
        larger, _ = dt.quantile_facts(0.6, nd.inv_cdf(0.6) + 1e-6, finding['envelope'], 'control')
        tail, _ = dt.quantile_facts(0.01, nd.inv_cdf(0.01) + 0.05, finding['envelope'], 'control')
        inside, _ = dt.quantile_facts(0.6, nd.inv_cdf(0.6) + 1e-9, finding['envelope'], 'control')
        m = finding['match']
        chk.control('known-finding matcher: error outside the two regions, error above the envelope (central and tail) are not matched',
                    not check._matches(m, outside) and not check._matches(m, larger) and not check._matches(m, tail)
                    and check._matches(m, inside))


if __name__ == '__main__':
    check.main(PID, body)
