"""C07 -- estimation returns a feasible point that is a maximum of the stated likelihood.

Estimation.tla, part 1: a concave separable model with bounds and fixed parameters; the spec computes
the constrained maximiser (clip of the mean), LL, gradient, Hessian, BHHH exactly and TLC checks on the
model that it is feasible, satisfies KKT, is not below the start and is locally best, for every bound
configuration (none, inactive, active lower / upper, one-sided) x start x fixed pattern x algorithm.
Each behaviour is replayed into the real estimate() (all algorithm names) and quick_estimate():
feasibility, final LL >= initial and = likelihood recomputed at the estimates, g / H / BHHH of the
results = those of the spec at that point, KKT, every algorithm reaches the spec's maximum value,
starting values written back by name, fixed parameters untouched.
Part 2: the dialogue between estimation object, minimised function and optimiser is recorded (wrappers
on the likelihood entry points and on NegativeLikelihood) and validated by EstimationTrace.tla: phase
order, sign flip of the same point, determinism, requests inside the bounds, final evaluation at the
returned point, results = final evaluation.
"""

from __future__ import annotations

import json
import os
import shutil
import sys

sys.path.insert(0, '/verif')

from fractions import Fraction as F

import numpy as np

from vb import check, par, rt, tlc
from vb.exprenv import tla_q
from vb.rt import close

PID = 'C07'
NAMES = ['b2', 'B10', 'a_mid']          # order of appearance; sorted: B10 < a_mid < b2
A = [1, 2, 3]
C = [[1, 2, 6], [-2, 0, -1], [4, 4, 1]]  # centers per parameter per row
S = [1, 2, 1]                             # row scales (a data column): weighted means 11/4, -3/4, 13/4
ALGOS = ['scipy', 'LS-newton', 'TR-newton', 'LS-BFGS', 'TR-BFGS', 'simple_bounds', 'simple_bounds_newton', 'simple_bounds_BFGS', 'automatic']


def side(v):
    return f'[set |-> {"TRUE" if v is not None else "FALSE"}, v |-> {tla_q(F(v if v is not None else 0))}]'


def module(bound_cfgs, starts, fixed_pats, algos):
    def seq(xs):
        return '<<' + ', '.join(xs) + '>>'

    bc = '{' + ', '.join(seq([f'[lo |-> {side(lo)}, hi |-> {side(hi)}]' for lo, hi in cfg]) for cfg in bound_cfgs) + '}'
    st = '{' + ', '.join(seq([tla_q(F(v)) for v in s]) for s in starts) + '}'
    fp = '{' + ', '.join(seq(['TRUE' if f else 'FALSE' for f in p]) for p in fixed_pats) + '}'
    cs = seq([seq([str(v) if v >= 0 else f'(0 - {-v})' for v in row]) for row in C])
    return f'''---- MODULE EstGen ----
EXTENDS Estimation
G_A == {seq(str(a) for a in A)}
G_C == {cs}
G_S == {seq(str(v) for v in S)}
G_BoundCfgs == {bc}
G_Starts == {st}
G_FixedPats == {fp}
G_Algos == {{{", ".join(f'"{a}"' for a in algos)}}}
====
'''


CFG = '''SPECIFICATION Spec
CONSTANTS
 NP = 3
 NR = 3
 A <- G_A
 C <- G_C
 S <- G_S
 BoundCfgs <- G_BoundCfgs
 Starts <- G_Starts
 FixedPats <- G_FixedPats
 Algos <- G_Algos
INVARIANT OptimumSound
INVARIANT LocallyBest
INVARIANT EmitInv
'''


def fq(v):
    return float(F(v[0], v[1]))


def build(rec, save_iterations=False):
    import pandas as pd
    import biogeme.biogeme as bio
    import biogeme.database as db
    import biogeme.expressions as ex

    nrows = len(C[0])
    cols = {f'c{p}': [float(C[p][r]) for r in range(nrows)] for p in range(3)}
    cols['s'] = [float(v) for v in S]
    d = db.Database('c07', pd.DataFrame(cols))
    betas = []
    f = None
    for p, nm in enumerate(NAMES):
        b_ = rec['bounds'][p]
        lo = fq(b_['lo']['v']) if b_['lo']['set'] else None
        hi = fq(b_['hi']['v']) if b_['hi']['set'] else None
        be = ex.Beta(nm, fq(rec['start'][p]), lo, hi, 1 if rec['fixed'][p] else 0)
        betas.append(be)
        dd = be - ex.Variable(f'c{p}')
        t = -A[p] * (ex.Variable('s') * (dd * dd))
        f = t if f is None else f + t
    # on half of the records a second formula is handed over side by side: it declares its OWN parameter objects with
    # the same names ("after estimation the formulas' starting values equal the estimates": every formula)
    import zlib

    formulas = f
    if zlib.crc32(repr((rec['algo'], rec['start'], rec['fixed'], rec['bounds'])).encode()) % 2 == 0:
        g = None
        for p, nm in enumerate(NAMES):
            b_ = rec['bounds'][p]
            lo = fq(b_['lo']['v']) if b_['lo']['set'] else None
            hi = fq(b_['hi']['v']) if b_['hi']['set'] else None
            be2 = ex.Beta(nm, fq(rec['start'][p]), lo, hi, 1 if rec['fixed'][p] else 0)
            betas.append(be2)
            t = be2 * ex.Variable(f'c{p}')
            g = t if g is None else g + t
        formulas = {'log_like': f, 'aux': g}
    b = bio.BIOGEME(d, formulas, optimization_algorithm=rec['algo'], save_iterations=save_iterations, generate_html=False, generate_pickle=False)
    b.modelName = 'c07'
    return b, betas, d


def hx(v):
    return tuple(float(x).hex() for x in np.atleast_1d(np.asarray(v, dtype=float)).ravel())


def check_reported(rec, results, free, fidx, out, label=''):
    """g, H, BHHH, log likelihood reported = those of the likelihood AT THE REPORTED POINT on the estimation data
    (recomputed independently: the model is the spec's, its derivatives at any point are known in closed form)"""
    data = results.data
    est = results.get_beta_values()
    xv = {nm: est[nm] for nm in free}
    xfull = [xv[nm] if nm in xv else fq(rec['start'][p]) for p, nm in enumerate(NAMES)]
    nrows = len(C[0])
    grow = np.array([[-2 * A[p] * S[r] * (xfull[p] - C[p][r]) for p in fidx] for r in range(nrows)])
    g_want = grow.sum(axis=0)
    h_want = np.diag([-2.0 * A[p] * sum(S) for p in fidx])
    b_want = np.einsum('ri,rj->ij', grow, grow)
    ll_want = -sum(A[p] * sum(S[r] * (xfull[p] - C[p][r]) ** 2 for r in range(nrows)) for p in range(3))
    scale = max(1.0, float(np.max(np.abs(b_want))))
    if not close(float(data.logLike), ll_want, rel=1e-10, abs_=1e-10):
        out.append(dict(what=label + 'reported log likelihood is not the likelihood at the reported estimates', got=float(data.logLike), want=ll_want))
    for name, got, want in (('gradient', data.g, g_want), ('Hessian', data.H, h_want), ('BHHH', data.bhhh, b_want)):
        got = np.asarray(got, dtype=float)
        if got.shape != np.asarray(want).shape or not np.allclose(got, want, rtol=1e-9, atol=1e-9 * scale):
            out.append(dict(what=label + f'reported {name} is not that of the likelihood at the estimates', got=got.tolist(), want=np.asarray(want).tolist()))


def replay(rec):
    """estimate() with the dialogue recorded; -> dict(mismatches, trace, n)"""
    import biogeme.negative_likelihood as nl

    out = []
    events = []
    ids = {}

    def intern(v):
        return ids.setdefault(hx(v), len(ids) + 1)

    b, betas, d = build(rec)
    free = list(b.free_beta_names)
    fidx = [NAMES.index(nm) for nm in free]
    lo = [fq(rec['bounds'][p]['lo']['v']) if rec['bounds'][p]['lo']['set'] else -np.inf for p in fidx]
    hi = [fq(rec['bounds'][p]['hi']['v']) if rec['bounds'][p]['hi']['set'] else np.inf for p in fidx]

    def inb(x):
        return bool(all(l - 1e-9 <= float(v) <= h + 1e-9 for v, l, h in zip(x, lo, hi)))

    last = {}
    orig_like, orig_liked, orig_init, orig_opt = b.calculate_likelihood, b.calculate_likelihood_and_derivatives, b.calculate_init_likelihood, b.optimize
    state = dict(returned=None, init_f=None, final=None)

    def like(x, scaled, batch=None):
        r = orig_like(x, scaled=scaled, batch=batch)
        if not scaled:
            events.append(dict(ev='like', x=intern(x), f=intern([r])))
            last['like'] = (hx(x), float(r))
        return r

    def liked(x, scaled, hessian=False, bhhh=False, batch=None):
        r = orig_liked(x, scaled=scaled, hessian=hessian, bhhh=bhhh, batch=batch)
        if not scaled:
            if state['returned'] is not None and state['final'] is None and hessian and bhhh:
                state['final'] = r
                notlower = state['init_f'] is None or float(r.function) >= state['init_f'] - 1e-9 * max(1.0, abs(state['init_f']))
                events.append(dict(ev='final', x=intern(x), f=intern([r.function]), g=intern(r.gradient), notlower=bool(notlower)))
            else:
                events.append(dict(ev='liked', x=intern(x), f=intern([r.function]), g=intern(r.gradient)))
            last['liked'] = (hx(x), r)
        return r

    def init():
        r = orig_init()
        state['init_f'] = float(r)
        events.append(dict(ev='init', x=intern(b.id_manager.free_betas_values), f=intern([r])))
        return r

    def optimize(starting_values=None):
        res = orig_opt(starting_values)
        state['returned'] = np.array(res[0], dtype=float)
        events.append(dict(ev='return', x=intern(res[0]), inb=inb(res[0]), conv=bool(res[2])))
        return res

    b.calculate_likelihood, b.calculate_likelihood_and_derivatives, b.calculate_init_likelihood, b.optimize = like, liked, init, optimize
    o_f, o_fg, o_fgh = nl.NegativeLikelihood._f, nl.NegativeLikelihood._f_g, nl.NegativeLikelihood._f_g_h

    def w_f(self):
        r = o_f(self)
        hx_, inner = last.get('like', (None, None))
        events.append(dict(ev='req', kind='f', x=intern(self.x), negf=bool(hx_ == hx(self.x) and float(r) == -inner), negg=True, negh=True, inb=inb(self.x)))
        return r

    def w_fg(self):
        r = o_fg(self)
        hx_, inner = last.get('liked', (None, None))
        same = hx_ == hx(self.x)
        events.append(dict(ev='req', kind='fg', x=intern(self.x), negf=bool(same and float(r.function) == -float(inner.function)),
                           negg=bool(same and hx(r.gradient) == hx(-np.asarray(inner.gradient))), negh=True, inb=inb(self.x)))
        return r

    def w_fgh(self):
        r = o_fgh(self)
        hx_, inner = last.get('liked', (None, None))
        same = hx_ == hx(self.x)
        events.append(dict(ev='req', kind='fgh', x=intern(self.x), negf=bool(same and float(r.function) == -float(inner.function)),
                           negg=bool(same and hx(r.gradient) == hx(-np.asarray(inner.gradient))),
                           negh=bool(same and hx(r.hessian) == hx(-np.asarray(inner.hessian))), inb=inb(self.x)))
        return r

    nl.NegativeLikelihood._f, nl.NegativeLikelihood._f_g, nl.NegativeLikelihood._f_g_h = w_f, w_fg, w_fgh
    try:
        results = b.estimate()
    finally:
        nl.NegativeLikelihood._f, nl.NegativeLikelihood._f_g, nl.NegativeLikelihood._f_g_h = o_f, o_fg, o_fgh
    data = results.data
    fin = state['final']
    ret = state['returned']
    events.append(dict(ev='package',
                       xm=bool(ret is not None and hx(data.betaValues) == hx(ret)),
                       fm=bool(fin is not None and float(data.logLike) == float(fin.function)),
                       gm=bool(fin is not None and hx(data.g) == hx(fin.gradient)),
                       hm=bool(fin is not None and hx(data.H) == hx(fin.hessian)),
                       bm=bool(fin is not None and hx(data.bhhh) == hx(fin.bhhh)),
                       im=bool(state['init_f'] is not None and float(data.initLogLike) == state['init_f'])))
    est = results.get_beta_values()
    wb = True
    for p_, be in enumerate(betas):
        p = p_ % len(NAMES)
        if rec['fixed'][p]:
            wb = wb and be.initValue == fq(rec['start'][p]) and NAMES[p] not in est
        else:
            wb = wb and NAMES[p] in est and be.initValue == est[NAMES[p]]
    events.append(dict(ev='writeback', ok=bool(wb)))
    # ---- comparison with the specification's outcome
    n = 1
    xs = [fq(v) for v in rec['xstar']]
    tol = 5e-4   # optimiser tolerance (BFGS variants stop at a relative gradient of about 6e-6)
    conv = results.algorithm_has_converged()
    for p, nm in enumerate(NAMES):
        if rec['fixed'][p]:
            continue
        got = est.get(nm)
        if got is None:
            out.append(dict(what='estimate missing', name=nm))
            continue
        if rec['supports_bounds'] and not (lo[free.index(nm)] - 1e-9 <= got <= hi[free.index(nm)] + 1e-9):
            out.append(dict(what='estimate outside its bounds', name=nm, got=got, bounds=[lo[free.index(nm)], hi[free.index(nm)]]))
        if conv and not close(got, xs[p], rel=tol, abs_=tol):
            out.append(dict(what='estimate is not the maximiser', name=nm, got=got, want=xs[p], algo=rec['algo']))
    if conv and not close(float(data.logLike), fq(rec['ll_star']), rel=1e-6, abs_=1e-6):
        out.append(dict(what='final log likelihood is not the maximum', got=float(data.logLike), want=fq(rec['ll_star']), algo=rec['algo']))
    if float(data.logLike) < fq(rec['ll_start']) - 1e-9:
        out.append(dict(what='final log likelihood below the initial one', got=float(data.logLike), initial=fq(rec['ll_start'])))
    if not close(float(data.initLogLike), fq(rec['ll_start']), rel=1e-12):
        out.append(dict(what='initial log likelihood', got=float(data.initLogLike), want=fq(rec['ll_start'])))
    check_reported(rec, results, free, fidx, out)
    if rec['algo'] in ('simple_bounds', 'scipy'):
        # with bootstrap: the reported figures still refer to the estimation data, not to a re-sample
        b3, _, _ = build(rec)
        b3.bootstrap_samples = 4
        r3 = b3.estimate(run_bootstrap=True)
        n += 1
        check_reported(rec, r3, free, fidx, out, 'with bootstrap: ')
        if r3.data.bootstrap is None or np.asarray(r3.data.bootstrap).shape != (4, len(free)):
            out.append(dict(what='with bootstrap: replications matrix', got=None if r3.data.bootstrap is None else list(np.asarray(r3.data.bootstrap).shape)))
    if rec['algo'] == 'simple_bounds':
        # an estimation that is stopped early (one iteration): whatever the convergence report says, the reported figures
        # are those of the likelihood at the returned point and the formulas' starting values are the returned estimates
        b4, betas4, _ = build(rec)
        b4.max_iterations = 1
        r4 = b4.estimate()
        n += 1
        check_reported(rec, r4, free, fidx, out, 'stopped early: ')
        est4 = r4.get_beta_values()
        if float(r4.data.logLike) < fq(rec['ll_start']) - 1e-9:
            out.append(dict(what='stopped early: final log likelihood below the initial one', got=float(r4.data.logLike), initial=fq(rec['ll_start'])))
        for p_, be in enumerate(betas4):
            p = p_ % len(NAMES)
            want_ = fq(rec['start'][p]) if rec['fixed'][p] else est4.get(NAMES[p])
            if be.initValue != want_:
                out.append(dict(what='stopped early: starting value of the formulas after the estimation', name=NAMES[p], got=be.initValue, want=want_,
                                converged=bool(r4.algorithm_has_converged())))
                break
    # recomputed through the library as well
    b2, _, _ = build(rec)
    n += 1
    f2 = b2.calculate_likelihood([est[nm] for nm in free], scaled=False)
    if not close(f2, float(data.logLike), rel=1e-12):
        out.append(dict(what='likelihood recomputed at the estimates differs from the reported one', got=f2, reported=float(data.logLike)))
    if conv:
        g = np.asarray(data.g, dtype=float)
        for k, nm in enumerate(free):
            p = NAMES.index(nm)
            blocked = (g[k] > 0 and close(est[nm], hi[k], rel=1e-6, abs_=1e-6)) or (g[k] < 0 and close(est[nm], lo[k], rel=1e-6, abs_=1e-6))
            if abs(g[k]) > 1e-3 and not blocked:
                out.append(dict(what='converged but the gradient does not vanish in a free direction', name=nm, gradient=float(g[k]), estimate=est[nm]))
    return dict(mismatches=out, n=n, events=events, converged=bool(conv), bounds=bool(rec['supports_bounds']))


def replay_quick(rec):
    b, betas, d = build(rec)
    r = b.quick_estimate()
    est = r.get_beta_values()
    out = []
    xs = [fq(v) for v in rec['xstar']]
    for p, nm in enumerate(NAMES):
        if not rec['fixed'][p] and r.algorithm_has_converged() and not close(est.get(nm, float('nan')), xs[p], rel=5e-4, abs_=5e-4):
            out.append(dict(what='quick_estimate: estimate is not the maximiser', name=nm, got=est.get(nm), want=xs[p]))
    if float(r.data.logLike) < fq(rec['ll_start']) - 1e-9:
        out.append(dict(what='quick_estimate: final log likelihood below the initial one', got=float(r.data.logLike)))
    return dict(mismatches=out, n=1)


def validate(traces):
    work = tlc.scratch_dir('vb-c07t-')
    try:
        path = os.path.join(work, 'traces.json')
        json.dump(traces, open(path, 'w'))
        res = tlc.run('EstimationTrace', 'SPECIFICATION TraceSpec\nINVARIANT Progress\n', workers=1, env={'TRACE_FILE': path}, timeout=900)
        return {o['tid']: o['verdict'] for o in res.emitted if isinstance(o, dict) and 'tid' in o}, res
    finally:
        shutil.rmtree(work, ignore_errors=True)


def body(chk: check.Check):
    rt.setup(chk.seed)
    quick = chk.tier == 'quick'
    # bounds per parameter (weighted means are 11/4, -3/4, 13/4)
    bound_cfgs = [
        [(None, None), (None, None), (None, None)],
        [(-10, 10), (-10, 10), (-10, 10)],        # inactive
        [(4, 10), (None, None), (None, 2)],       # active lower on b2, active upper on a_mid
        [(None, 5), ('-1/2', None), (0, '7/2')],  # one-sided inactive, active lower on B10, inactive box
        [(None, None), (0, None), (None, None)],  # active bound AT ZERO on B10: the estimate is exactly 0.0
    ]
    starts = [['0', '0', '1'], ['5', '-1/2', '2'], ['9/2', '3', '3/2'], ['1', '1/2', '2']]
    fixed = [[False, False, False], [False, True, False]]
    if quick:
        starts = [starts[0], starts[1], starts[3]]
    mod = module(bound_cfgs, starts, fixed, ALGOS)
    res = tlc.run('EstGen', CFG, extra_modules={'EstGen': mod}, workers='auto', timeout=1800)
    chk.add_tlc('Estimation: bound configurations x starts x fixed patterns x algorithms', res)
    recs = res.emitted
    chk.rule = ('concave separable model with 3 parameters (names needing the sorted order) x bound configurations (none, inactive, active lower, '
                'active upper, one-sided) x feasible starting points x fixed patterns x the 9 algorithm names; distinct = distinct behaviours; '
                'each is one real estimate() with its dialogue recorded')
    results = par.pmap(replay, recs, chunk=4, timeout=1200)
    traces = []
    nconv = 0
    for k, (rec, (st, val)) in enumerate(zip(recs, results)):
        key = (rec['algo'], json.dumps(rec['bounds']), json.dumps(rec['start']), tuple(rec['fixed']))
        chk.replayed += 1
        if st != 'ok':
            chk.violation(f'replay:{st}', dict(algo=rec['algo'], start=rec['start'], bounds=rec['bounds'], error=val), match=dict(kind='exception', algo=rec['algo']))
            continue
        chk.count(key, val['n'])
        nconv += val['converged']
        traces.append(dict(tid=k, bounds=val['bounds'], events=val['events']))
        if rec['algo'] == 'simple_bounds' and any(rec['active']):
            chk.sample(dict(algo=rec['algo'], bounds=rec['bounds'], start=rec['start'], fixed=rec['fixed'], expected_xstar=rec['xstar'],
                            expected_ll=rec['ll_star'], dialogue_events=len(val['events']), first_events=val['events'][:4]))
        for m in val['mismatches']:
            chk.violation('replay:' + m['what'][:60], dict(dict(algo=rec['algo'], bounds=rec['bounds'], start=rec['start'], fixed=rec['fixed']), **m),
                          match=dict(kind='value', algo=rec['algo'], what=m['what']))
    chk.extra['estimations_converged'] = nconv
    verdicts, tres = validate(traces)
    chk.add_tlc(f'EstimationTrace over {len(traces)} recorded dialogues', tres)
    for tr in traces:
        v = verdicts.get(tr['tid'], 'not-consumed')
        if v == 'ok':
            chk.traces += 1
        else:
            rec = recs[tr['tid']]
            chk.violation('trace:' + v.split('@')[0], dict(algo=rec['algo'], bounds=rec['bounds'], start=rec['start'], verdict=v, events=tr['events'][:6]),
                          match=dict(kind='trace', clause=v.split('@')[0], algo=rec['algo']))
    # quick_estimate on a sample
    rng = np.random.default_rng(chk.seed)
    sub = [recs[i] for i in rng.choice(len(recs), size=min(len(recs), 24 if quick else 120), replace=False)]
    for rec, (st, val) in zip(sub, par.pmap(replay_quick, sub, chunk=4, timeout=900)):
        chk.evaluations += 1
        if st != 'ok':
            chk.violation(f'quick_estimate:{st}', dict(algo=rec['algo'], error=val), match=dict(kind='exception', algo=rec['algo']))
            continue
        for m in val['mismatches']:
            chk.violation('quick_estimate:' + m['what'][:50], dict(dict(algo=rec['algo'], bounds=rec['bounds']), **m), match=dict(kind='value', algo=rec['algo']))
    # negative controls
    import copy

    if traces:
        base = next(t for t in traces if any(e['ev'] == 'req' for e in t['events']))
        ctl = []
        a = copy.deepcopy(base); a['tid'] = 'ctl-sign'
        next(e for e in a['events'] if e['ev'] == 'req')['negf'] = False
        ctl.append(a)
        c = copy.deepcopy(base); c['tid'] = 'ctl-final-elsewhere'
        next(e for e in c['events'] if e['ev'] == 'final')['x'] += 1000
        ctl.append(c)
        d_ = copy.deepcopy(base); d_['tid'] = 'ctl-drop-init'
        d_['events'] = [e for e in d_['events'] if e['ev'] != 'init']
        ctl.append(d_)
        e_ = copy.deepcopy(base); e_['tid'] = 'ctl-results-other-loglike'
        next(e for e in e_['events'] if e['ev'] == 'package')['fm'] = False
        ctl.append(e_)
        cv, _ = validate(ctl)
        for t in ctl:
            chk.control(f'corrupted dialogue {t["tid"]}', cv.get(t['tid'], 'not-consumed') != 'ok', f'verdict={cv.get(t["tid"])}')
    mut = copy.deepcopy(next(r for r in recs if any(r['active']) and r['algo'] == 'simple_bounds'))
    p = next(i for i, a_ in enumerate(mut['active']) if a_)
    mut['xstar'][p] = [mut['xstar'][p][0] + mut['xstar'][p][1], mut['xstar'][p][1]]
    st, val = rt.forked(replay, mut)
    chk.control('expected maximiser moved by one in an actively bounded coordinate', st != 'ok' or bool(val['mismatches']))
    chk.uncovered += ['non-concave models; bootstrap; algorithms that do not report convergence are only checked for feasibility, monotonicity and consistency of the reported figures']
    chk.assumptions += ['estimates compared at 5e-4, maximum value at 1e-6 (optimiser tolerance); for an algorithm that does not handle bounds the problem is the one WITHOUT the declared bounds']


if __name__ == '__main__':
    check.main(PID, body)
