"""C04 -- the sample log likelihood is the weighted sum of per-observation values.

(A) Aggregation.tla: TLC explores EVERY split of the rows into contiguous blocks and EVERY
    interleaving of the threads' steps (N <= 4 rows, T <= 5 threads) and, separately, the shipped
    engine's concrete partition rule for all N <= 8, T <= 10: total = sum w_r f_r, each row once.
(B) AggData.tla: every permutation of every subset of a row pool with the expected aggregates
    (value, gradient, Hessian, BHHH; weighted and unweighted; every prefix split) -- replayed into
    BIOGEME.calculate_likelihood / calculate_likelihood_and_derivatives / simulate for every thread
    count 1..N+2 and 0 (= cpu count); T > 1 cases repeated (real schedules vary).
(C) the calls crossing the engine boundary are checked against the protocol: setData rows = table
    rows, setExpressions carries the resolved thread count and a weight signature iff a weight
    formula exists.
"""

from __future__ import annotations

import os
import sys

sys.path.insert(0, '/verif')

import numpy as np

from vb import boundary, check, par, rt, tlc
from vb.rt import close

PID = 'C04'
ROWPOOL = [(2, 1, 2), (-1, 3, 4), (3, -2, 1), (1, 1, 0), (4, 2, 3)]
POINTS = [(1, 2), (-2, 3)]


def agg_cfg(n, t, engine, props=True):
    s = f'''SPECIFICATION Spec
CONSTANTS
 N = {n}
 T = {t}
 W <- G_W
 F <- G_F
 EngineRule = {"TRUE" if engine else "FALSE"}
INVARIANT TotalOK
INVARIANT EachRowOnce
INVARIANT NeverTwice
INVARIANT BlocksDisjointCover
'''
    if props:
        s += 'PROPERTY Terminates\n'
    return s


def agg_mod(n):
    w = [1, 2, 0, 3, 1, 2, 5, 1, 4, 2][:n]
    f = [5, -2, 7, 1, -3, 4, 2, -6, 3, 8][:n]

    def sq(v):
        return '<<' + ', '.join(str(x) if x >= 0 else f'(0 - {-x})' for x in v) + '>>'

    return f'---- MODULE AggGen ----\nEXTENDS Aggregation\nG_W == {sq(w)}\nG_F == {sq(f)}\n====\n'


def data_mod(pool):
    rows = ', '.join(f'[x |-> {x if x >= 0 else f"(0 - {-x})"}, z |-> {z if z >= 0 else f"(0 - {-z})"}, w2 |-> {w}]' for x, z, w in pool)
    pts = ', '.join(f'<<{a if a >= 0 else f"(0 - {-a})"}, {b}>>' for a, b in POINTS)
    return f'---- MODULE AggDataGen ----\nEXTENDS AggData\nG_Pool == <<{rows}>>\nG_Points == <<{pts}>>\n====\n'


def data_cfg(maxrows):
    return f'''SPECIFICATION Spec
CONSTANTS
 RowPool <- G_Pool
 MaxRows = {maxrows}
 Points <- G_Points
INVARIANT PartsAddUp
INVARIANT OrderIrrelevant
INVARIANT EmitInv
'''


def make(rows, weighted, threads):
    import pandas as pd
    import biogeme.biogeme as bio
    import biogeme.database as db
    import biogeme.expressions as ex

    df = pd.DataFrame({'x': [float(r['x']) for r in rows], 'z': [float(r['z']) for r in rows], 'w': [r['w2'] / 2.0 for r in rows]})
    d = db.Database('c04', df)
    b1 = ex.Beta('b1', 0, None, None, 0)
    b2 = ex.Beta('b2', 0, None, None, 0)
    ll = b1 * ex.Variable('x') + b2 * ex.Variable('z') + b1 * b2
    formulas = {'log_like': ll, 'weight': ex.Variable('w')} if weighted else {'log_like': ll}
    b = bio.BIOGEME(d, formulas, number_of_threads=threads)
    b.generate_html = False
    b.generate_pickle = False
    b.save_iterations = False
    return b, d, ll


def cmp_tot(out, label, got, tot2, div=1.0):
    """tot2 holds twice the expected aggregates"""
    n = 0
    for fld, key in (('function', 'f'), ('gradient', 'g'), ('hessian', 'h'), ('bhhh', 'bh')):
        want = np.asarray(tot2[key], dtype=float) / 2.0 / div
        g = np.asarray(getattr(got, fld), dtype=float)
        n += 1
        if g.shape != want.shape or not np.allclose(g, want, rtol=1e-12, atol=1e-12):
            out.append(dict(what=f'{label}: {fld}', got=g.tolist(), want=want.tolist()))
    return n


def replay(args):
    rec, repeats = args
    rows = rec['rows']
    n_rows = len(rows)
    out = []
    n = 0
    boundary.install()
    for weighted in (False, True):
        key = 'weighted' if weighted else 'plain'
        for threads in list(range(1, n_rows + 3)) + [0]:
            boundary.reset()
            b, d, ll = make(rows, weighted, threads)
            resolved = threads if threads > 0 else os.cpu_count()
            if b.number_of_threads != resolved:
                out.append(dict(what='number_of_threads resolution', got=b.number_of_threads, want=resolved))
            for c in boundary.LOG:
                if c['call'] == 'setExpressions':
                    if c['args'][1] != resolved:
                        out.append(dict(what='boundary: thread count', got=c['args'][1], want=resolved))
                    if (len(c['args']) == 3) != weighted:
                        out.append(dict(what='boundary: weight signature present iff weight formula', nargs=len(c['args']), weighted=weighted))
                if c['call'] == 'setData':
                    got_rows = c['args'][0]['rows']
                    want_rows = [[float(r['x']), float(r['z']), r['w2'] / 2.0] for r in rows]
                    if got_rows != want_rows:
                        out.append(dict(what='boundary: setData rows', got=got_rows, want=want_rows))
            for rep in range(repeats if threads != 1 else 1):
                for p, pt in enumerate(POINTS):
                    tot2 = rec['totals'][p][key]
                    x = [float(pt[0]), float(pt[1])]
                    f = b.calculate_likelihood(x, scaled=False)
                    fs = b.calculate_likelihood(x, scaled=True)
                    n += 2
                    if not close(f, tot2['f'] / 2.0, rel=1e-12):
                        out.append(dict(what=f'calculate_likelihood T={threads} {key}', got=f, want=tot2['f'] / 2.0, point=pt))
                    if not close(fs, tot2['f'] / 2.0 / n_rows, rel=1e-12):
                        out.append(dict(what=f'calculate_likelihood scaled T={threads} {key}', got=fs, want=tot2['f'] / 2.0 / n_rows))
                    n += cmp_tot(out, f'derivatives T={threads} {key} point {pt}',
                                 b.calculate_likelihood_and_derivatives(x, scaled=False, hessian=True, bhhh=True), tot2)
                    n += cmp_tot(out, f'derivatives scaled T={threads} {key} point {pt}',
                                 b.calculate_likelihood_and_derivatives(x, scaled=True, hessian=True, bhhh=True), tot2, div=float(n_rows))
            # likelihood = sum over rows of weight x simulated per-row value
            for p, pt in enumerate(POINTS):
                sim = b.simulate({'b1': float(pt[0]), 'b2': float(pt[1])})
                per_row = sim['log_like'].tolist()
                n += 1
                if per_row != [float(v) for v in rec['per_row'][p]]:
                    out.append(dict(what=f'simulate per row T={threads}', got=per_row, want=rec['per_row'][p]))
                wts = [r['w2'] / 2.0 for r in rows] if weighted else [1.0] * n_rows
                if weighted and 'weight' in sim and sim['weight'].tolist() != wts:
                    out.append(dict(what='simulate weight column', got=sim['weight'].tolist(), want=wts))
                tot = sum(w * v for w, v in zip(wts, per_row))
                f = b.calculate_likelihood([float(pt[0]), float(pt[1])], scaled=False)
                if not close(f, tot, rel=1e-12):
                    out.append(dict(what=f'likelihood vs sum of weight x simulate T={threads} {key}', got=f, want=tot))
    # splits: the totals of the two parts add up to the total of the whole (all through the real code)
    for k in range(1, n_rows):
        for weighted in (False, True):
            key = 'weighted' if weighted else 'plain'
            ba, _, _ = make(rows[:k], weighted, 2)
            bb, _, _ = make(rows[k:], weighted, 3)
            for p, pt in enumerate(POINTS):
                x = [float(pt[0]), float(pt[1])]
                fa = ba.calculate_likelihood(x, scaled=False)
                fb = bb.calculate_likelihood(x, scaled=False)
                n += 1
                if not close(fa, rec['prefix'][p][k - 1][key]['f'] / 2.0, rel=1e-12):
                    out.append(dict(what=f'prefix part {k} {key}', got=fa, want=rec['prefix'][p][k - 1][key]['f'] / 2.0))
                if not close(fa + fb, rec['totals'][p][key]['f'] / 2.0, rel=1e-12):
                    out.append(dict(what=f'parts do not add up at split {k} {key}', got=fa + fb, want=rec['totals'][p][key]['f'] / 2.0))
    boundary.reset()
    return dict(mismatches=out, n=n)


def body(chk: check.Check):
    rt.setup(chk.seed)
    quick = chk.tier == 'quick'
    # (A) schedules
    for n, t in ([(3, 2), (4, 3), (3, 5), (5, 4), (6, 3)] if quick else [(3, 2), (4, 3), (3, 5), (5, 4), (6, 3), (6, 5), (7, 4), (8, 3)]):
        res = tlc.run('AggGen', agg_cfg(n, t, False), extra_modules={'AggGen': agg_mod(n)}, workers='auto', timeout=1500)
        chk.add_tlc(f'Aggregation: every split and interleaving, N={n} T={t}', res)
    nmax, tmax = (12, 16) if quick else (40, 32)
    res = tlc.run('AggPartition', f'SPECIFICATION Spec\nCONSTANTS\n MaxN = {nmax}\n MaxT = {tmax}\nINVARIANT Inv\n', workers=1, timeout=900)
    chk.add_tlc(f'AggPartition: engine partition rule for all N<={nmax}, T<={tmax}', res)
    chk.extra['engine_partition_instances_checked'] = nmax * tmax
    for n, t in [(4, 2), (5, 3)]:
        res = tlc.run('AggGen', agg_cfg(n, t, True, props=False), extra_modules={'AggGen': agg_mod(n)}, workers=2, timeout=600)
        chk.add_tlc(f'Aggregation with the engine partition rule, every interleaving, N={n} T={t}', res)
    # (B) data sets
    pool = ROWPOOL[:4] if quick else ROWPOOL
    res = tlc.run('AggDataGen', data_cfg(3 if quick else 4), extra_modules={'AggDataGen': data_mod(pool)}, workers='auto', timeout=900)
    chk.add_tlc(f'AggData: permutations of subsets of {len(pool)} rows', res)
    recs = res.emitted
    chk.rule = ('every permutation of every subset (size <= 3 quick / 4 thorough) of a pool of integer rows with half-integer weights '
                '(incl. zero weight), x weighted/unweighted x thread counts 1..N+2 and 0 x 2 parameter points x every prefix split; '
                'distinct = distinct row sequences')
    repeats = 2 if quick else 20
    results = par.pmap(replay, [(r, repeats) for r in recs], chunk=3)
    for rec, (st, val) in zip(recs, results):
        key = tuple((r['x'], r['z'], r['w2']) for r in rec['rows'])
        chk.replayed += 1
        if st != 'ok':
            chk.violation(f'replay:{st}', dict(rows=key, error=val), match=dict(kind='exception'))
            continue
        chk.count(key, val['n'])
        chk.sample(dict(rows=key, expected_twice_totals_point1=rec['totals'][0]['weighted']))
        for m in val['mismatches']:
            chk.violation('replay:' + m['what'].split(' T=')[0][:50], dict(rows=key, **m), match=dict(kind='value'))
    # negative controls
    import copy

    base = next(r for r in recs if len(r['rows']) >= 2)
    mut = copy.deepcopy(base)
    mut['totals'][0]['weighted']['f'] += 2
    st, val = rt.forked(replay, (mut, 1))
    chk.control('expected weighted total off by one', st != 'ok' or bool(val['mismatches']))
    mut = copy.deepcopy(base)
    mut['rows'][0]['w2'], mut['rows'][1]['w2'] = base['rows'][1]['w2'] + 1, base['rows'][0]['w2']
    st, val = rt.forked(replay, (mut, 1))
    chk.control('weights attached to other rows than the expectation assumes', st != 'ok' or bool(val['mismatches']))
    res = tlc.run('AggGen', agg_cfg(3, 2, False, props=False).replace('INVARIANT NeverTwice', 'INVARIANT NeverTwice\nINVARIANT NoPartial'),
                  extra_modules={'AggGen': agg_mod(3).replace('====', 'NoPartial == \\A t \\in Threads : part[t] = 0\n====')}, workers=2, timeout=300)
    chk.control('TLC reports a deliberately false invariant on Aggregation (model is not vacuous)', res.violated == 'NoPartial')
    chk.uncovered += ["the engine's internal partition and scheduling are not observable from Python: Aggregation's Dispatch is its contract; an engine race would be seen only if it changed a result (T>1 cases are repeated)"]
    chk.assumptions += ['integer-valued polynomial likelihood so that sums are exact in floating point (compared at 1e-12)']


if __name__ == '__main__':
    check.main(PID, body)
